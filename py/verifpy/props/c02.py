"""C02 — everything emitted is valid JSON-RPC 2.0 and survives the library's own parser."""
from __future__ import annotations

from .. import core
from .. import json_h as J
from .. import rpc_h as R
from ..runner import Suite

MANIFEST = dict(
    text="Lean 4 theorems about a model of the JSON-RPC envelope layer (Model/Rpc.lean: the four envelope classes, emit = top-level exclude-none wire object, parseMsg = parse_message's legacy-first classification read through member presence, the constructors incl. result=None -> {}, the legacy class methods, the server's response builders, send_message's request building with progress-token injection, the dict-shaped errors of the batch processor and transports): for EVERY message built by any emitter, with arbitrary JSON payloads (any depth, nulls anywhere, integers of any size) and arbitrary int/string ids, the emitted object is valid JSON-RPC 2.0, parseMsg (emit m) yields the same kind and identical id (value and JSON type), method, params, result, error, nested nulls are untouched, and the composition with C17's decoder/encoders (any separator/escaping style) round-trips on the wire. Tied to the code by a correspondence run over emitters ENUMERATED BY INTROSPECTION (module walk for create_*/send_* functions, class methods, handler methods, and an AST scan for every dict literal with a 'jsonrpc' key; an emitter without a driver is reported) x payloads x ids, through model_dump(exclude_none=True), model_dump_json and the real stdio/HTTP/SSE serialisers.",
    note="Trusted: Lean kernel (axioms propext, Classical.choice, Quot.sound only), the correspondence harness, introspection-based emitter discovery. Pydantic validation/serialisation is third-party: modelled (strict typing), sampled by the correspondence run. The params a typed helper builds from its arguments are taken from the observation (envelope-level correspondence); payload fidelity is checked where the payload position is part of the emitter's contract (constructors, send_message, handler results). Quick tier runs the Pydantic backend in full plus a reduced pass under MCP_FORCE_FALLBACK=1 (worker processes); thorough repeats every case under the fallback backend, with and without orjson.",
    technique="Lean 4 proof (case analysis over an inductive closure of emitters; composition with the C17 codec theorem) + differential correspondence run over introspected emitters",
    design="5/C02",
)
GEN: list = []
# supplementary (Props/C02Supp.lean): the notification layer, handlers, dispatcher, predicates, error classes and the client-side
# answers; Gen/Methods.lean (regenerated method tables, completion limit, default codes) is needed by them only
SUPP_GEN = ["Methods"]
SUPP_THEOREMS = [
    "c02_methods_translated",
    "c02_method_tables_consistent",
    "c02_notification_senders_built",
    "c02_notification_delivered",
    "c02_handler_guard",
    "c02_notification_handler_dispatch",
    "c02_register_defaults",
    "c02_kind_predicates",
    "c02_exception_error_objects",
    "c02_roots_list_response",
    "c02_sampling_result",
    "c02_completion_truncation",
    "c02_complete_enum",
    "c02_roots_manager_notifications",
    "c02_to_specific_type",
    "c02_parse_batch_legacy_items",
    "c02_instances_independent",
]
THEOREMS = [
    "c02_emit_valid",
    "c02_parse_emit",
    "c02_nested_null_preserved",
    "c02_payload_verbatim",
    "c02_wire_roundtrip",
    "c02_wire_single_line",
    "c02_constructor_errors",
    "c02_send_message_id_kept",
]
RULE = (
    "emitters enumerated by introspection of the package at run time (create_* constructors, JSONRPCMessage.create_* class "
    "methods, send_message, every async function with a write_stream parameter, ProtocolHandler/MCPServer handlers and response "
    "builders, BatchProcessor, every dict literal with a 'jsonrpc' key found by an AST scan, the real stdio/HTTP/SSE serialisers "
    "fed with create_* products, instances built DIRECTLY from each public envelope class relying on its defaults, dicts, "
    "parse_message/model_validate products and the products of every other emitter) x payloads (every JSON object of depth<=2 "
    "over {null, 0, 'a', {}, []} with <=2 members, nulls nested at depth>=2 in dicts and lists, seeded deep JSON with empty "
    "containers, ints over the whole signed and unsigned 64-bit range, floats, control / U+2028 / astral characters) x ids (0, "
    "negative, 2^53.., 2^63.., 2^64-1, '', digit strings, ' 7 ', non-ASCII) x method names as strings and MessageMethod members x "
    "handlers raising a spread of exception types (non-JSON args: bytes, objects, sets; no args; chained causes; unprintable); "
    "hardening: falsy values at every caller-supplied position, type twins, string / integer constants harvested from the anchored "
    "modules fed back as methods, texts, ids and codes, format-hostile and 100 kB texts, to_specific_type / from_specific_type / "
    "JSONRPCMessageWrapper, send_message with timeout 0 and with cancellation before / exactly at the poll boundaries under the three "
    "tie orders, sequences on shared objects (one params dict, one handler incl. sessions and a second initialize, one batch "
    "processor across version changes), bursts of 99..101 (thorough: 1..1000) messages through each transport object, raw-string / "
    "dump-only / list / extra-member messages at the stdio writer; each emitted "
    "object is observed as model_dump(exclude_none=True), as the decoded model_dump_json text and as dumps(model_dump), checked "
    "for serialisability, against the JSON-RPC 2.0 grammar, against the members the constructed message object holds, re-parsed "
    "with the library's parse_message and compared member by member, and compared with the Lean model's emit/parseMsg; the quick "
    "tier runs the Pydantic backend in full and a reduced pass (every nested-null case + every 3rd other) under "
    "MCP_FORCE_FALLBACK=1 in worker processes; non-trivial = distinct (emitter, arguments)"
)
TRUSTED = [
    "Pydantic v2 validation / serialisation of the envelope classes (third-party; sampled)",
    "emitter discovery by introspection + AST scan (py/verifpy/rpc_h.py)",
]
ASSUMPTIONS = [
    "ids are integers or strings (the property's quantifier); booleans/floats as ids are outside",
    "emitters with a null id (batch rejection, transport errors for a message without id) are JSON-RPC-legal: validity only",
    "SKIP_JSONRPC_VALIDATION is not set",
    "under the fallback backend a digit-string id is coerced to an integer (finding F-C09a, owned by C09): reported by the thorough tier with key id-changed/fallback-digit-string",
]

IDS = [{"i": 0}, {"i": 1}, {"i": -1}, {"i": 2 ** 53 + 1}, {"i": 2 ** 63 - 1}, {"i": 2 ** 63}, {"i": 2 ** 64 - 1}, {"i": -(2 ** 63)},
       J.S(""), J.S("0"), J.S("123"), J.S("-5"), J.S("007"), J.S("18446744073709551615"), J.S("abc"),
       J.S("1e3"), J.S(" 1"), J.S(" 7 "), J.S("\t7\n"), J.S("é \U0001F600"), J.S("a\nb")]
QUICK_IDS = [{"i": 0}, {"i": -1}, {"i": 2 ** 63}, {"i": 2 ** 64 - 1}, J.S(""), J.S("123"), J.S(" 7 "), J.S("é \U0001F600")]
TEXTS = [J.cps("x"), J.cps(""), J.cps("tools/call"), J.cps("a\"b\\c\n\x00\x1f\x7f"), J.cps("é  \U0001F600")]
HOSTILE = [J.cps(t) for t in ["%", "%s %d", "%(x)s", "{}", "{0}", "{x}", "\r\n", "\n", "\u2028\u2029\u0085", "'", "\"", "\\", "\\\"", " ", "0", "false",
                                "null", "None", "2.0", "jsonrpc"]]
import random as _random
HOSTILE += [J.cps(t) for t in J.syntax_texts(_random.Random(0), 0)]  # text that looks like JSON / event-stream / header syntax
HOSTILE.append(J.of_py("%s {} \n" * 12_500)["s"])  # ~100 kB, in the compact transport form
TWINS = {"o": [[J.cps("l"), {"a": [{"i": 1}, True, {"f": (1.0).hex()}, J.S("1")]}],
               [J.cps("z"), {"a": [{"i": 0}, False, {"f": (0.0).hex()}, J.S(""), None, {"a": []}, {"o": []}]}],
               [J.cps("7"), {"i": 7}], [J.cps("7.0"), {"f": (7.0).hex()}], [J.cps("true"), True], [J.cps(""), J.S("7")]]}
# handler results with integers just outside the 64-bit range (uint128 amounts, 2**64 as an exclusiveMaximum): what the server
# handler family emits must carry them as the integers they are (compared type-exactly: an int is not a float)
BIGINT_RESULTS = [{"o": [[J.cps("amount"), {"i": 2 ** 64}], [J.cps("more"), {"a": [{"i": 2 ** 64 + 1}, {"i": -(2 ** 63) - 1}, {"i": 2 ** 128 - 1}, {"i": 10 ** 30 + 7}]}],
                         [J.cps("inside"), {"a": [{"i": 2 ** 64 - 1}, {"i": -(2 ** 63)}, {"f": (1.5).hex()}]}]]},
                  {"i": 2 ** 64}, {"a": [{"i": -(2 ** 63) - 1}]},
                  {"o": [[J.cps("schema"), {"o": [[J.cps("exclusiveMaximum"), {"i": 2 ** 64}], [J.cps("minimum"), {"i": -(2 ** 127)}]]}]]}]
FALSY = [None, {"o": []}, {"a": []}, {"i": 0}, {"f": (0.0).hex()}, False, {"s": []}]
LEAVES = [None, {"i": 0}, {"s": [97]}, {"o": []}, {"a": []}]
KEYS = [[107], [0xE9]]
NAMED_CODES = [-32700, -32600, -32601, -32602, -32603, -32000, -32001, -32002]
CODES = [-32700, -32603, 0, 1, -1, 2 ** 31, -(2 ** 63), 2 ** 64 - 1]


def small_objects():
    return [v for v in J.exhaustive(LEAVES, KEYS, 2, 2) if isinstance(v, dict) and "o" in v]


def small_values():
    return J.exhaustive(LEAVES, KEYS, 2, 2)


def rand_obj(rng, deep=4):
    while True:
        v = J.rand_value(rng, deep, 0.0, rng.choice([2, 3, 4]))
        if isinstance(v, dict) and "o" in v:
            return v


SPECIAL_PAYLOADS = [
    {"o": [[J.cps("a"), None], [J.cps("b"), {"a": [None, {"o": [[J.cps("c"), None]]}]}], [J.cps("d"), {"o": []}], [J.cps("e"), {"a": []}]]},
    {"o": [[J.cps("big"), {"i": 2 ** 64 - 1}], [J.cps("neg"), {"i": -(2 ** 63)}], [J.cps("f"), {"f": (1.5).hex()}],
           [J.cps("z"), {"f": (-0.0).hex()}], [J.cps("t"), True], [J.cps("one"), {"i": 1}], [J.cps("onef"), {"f": (1.0).hex()}]]},
    {"o": [[J.cps("é "), {"s": J.cps("\x00\x1f\n\r  \x7f\x85\U0001F600\"\\")}], [[], {"s": []}]]},
    {"o": [[J.cps("_meta"), {"o": [[J.cps("progressToken"), {"s": J.cps("old")}], [J.cps("x"), None]]}], [J.cps("k"), None]]},
    {"o": [[J.cps("jsonrpc"), {"s": J.cps("1.0")}], [J.cps("id"), None], [J.cps("method"), {"i": 3}], [J.cps("result"), None], [J.cps("error"), None]]},
]
NESTED_NULLS = [
    {"o": [[J.cps("arguments"), {"o": [[J.cps("cursor"), None], [J.cps("deep"), {"o": [[J.cps("x"), {"o": [[J.cps("y"), None]]}]]}],
                                        [J.cps("list"), {"a": [{"o": [[J.cps("z"), None]]}, {"a": [None]}, None]}]]}]]},
    {"o": [[J.cps("a"), {"o": [[J.cps("b"), None]]}], [J.cps("c"), {"a": [{"o": [[J.cps("d"), None], [J.cps("e"), {"i": 1}]]}]}]]},
]
SPECIAL_PAYLOADS = SPECIAL_PAYLOADS[:1] + NESTED_NULLS + SPECIAL_PAYLOADS[1:]
SPECIAL_PAYLOADS = SPECIAL_PAYLOADS + [TWINS]

ENUM_METHODS = ["PING", "TOOLS_CALL", "NOTIFICATION_PROGRESS", "NOTIFICATION_CANCELLED"]
# caller params that already carry `_meta` (other keys, falsy values, nested nulls, a stale progress token)
META_PAYLOADS = [
    {"o": [[J.cps("_meta"), {"o": [[J.cps("progressToken"), J.S("stale")], [J.cps("x"), None]]}], [J.cps("k"), None]]},
    {"o": [[J.cps("_meta"), {"o": [[J.cps("a"), {"i": 0}], [J.cps("b"), J.S("")], [J.cps("c"), {"a": []}], [J.cps("d"), {"o": [[J.cps("n"), None]]}],
                                   [J.cps("e"), False]]}], [J.cps("arguments"), {"o": [[J.cps("cursor"), None]]}]]},
    {"o": [[J.cps("_meta"), {"o": []}]]},
    {"o": [[J.cps("_meta"), {"o": [[J.cps("progressToken"), {"i": 0}]]}], [J.cps("z"), {"a": [None]}]]},
    {"o": [[J.cps("x"), {"o": [[J.cps("_meta"), {"o": [[J.cps("deep"), None]]}]]}], [J.cps("_meta"), {"o": [[J.cps("trace"), J.S("é\u2028")]]}]]},
]
# member NAMES that look like credentials, header names or the envelope's own reserved words, at depth 1..3
NAMEY = ["token", "password", "secret", "api_key", "apikey", "authorization", "Authorization", "access_token", "refresh_token", "client_secret",
         "passwd", "cookie", "id", "method", "jsonrpc", "result", "error", "params", "_meta", "progressToken", "code", "message", "data"]


def _namey(depth):
    vals = [J.S("v"), {"i": 7}, None, False, {"a": [J.S("x"), None]}]
    members = [[J.cps(k), vals[i % len(vals)]] for i, k in enumerate(NAMEY)]
    t = {"o": members}
    for d in range(depth - 1):
        t = {"o": [[J.cps(NAMEY[d]), t], [J.cps("list"), {"a": [t, {"o": members[:3]}]}]] + members[3 + d:8 + d]}
    return t


NAME_PAYLOADS = [_namey(1), _namey(2), _namey(3)]
SPECIAL_PAYLOADS = SPECIAL_PAYLOADS + NAME_PAYLOADS[:2]
BAD_META = [
    {"o": [[J.cps("_meta"), None]]}, {"o": [[J.cps("_meta"), {"s": J.cps("str")}]]}, {"o": [[J.cps("_meta"), {"a": []}]]},
    {"o": [[J.cps("_meta"), {"i": 1}]]},
]


def _nested_null(t, depth=0):
    if isinstance(t, dict):
        if "o" in t:
            return any((v is None and depth >= 1) or _nested_null(v, depth + 1) for _, v in t["o"])
        if "a" in t:
            return any((v is None and depth >= 1) or _nested_null(v, depth + 1) for v in t["a"])
    return False


def has_nested_null(case):
    a = case["args"]
    if isinstance(a.get("inner"), dict):
        return has_nested_null(a["inner"])
    return any(_nested_null(a.get(k)) for k in ("params", "result", "data", "payload"))


def inspect_params(name):
    """parameter names of a typed helper (to aim wrong-typed arguments at the ones it validates)"""
    import importlib
    import inspect
    try:
        modname, fn = name.rsplit(".", 1)
        f = getattr(importlib.import_module("chuk_mcp.protocol.messages." + modname), fn)
        return set(inspect.signature(f).parameters)
    except Exception:  # noqa: BLE001
        return set()


def _case(emitter, **args):
    return {"emitter": emitter, "args": args}


def gen_cases(ctx, budget, names):
    """cases for the discovered emitters"""
    rng = ctx.sub_rng("c02", budget)
    quick = budget == "quick"
    ids = QUICK_IDS if quick else IDS
    objs = small_objects()
    vals = small_values()
    D = R.drivers()
    out = []

    strs, variants, ints = R.harvest_constants()
    magic = strs + variants
    n_magic = 30 if quick else len(magic)
    texts = TEXTS + HOSTILE[:-1] + [J.cps(t) for t in rng.sample(magic, min(n_magic, len(magic)))]
    magic_ids = [J.S(t) for t in rng.sample(magic, min(10 if quick else 200, len(magic)))]
    codes = CODES + NAMED_CODES + [i for i in ints] + [-i for i in ints if i]
    note = (f"gen({budget}): {len(strs)} string / {len(ints)} integer constants harvested from the anchored modules "
            f"(+{len(variants)} spelling variants); {min(n_magic, len(magic))} fed as texts / methods, {len(magic_ids)} as ids")
    if note not in ctx.notes:
        ctx.notes.append(note)

    def payloads(k):
        ps = list(SPECIAL_PAYLOADS)
        ps += [rand_obj(rng) for _ in range(k)]
        return ps

    def pick_id():
        return rng.choice(IDS + magic_ids)

    def pick_text():
        return rng.choice(texts)

    for name in names:
        fam = D[name][0] if name in D else None
        if fam is None:
            out.append(_case(name))  # reported as unknown
            continue
        short = name.split(".")[-1]
        if ".method:" in name:
            short = "method:" + name.split(".method:", 1)[1]
        if fam == "ctor":
            is_resp = "create_response" in short
            is_err = "create_error_response" in short
            is_note = "create_notification" in short
            legacy = ".JSONRPCMessage." in name
            handler = ".ProtocolHandler." in name
            if is_err:
                for i in ids + ([] if legacy else [None]):
                    for data in FALSY + [{"a": [None]}, SPECIAL_PAYLOADS[0], TWINS]:
                        out.append(_case(name, id=i, code=rng.choice(codes), message=pick_text(), **({} if handler else {"data": data})))
                for t in HOSTILE:
                    out.append(_case(name, id=rng.choice(magic_ids + ids), code=rng.choice(codes), message=t, **({} if handler else {"data": J.S(R.s_(t))})))
                for _ in range(150 if quick else 400):
                    out.append(_case(name, id=pick_id(), code=rng.choice(codes), message=pick_text(),
                                     **({} if handler else {"data": J.rand_value(rng, 4, 0.0)})))
            elif is_resp:
                results = (objs if legacy else vals)
                for r in results[:: (3 if quick else 1)]:
                    out.append(_case(name, id=pick_id(), result=r))
                for i in ids + ([] if legacy else [None]):
                    for r in [None, {"o": []}] + ([] if legacy else FALSY[2:]) + SPECIAL_PAYLOADS[:2] + [TWINS]:
                        out.append(_case(name, id=i, result=r))
                for _ in range(250 if quick else 1500):
                    out.append(_case(name, id=pick_id(), result=(rand_obj(rng) if legacy else J.rand_value(rng, 4, 0.0))))
            else:
                for p in [None] + objs[:: (3 if quick else 1)]:
                    a = dict(method=pick_text(), params=p)
                    if not is_note:
                        a["id"] = pick_id()
                    out.append(_case(name, **a))
                for i in ([None] if is_note else ids):
                    for p in [None, {"o": []}] + SPECIAL_PAYLOADS:
                        a = dict(method=pick_text(), params=p)
                        if not is_note:
                            a["id"] = i
                        out.append(_case(name, **a))
                for _ in range(250 if quick else 1500):
                    a = dict(method=pick_text(), params=rand_obj(rng))
                    if not is_note:
                        a["id"] = pick_id()
                    out.append(_case(name, **a))
                if short == "create_request":
                    for p in [None, {"o": []}, TWINS]:
                        out.append(_case(name, method=pick_text(), params=p, id=None))  # the library picks a uuid
                for t in HOSTILE + texts[-8:]:
                    a = dict(method=t, params=rng.choice([None, TWINS]))
                    if not is_note:
                        a["id"] = rng.choice(magic_ids + ids)
                    out.append(_case(name, **a))
                for en in ENUM_METHODS:
                    for p in [None, SPECIAL_PAYLOADS[0]]:
                        a = dict(method_enum=en, params=p)
                        if not is_note:
                            a["id"] = pick_id()
                        out.append(_case(name, **a))
                if short == "create_request" and not legacy:
                    for tok in ids:
                        for p in [None, {"o": []}] + SPECIAL_PAYLOADS + META_PAYLOADS + BAD_META:
                            out.append(_case(name, method=pick_text(), params=p, id=pick_id(), tok=tok))
        elif fam == "send_message":
            for mid in [None, [], J.cps("abc"), J.cps("123"), J.cps("é ")]:
                for progress in (False, True):
                    for p in [None, {"o": []}] + SPECIAL_PAYLOADS + META_PAYLOADS + (BAD_META if progress else []) + objs[:: (9 if quick else 2)]:
                        out.append(_case(name, method=pick_text(), params=p, mid=mid, progress=progress))
            for _ in range(200 if quick else 1000):
                out.append(_case(name, method=pick_text(), params=rand_obj(rng), mid=rng.choice([None, J.cps("m1")]), progress=rng.random() < 0.5))
            for en in ENUM_METHODS:
                for progress in (False, True):
                    out.append(_case(name, method_enum=en, params=SPECIAL_PAYLOADS[1], mid=J.cps(" 7 "), progress=progress))
            for mid_id in [{"i": 7}, {"i": -1}, {"i": 2 ** 53 + 1}, {"i": 2 ** 63}, {"i": 2 ** 64 - 1}, {"i": -(2 ** 63)}, {"i": 0}, J.S("7"), J.S(""), J.S(" 7 "),
                           J.S("0"), J.S("-1")]:
                for progress in (False, True):
                    out.append(_case(name, method=pick_text(), params=rng.choice([None, TWINS, META_PAYLOADS[0]]), mid_id=mid_id, progress=progress))
                out.append(_case(name, method=pick_text(), params=None, mid_id=mid_id, cancel=rng.choice([1, 512]), tie=rng.choice(["events", "timers", "io"])))
            for p in META_PAYLOADS:  # caller `_meta` x progress callback x cancellation token
                for progress in (False, True):
                    out.append(_case(name, method=pick_text(), params=p, mid=J.cps("7"), cancel=rng.choice([1, 512, 513]), tie=rng.choice(["events", "timers", "io"]),
                                     progress=progress))
                    out.append(_case(name, method=pick_text(), params=p, mid=None, timeout0=True, progress=progress))
            for p in [None, {"o": []}, TWINS]:
                out.append(_case(name, method=pick_text(), params=p, mid=rng.choice([None, J.cps("0")]), timeout0=True))
                out.append(_case(name, method=pick_text(), params=p, mid=J.cps("7"), cancel="pre", progress=True))
                # the caller cancels exactly on / around a poll boundary (0.5 s = 512 ticks), every tie order
                for tick in (0, 1, 511, 512, 513, 1024):
                    for tie in ("events", "timers", "io"):
                        out.append(_case(name, method=pick_text(), params=p, mid=rng.choice([None, J.cps("7")]), cancel=tick, tie=tie))
        elif fam == "helper":
            for k, opt in enumerate((False, True)):
                for j, t in enumerate(TEXTS):
                    out.append(_case(name, opt=opt, text=t, payload=SPECIAL_PAYLOADS[(k * len(TEXTS) + j) % len(SPECIAL_PAYLOADS)], id=pick_id()))
            pn = inspect_params(name)
            for bad in ("name", "arguments", "uri", "cursor", "level"):
                if bad in pn:
                    out.append(_case(name, text=pick_text(), payload=TWINS, badtype=bad))
            for t in rng.sample(HOSTILE + texts[-8:], 6 if quick else len(HOSTILE) + 8):
                out.append(_case(name, opt=True, text=t, payload=TWINS, id=rng.choice(magic_ids + [{"i": 0}, J.S("")]), timeout0=rng.random() < 0.5))
            for _ in range(10 if quick else 60):
                out.append(_case(name, opt=rng.random() < 0.5, text=pick_text(), payload=rand_obj(rng), id=pick_id()))
        elif fam == "server":
            if ".MCPServer." in name:
                scen = {
                    "method:tools/list": [("tools/list", None)],
                    "method:tools/call": [("tools/call", {"o": [[J.cps("name"), J.S("ok")], [J.cps("arguments"), {"o": []}]]}),
                                           ("tools/call", {"o": [[J.cps("name"), J.S("bad")]]}),
                                           ("tools/call", {"o": [[J.cps("name"), J.S("nope")]]}), ("tools/call", None)],
                    "method:resources/list": [("resources/list", None)],
                    "method:resources/read": [("resources/read", {"o": [[J.cps("uri"), J.S("file:///ok")]]}),
                                               ("resources/read", {"o": [[J.cps("uri"), J.S("file:///bad")]]}),
                                               ("resources/read", {"o": [[J.cps("uri"), J.S("file:///nope")]]}), ("resources/read", None)],
                }.get(short)
                if scen is None:
                    out.append(_case(name, unknown_handler=True))
                    continue
                for method, params in scen:
                    for i in ids:
                        out.append(_case(name, id=i, method=J.cps(method), params=params, text=pick_text(),
                                         payload=rng.choice([J.S("txt"), SPECIAL_PAYLOADS[0], {"a": [J.S("a"), {"i": 1}]}, None, {"i": 5}] + BIGINT_RESULTS)))
                    key = "name" if "tools/call" in method else ("uri" if "resources/read" in method else None)
                    if key and params is not None and "ok" in R.s_(params["o"][0][1].get("s", [])):
                        for v in [None, True, False, {"i": 7}, {"i": 0}, {"f": (1.5).hex()}, J.S(""), {"a": []}, {"a": [J.S("ok")]}, {"o": []}, {"o": [[J.cps("ok"), None]]}]:
                            out.append(_case(name, id=pick_id(), method=J.cps(method), params={"o": [[J.cps(key), v]]}, text=pick_text(), opts=rng.random() < 0.5))
                        if key == "name":
                            for args_ in [None, {"a": []}, J.S("s"), {"i": 7}, True, {"o": [[J.cps("x"), None]]}, {"o": [[J.cps(""), {"i": 1}]]}]:
                                out.append(_case(name, id=pick_id(), method=J.cps(method), params={"o": [[J.cps("name"), J.S("ok")], [J.cps("arguments"), args_]]},
                                                 text=pick_text(), payload=TWINS, opts=rng.random() < 0.5))
                        for i in ids[:3]:
                            out.append(_case(name, id=i, method=J.cps(method), params=params, text=pick_text(), payload=TWINS, opts=True))
                    if params is not None and "bad" in R.s_(params["o"][0][1].get("s", [])):
                        for ek in R.EXC_KINDS:
                            out.append(_case(name, id=pick_id(), method=J.cps(method), params=params, text=pick_text(), exc=ek, opts=rng.random() < 0.5))
            else:
                scen = {
                    "handle_message": ["unknown", "no-method", "custom-result", "custom-raises", "ping", "initialize", "reentrant", "reentrant-raises"],
                    "method:ping": ["ping"], "method:initialize": ["initialize"], "method:notifications/initialized": ["initialized"],
                }.get(short)
                if scen is None:
                    out.append(_case(name, unknown_handler=True))
                    continue
                for sc in scen:
                    method = {"ping": "ping", "initialize": "initialize", "initialized": "notifications/initialized"}.get(sc, "x/custom")
                    for i in ids:
                        plist = [None, SPECIAL_PAYLOADS[0]] if sc not in ("custom-result", "reentrant") else BIGINT_RESULTS + FALSY + [{"a": [None]}, TWINS] + SPECIAL_PAYLOADS[:3]
                        for p in plist:
                            params = None
                            if sc == "initialize":
                                params = {"o": [[J.cps("protocolVersion"), J.S("2025-06-18")], [J.cps("clientInfo"), {"o": [[J.cps("name"), J.S("c")]]}]]}
                            out.append(_case(name, scenario=sc, id=i, method=J.cps(method), params=params, payload=p, text=pick_text(),
                                             extra=(len(out) % 3 == 0)))
                if "custom-raises" in scen:
                    for t in HOSTILE:
                        out.append(_case(name, scenario="custom-raises", id=pick_id(), method=J.cps("x/custom"), text=t, exc=rng.choice(["runtime", "value", "app", "os"])))
                    for ek in R.EXC_KINDS:
                        for t in TEXTS[:3]:
                            out.append(_case(name, scenario="custom-raises", id=pick_id(), method=J.cps("x/custom"), text=t, exc=ek))
                if short == "handle_message":
                    for _ in range(100 if quick else 600):
                        out.append(_case(name, scenario="custom-result", id=pick_id(), method=J.cps("x/custom"), payload=J.rand_value(rng, 4, 0.0)))
        elif fam == "answer":
            short_ = name.split(".")[-1]
            if short_ in ("handle_roots_list_request",):
                for i in ids:
                    for rs in ([], [[J.cps("file:///a"), None]], [[J.cps("file:///a"), J.S("")], [J.cps("file:///é"), J.S("n")]]):
                        out.append(_case(name, op="handle_roots_list_request", id=i, roots=rs))
            else:
                step = {"handle_list_request": ["list", rng.choice(ids)], "add_root": ["add", J.cps("file:///b"), J.S("b")],
                        "remove_root": ["remove", J.cps("file:///a")], "clear": ["clear"], "get_roots": ["list", {"i": 1}]}.get(short_)
                if step is None:
                    out.append(_case(name, unknown_method=True))
                    continue
                for i in ids[:4]:
                    out.append(_case(name, op="manager", steps=[["add", J.cps("file:///a"), None], step, ["list", i]], stream=True))
        elif fam == "convert":
            for of in ("request", "notification", "response", "error"):
                for i in ids:
                    for p in [None, {"o": []}, SPECIAL_PAYLOADS[0], TWINS]:
                        out.append(_case(name, of=of, id=i, method=pick_text(), params=p, result=p, code=rng.choice(codes), message=pick_text(), data=p))
            for _ in range(30 if quick else 400):
                p = rand_obj(rng)
                out.append(_case(name, of=rng.choice(["request", "notification", "response", "error"]), id=pick_id(), method=pick_text(),
                                 params=p, result=p, code=rng.choice(codes), message=pick_text(), data=p))
        elif fam == "seq":
            pairs = [[{"i": 7}, J.S("7")], [J.S("7"), {"i": 7}], [{"i": 0}, J.S("")], [J.S(" 7 "), {"i": 2 ** 64 - 1}], [{"i": 1}, {"i": 1}]]
            for idp in pairs:
                if name == "seq:shared-params":
                    orders = [["create_request+token", "create_request+token", "create_request"],
                              ["send_message+progress", "send_message+progress", "send_message"],
                              ["send_message+progress", "create_request", "create_notification"],
                              ["create_notification", "send_message", "create_request+token"]]
                    for steps in orders:
                        for p in [None, {"o": []}, SPECIAL_PAYLOADS[0], SPECIAL_PAYLOADS[5] if len(SPECIAL_PAYLOADS) > 5 else TWINS]:
                            out.append(_case(name, steps=steps, ids=idp, method=pick_text(), params=p))
                elif name == "seq:twins":
                    for kind_, steps_ in (("handler", ["x/ok", "x/bad", "ping", "initialize", "nope"]), ("server", ["tools/call", "tools/call:bad", "resources/read", "tools/list", "ping"]),
                                         ("batch", ["ping", "bad", "ping"])):
                        for n_ in (2, 3):
                            steps = [[rng.randrange(n_), rng.choice(steps_), rng.choice(idp)] for _ in range(rng.randrange(4, 10))]
                            out.append(_case(name, kind=kind_, n=n_, steps=steps, payload=rng.choice(FALSY + [TWINS] + BIGINT_RESULTS), text=pick_text(),
                                             exc=rng.choice(R.EXC_KINDS)))
                elif name == "seq:handler-reuse":
                    orders = [["x/bad"] * k + ["x/ok", "ping"] for k in (2, 3, 4)] + [["nope"] * 3 + ["x/ok"], ["x/ok", "x/bad", "x/ok", "x/bad", "x/bad", "x/ok"]]
                    orders += [["initialize", "initialize", "ping"], ["x/ok", "x/bad", "x/ok"], ["x/bad", "x/bad", "ping"],
                              ["ping", "nope", "x/ok", "initialize"], ["initialize", "x/ok", "ping", "x/bad"]]
                    for steps in orders:
                        for session in (False, True):
                            out.append(_case(name, steps=steps, ids=idp, session=session, payload=rng.choice(FALSY + [TWINS]),
                                             text=pick_text(), exc=rng.choice(R.EXC_KINDS), version=rng.choice([J.cps("2025-06-18"), J.cps("1999-01-01"), J.cps("")])))
                else:
                    orders = [["mixed"], ["mixed", "mixed"], ["bad", "bad", "bad", "bad", "ping"], ["bad", "bad"], ["bad", "version:2025-06-18", "bad"], ["version:2025-06-18", "ping", "version:2025-03-26", "bad"],
                              ["ping", "bad", "version:", "bad"]]
                    for steps in orders:
                        out.append(_case(name, steps=steps, ids=idp, text=pick_text(), exc=rng.choice(R.EXC_KINDS),
                                         version=rng.choice([J.cps("2025-03-26"), J.cps("2025-06-18")])))
        elif fam == "dict":
            for i in [None] + ids:
                out.append(_case(name, id=i, version=J.cps("2025-06-18")))
            out.append(_case(name, via="process", version=J.cps("2025-06-18")))
            out.append(_case(name, via="process", version=J.cps("é ")))
        elif fam == "literal":
            keys = D[name][1].keys
            allow_null = "error" in keys
            for i in ([None] if allow_null else []) + ids:
                for t in TEXTS[: (3 if quick else 5)]:
                    for opt in (False, True):
                        out.append(_case(name, id=i, text=t, opt=opt, payload=rng.choice(SPECIAL_PAYLOADS),
                                         code=rng.choice(CODES + NAMED_CODES)))
            for ek in R.EXC_KINDS:
                out.append(_case(name, id=pick_id(), text=pick_text(), exc=ek, payload=SPECIAL_PAYLOADS[1], code=rng.choice(NAMED_CODES)))
        elif fam == "transport":
            kinds = R.CREATED_INNERS + R.DIRECT_INNERS + R.CHANGED_INNERS + (R.STDIO_ONLY_INNERS if "stdio" in name else [])
            for n in ((99, 100, 101) if quick and "stdio" in name else (101,) if quick else (1, 99, 100, 101, 102, 250, 1000)):  # around the 100-slot memory streams
                out.append(_case(name, inner="burst", n=n, method=pick_text(), params=rng.choice([None, TWINS]), id={"i": 0}))
            for n in ((100_000, 300_000) if quick else (100_000, 300_000, 1_000_000, 3_000_000)):  # far above the 64 KiB chunks of pipes and streams
                out.append(_case(name, inner="big-between-small", n=n, method=pick_text(), id=pick_id()))
            big = {"o": [[J.cps("t"), {"s": HOSTILE[-1]}], [J.cps("n"), None]]}  # ~100 kB in one message (64 KiB pipe chunks)
            for inner in ("request", "direct-notification", "dict", "response"):
                out.append(_case(name, inner=inner, id=pick_id(), method=pick_text(), params=big, result=big, code=0, message=HOSTILE[-1], data=big))
            if "stdio" not in name:
                for inner in R.STDIO_ONLY_INNERS:  # not a model and not a dict: nothing may go out
                    out.append(_case(name, inner=inner, id=pick_id(), method=pick_text(), params=TWINS))
            for np_, payload_ in enumerate(NAME_PAYLOADS):
                for inner in ("request", "notification", "response", "error", "dict", "direct-request", "parsed-request", "legacy-request"):
                    for dbg in (True, "named", False):
                        c_ = _case(name, inner=inner, id=pick_id(), method=pick_text(), params=payload_, result=payload_, code=rng.choice(codes),
                                   message=pick_text(), data=payload_, opts=np_ % 3)
                        c_["debug_log"] = dbg
                        c_["debug_fixed"] = True
                        out.append(c_)
            for ki, inner in enumerate(kinds):
                for i in (ids[ki % 2::2] if quick else ids):
                    for p in [None, {"o": []}] + SPECIAL_PAYLOADS[:4]:
                        a = dict(inner=inner, id=i, method=pick_text(), params=p, result=p, code=rng.choice(codes), message=pick_text(), data=p,
                                 opts=rng.choice([0, 0, 1, 2]))
                        out.append(_case(name, **a))
                if "request" in inner or "notification" in inner:
                    for en in ENUM_METHODS[:2]:
                        out.append(_case(name, inner=inner, id=pick_id(), method_enum=en, params=SPECIAL_PAYLOADS[1]))
            for _ in range(40 if quick else 300):
                p = rand_obj(rng)
                out.append(_case(name, inner=rng.choice(kinds), id=pick_id(),
                                 method=pick_text(), params=p, result=p, code=rng.choice(codes), message=pick_text(), data=p))
            # whatever the other emitters produce goes through the real serialiser as well
            routed = [c for c in out if D.get(c["emitter"], ("",))[0] in ("send_message", "helper", "server", "dict", "literal")]
            by_em = {}
            for c in routed:
                by_em.setdefault(c["emitter"], []).append(c)
            for em_name in sorted(by_em):
                cs = by_em[em_name]
                for c in rng.sample(cs, min(len(cs), 2 if quick else 8)):
                    out.append(_case(name, inner={"emitter": c["emitter"], "args": c["args"]}))
    det = {"ctor", "server", "dict", "literal", "convert", "answer"}
    seen_rep = set()
    for i, c in enumerate(out):
        fam_ = D.get(c["emitter"], ("",))[0]
        b = (c["emitter"], branch_of(c))
        if fam_ in det and (i % 9 == 0 or b not in seen_rep):
            c["repeat_mutate"] = 1 + (i % 3 == 0)   # emit, let a consumer edit the emitted payload in place, emit again
            seen_rep.add(b)
        if i % 3 == 1:
            c["history"] = True  # non-default encoder options were used earlier in this process
        if i % 37 == 0:
            c["env"] = {"SKIP_JSONRPC_VALIDATION": "true"}  # the documented switch of the legacy class; emitters must not depend on it
    seen_branch = set()
    for i, c in enumerate(out):
        b = (c["emitter"], branch_of(c))
        if c.get("debug_fixed"):
            seen_branch.add(b)
            continue
        if i % 4 == 0 or b not in seen_branch:
            c["debug_log"] = "named" if i % 8 == 0 else True
        seen_branch.add(b)
    return out


# ---------------------------------------------------------------------------------------------
# reading observations
# ---------------------------------------------------------------------------------------------
def py(t):
    return J.to_py(t)


_canon_cache: dict = {}


def canon(t):
    """canonical text of a transport value; memoised per object for the duration of one case"""
    k = id(t)
    hit = _canon_cache.get(k)
    if hit is not None and hit[0] is t:
        return hit[1]
    r = core.canon(J.unordered(t))
    if isinstance(t, (dict, list)):
        _canon_cache[k] = (t, r)
    return r


def members(wire_t):
    """wire object (transport form) -> {key: transport value}; None when it is not an object"""
    if not (isinstance(wire_t, dict) and "o" in wire_t):
        return None
    return {R.s_(k): v for k, v in wire_t["o"]}


def is_id(t):
    return isinstance(t, dict) and ("i" in t or "s" in t)


def grammar(mem):
    """JSON-RPC 2.0 as the property states it; None = valid"""
    if mem is None:
        return "not-an-object", "the emitted form is not a JSON object"
    v = mem.get("jsonrpc")
    if not (isinstance(v, dict) and v.get("s") == J.cps("2.0")):
        return "version", 'member "jsonrpc" is not the string "2.0"'
    if "method" in mem:
        if not (isinstance(mem["method"], dict) and "s" in mem["method"]):
            return "method-type", "method is not a string"
        if "id" in mem and not is_id(mem["id"]):
            return "request-id", "a message with a method carries an id that is neither a string nor an integer"
        return None
    has_r, has_e = "result" in mem, "error" in mem
    if has_r == has_e:
        return "result-xor-error", "a response does not carry exactly one of result / error"
    if "id" in mem and not (is_id(mem["id"]) or (mem["id"] is None and has_e)):
        return "response-id", "a response carries an id that is neither a string nor an integer"
    if has_e:
        e = members(mem["error"])
        if e is None:
            return "error-object", "error is not an object"
        if not (isinstance(e.get("code"), dict) and "i" in e["code"]):
            return "error-code", "error.code is not an integer"
        if not (isinstance(e.get("message"), dict) and "s" in e["message"]):
            return "error-message", "error.message is not a string"
    return None


def kind_of(idv, method, result, error):
    if method is not None:
        return "request" if idv is not None else "notification"
    if error is not None:
        return "error"
    if result is not None:
        return "response"
    return "other"


def wire_view(mem):
    """the members the property compares, from the wire object: {name: {"v": T} | None}"""
    out = {}
    for k in ("id", "method", "params", "result", "error"):
        v = mem.get(k)
        out[k] = None if v is None else {"v": v}
    return out


def check_emitted(case, e, form):
    """property oracle on one emitted object in one wire form; None | (key, what, expected)"""
    em = case["emitter"]
    if form not in e:
        why = e.get(form + "_exc")
        if why is None:
            return None
        return (f"serialise-raises/{form}", f"{em}: serialising the emitted {e.get('src')} raises {why}", None)
    f = e[form]
    if "unjsonable" in f:
        return (f"not-json/{form}", f"{em}: the emitted object contains a non-JSON value ({f['unjsonable']})", None)
    mem = members(f["wire"])
    g = grammar(mem)
    if g is not None:
        return (f"invalid/{g[0]}", f"{em} emits an invalid JSON-RPC 2.0 object ({form}): {g[1]}", {"valid": True})
    wv = wire_view(mem)
    # the wire form carries what the message object that was constructed holds: id, method, params,
    # result, error are identical (a member that is None on the object is absent from the wire)
    ov = e.get("obj")
    if ov is not None:
        for k in ("id", "method", "params", "result", "error"):
            a, b = ov[k], wv[k]
            if a is not None and "v" not in a:
                continue  # not a JSON value: reported by the serialisation checks
            if (a is None) != (b is None) or (a is not None and canon(a["v"]) != canon(b["v"])):
                return (f"wire-differs-from-message/{k}",
                        f"{em}: the constructed {e.get('src')} holds {k}={a and a['v']} but its wire form ({form}) has {k}={b and b['v']}",
                        {k: a})
    if wv["id"] is None and "method" not in mem:
        return None  # null-id error (batch rejection, transport error for a notification): validity only
    p = f["parse"]
    if "view" not in p:
        return ("parse-raises", f"{em}: parse_message rejects the emitted object ({form}): {p.get('exc')}", {"parse": "ok"})
    pv = p["view"]
    k1 = kind_of(wv["id"], wv["method"], wv["result"], wv["error"])
    k2 = kind_of(pv["id"], pv["method"], pv["result"], pv["error"])
    if k1 != k2:
        return ("kind-changed", f"{em}: emitted a {k1}, parse_message yields a {k2} ({form})", {"kind": k1})
    for k in ("id", "method", "params", "result", "error"):
        a, b = wv[k], pv[k]
        same = (a is None and b is None) or (a is not None and b is not None and "v" in b and canon(a["v"]) == canon(b["v"]))
        if not same:
            key = "id-changed" if k == "id" else f"member-changed/{k}"
            if k == "id" and a is not None and b is not None and "v" in b and "s" in a["v"] and "i" in b["v"]:
                key = "id-changed/digit-string-to-int"
            return (key, f"{em}: {k} is {a and a['v']} on the wire but {b and b.get('v', b)} after parse_message ({form})", {k: a})
    return None


def branch_of(case):
    """which branch of the anchored code a case aims at (shown in the evidence distribution)"""
    a, em = case["args"], case["emitter"]
    bits = []
    if em.startswith("transport:"):
        bits.append(em.split(":")[1].split("-")[0])
        inner = a.get("inner")
        bits.append("routed" if isinstance(inner, dict) else str(inner))
    elif em.startswith("seq:"):
        bits.append(em[4:])
    elif em.startswith("literal:"):
        bits.append(em.split(":")[1].split("/")[-1][:-3])
    else:
        short = em.split(".")[-1]
        if ".method:" in em:
            short = em.split(".method:")[1]
        bits.append(short)
        for k in ("scenario", "of"):
            if a.get(k):
                bits.append(str(a[k]))
        if a.get("exc"):
            bits.append("exc")
        if a.get("cancel") is not None:
            bits.append("cancel-pre" if a["cancel"] == "pre" else f"cancel-{a.get('tie')}")
        if a.get("timeout0"):
            bits.append("timeout0")
        if a.get("progress") or a.get("tok") is not None:
            bits.append("progress")
        if a.get("method_enum"):
            bits.append("enum")
    return ":" + ",".join(bits) if bits else ""


def inner_ctor(inner):
    if inner in ("raw-str", "dump-only", "converted", "wrapped"):
        return "create_request"
    for k, v in (("request", "create_request"), ("notification", "create_notification"), ("response", "create_response"),
                 ("error", "create_error_response"), ("dict", "create_request")):
        if k in inner:
            return v
    raise ValueError(inner)


def method_cps(a):
    if a.get("method_enum"):
        from chuk_mcp.protocol.messages.message_method import MessageMethod
        return J.cps(MessageMethod[a["method_enum"]].value)
    return a["method"]


def strip_token(params_t, caller_t):
    """emitted params with what the API documents as added taken out again: `_meta.progressToken`, and the `_meta` /
    params objects themselves when the caller had none.  Returns (stripped params, token or None)."""
    if not (isinstance(params_t, dict) and "o" in params_t):
        return params_t, None
    caller = members(caller_t) if caller_t is not None else None
    out, tok = [], None
    for k, v in params_t["o"]:
        if R.s_(k) == "_meta" and isinstance(v, dict) and "o" in v:
            rest = []
            for k2, v2 in v["o"]:
                if R.s_(k2) == "progressToken":
                    tok = v2
                else:
                    rest.append([k2, v2])
            if not rest and (caller is None or "_meta" not in caller):
                continue  # `_meta` was created for the token only
            out.append([k, {"o": rest}])
        else:
            out.append([k, v])
    return {"o": out}, tok


def without_stale_token(caller_t):
    """the caller's params without a progress token of their own (the call replaces it)"""
    if caller_t is None:
        return {"o": []}
    return strip_token(caller_t, caller_t)[0]


def without_error_text(w):
    if not (isinstance(w, dict) and "o" in w):
        return w
    out = []
    for k, v in w["o"]:
        if R.s_(k) == "error" and isinstance(v, dict) and "o" in v:
            v = {"o": [[k2, v2] for k2, v2 in v["o"] if R.s_(k2) != "message"]}
        out.append([k, v])
    return {"o": out}


def canon_opt(t):
    return None if t is None else canon(t)


def expected_payload(case):
    """(member, expected transport value | ABSENT) where the emitter's contract fixes the payload position"""
    em, a = case["emitter"], case["args"]
    fam = R.drivers().get(em, (None,))[0]
    short = em.split(".")[-1]
    if fam == "ctor" or fam == "transport":
        inner = a.get("inner")
        if fam == "transport":
            if isinstance(inner, dict) or inner in ("list", "burst", "big-between-small") or inner in R.CHANGED_INNERS:
                return []
            short = inner_ctor(inner)
            if "legacy-response" in inner:
                return [("id", a.get("id"))]
        if short == "create_request" and a.get("tok") is not None and fam == "ctor":
            return [("params+token", a.get("params")), ("id", a.get("id"))]
        if short in ("create_request", "create_notification") and a.get("tok") is None:
            meth = []
            if a.get("method_enum"):
                from chuk_mcp.protocol.messages.message_method import MessageMethod
                meth = [("method", J.S(MessageMethod[a["method_enum"]].value))]
            elif a.get("method") is not None:
                meth = [("method", {"s": a["method"]})]
            return meth + [("params", a.get("params"))] + ([] if short == "create_notification" else [("id", a.get("id"))])
        if short == "create_response":
            r = a.get("result")
            return [("result", {"o": []} if r is None else r), ("id", a.get("id"))]
        if short == "create_error_response":
            return [("id", a.get("id"))]
    if fam == "convert":
        of = a.get("of", "request")
        if of in ("request", "notification"):
            return [("method", {"s": a["method"]}), ("params", a.get("params"))] + ([] if of == "notification" else [("id", a.get("id"))])
        if of == "response":
            r = a.get("result")
            legacy_src = "to_specific_type" in em
            if legacy_src:
                return [("id", a.get("id"))]
            return [("result", {"o": []} if r is None else r), ("id", a.get("id"))]
        return [("id", a.get("id"))]
    if fam == "send_message":
        if a.get("cancel") == "pre":
            return []  # only the cancellation notification is written
        given = a.get("mid_id") if a.get("mid_id") is not None else ({"s": a["mid"]} if a.get("mid") else None)
        truthy = given is not None and (given.get("i", 1) != 0) and (given.get("s", [1]) != [])
        return [("params+token" if a.get("progress") else "params", a.get("params"))] + ([("id", given)] if truthy else [])
    if fam == "helper":
        # the typed helpers hand caller-supplied dicts through: `arguments` (tools/call, prompts/get; an empty one may be
        # left out) and `metadata` (sampling)
        pn = inspect_params(em)
        pl = a.get("payload")
        out = []
        if "arguments" in pn and not a.get("badtype") and isinstance(pl, dict) and pl.get("o"):
            out.append(("params.arguments", pl))
        if "metadata" in pn and pl is not None:
            out.append(("params.metadata", pl))
        if a.get("id") is not None:  # the id / token given is the id / token sent, JSON type included
            if "request_id" in pn:
                out.append(("params.requestId", a["id"]))
            if "progress_token" in pn:
                out.append(("params.progressToken", a["id"]))
        return out
    if fam == "literal" and a.get("id") is not None and getattr(R.drivers()[em][1], "id_direct", False):
        return [("id", a["id"])]
    if fam == "server" and a.get("scenario") in ("custom-result", "reentrant"):
        r = a.get("payload")
        return [("result", {"o": []} if r is None else r), ("id", a.get("id"))]
    if fam == "server":
        return [("id", a.get("id"))]
    return []


class Emitters(Suite):
    name = "emitters"
    backend = "pydantic"
    parallel = True  # runner: impl_batch over forked processes

    def __init__(self):
        self._obs = {}
        self.unknown = []
        self.skipped = {}
        self.mutations = {}

    def _discover(self):
        return R.discover()

    def cases(self, ctx, budget):
        names = self._discover()
        ctx.notes.append(f"{self.name}: {len(names)} emitters discovered by introspection "
                         f"({sum(1 for n in names if n.startswith('literal:'))} dict literals)")
        return gen_cases(ctx, budget, names)

    def run_impl(self, cases):
        return [R.run_case(c) for c in cases]

    def impl_batch(self, cases):
        return self.run_impl(cases)

    # -- model --------------------------------------------------------------------------------
    def model_line(self, case, o=None):
        if o is None:
            return None
        if o.get("unknown"):
            # no model for an emitter the table cannot drive: a (dummy) driver line so that
            # `compare` runs and reports the broken correspondence
            return {"m": "rpc", "op": "parse", "v": None}
        return model_line_for(case, o)

    def model_obs(self, out, case):
        return out

    def compare(self, case, o, m):
        if o.get("unknown"):
            return "unknown emitter: " + o.get("why", "")
        return compare_obs(case, o, m)

    # -- oracle -------------------------------------------------------------------------------
    def oracle(self, case, o):
        _canon_cache.clear()
        if o.get("skipped"):
            self.skipped.setdefault(case["emitter"], o["skipped"])
            return None  # a literal the harness cannot evaluate: a visible note, not a divergence
        if o.get("unknown"):
            return None  # reported through compare (broken correspondence), not a violation by itself
        for e in o["emitted"]:
            for form in ("dump", "json", "dumpjson"):
                r = check_emitted(case, e, form)
                if r is not None:
                    return r
        for e in o["emitted"]:
            rs = e.get("restate") or {}
            for how in ("nested", "model_copy", "setattr"):
                if rs.get(how) is False:
                    return (f"serialiser-stale/{how}", f"{case['emitter']}: after the emitted {e.get('src')} was changed ({how}), model_dump_json still "
                            f"describes an earlier state (model_dump shows the current one)", None)
        ex0 = o.get("extra") or {}
        if ex0.get("unparsable_lines") or (ex0.get("sent") is not None and ex0.get("lines") is not None and case["args"].get("inner") not in ("list",)
                                           and ex0["lines"] != ex0["sent"] and not o.get("raised")):
            return ("stdio-frame-not-one-line", f"{case['emitter']}: {ex0.get('sent')} message(s) written as {ex0.get('lines')} line(s), "
                    f"{ex0.get('unparsable_lines')} of them not JSON on their own", {"lines": ex0.get("sent")})
        if case["emitter"].startswith("transport:") and case["args"].get("inner") in R.CHANGED_INNERS and o["emitted"]:
            mem0 = members(o["emitted"][0]["dump"]["wire"]) or {}
            inner_ = case["args"]["inner"]
            pm = members(mem0.get("params")) or {}
            ok_ = {"changed-after-dump": pm.get("progress") == {"i": 2} and "nested" in pm,
                   "copied-after-dump": isinstance(mem0.get("id"), dict) and R.s_(mem0["id"].get("s", [])).startswith("copy-of-"),
                   "assigned-after-dump": isinstance(mem0.get("method"), dict) and R.s_(mem0["method"].get("s", [])).startswith("changed/")}[inner_]
            if not ok_:
                return ("serialiser-stale/transport", f"{case['emitter']}: a message serialised once, then changed ({inner_}), is written in its earlier state: "
                        f"{o['emitted'][0]['dump']['wire']}", None)
        if o.get("repeated") and o.get("first_wires") is not None:
            last = [e.get("dump", {}).get("wire") for e in o["emitted"]]
            strip = (lambda w: without_error_text(w)) if case["args"].get("exc") else (lambda w: w)  # exception texts may carry object addresses
            if "create_request" in case["emitter"] and case["args"].get("id") is None:
                strip = lambda w: {"o": [[k, v] for k, v in w["o"] if R.s_(k) != "id"]} if isinstance(w, dict) and "o" in w else w  # noqa: E731 (a fresh uuid each time)
            if [canon_opt(strip(x)) for x in last] != [canon_opt(strip(x)) for x in o["first_wires"]]:
                return ("emission-depends-on-history", f"{case['emitter']}: called again with the same arguments after a consumer edited the payload of the "
                        f"earlier emission in place, it emits {last} instead of {o['first_wires']}", {"emitted": o["first_wires"]})
        ex = o.get("extra") or {}
        if ex.get("independent") is False:
            return ("instances-interfere", f"{case['emitter']} ({case['args'].get('kind')}): {ex.get('detail')}", {"independent": True})
        if "caller_after" in ex and canon_opt(ex["caller_after"]) != canon_opt(ex["caller_before"]):
            how = "adds _meta.progressToken only" if canon_opt(strip_token(ex["caller_after"], ex["caller_before"])[0] if ex["caller_after"] else None) == \
                canon_opt(without_stale_token(ex["caller_before"]) if ex["caller_before"] is not None else None) else "changes more than _meta.progressToken"
            key = f"{case['emitter'].split('.')[-1]}: {how}"
            self.mutations[key] = self.mutations.get(key, 0) + 1
        # payload / id fidelity where the emitter's contract fixes the position
        if o["emitted"] and "dump" in o["emitted"][0] and "wire" in o["emitted"][0]["dump"]:
            mem = members(o["emitted"][0]["dump"]["wire"]) or {}
            for k, want in expected_payload(case):
                if k == "id" and want is None:
                    continue
                if k == "params+token":
                    # the caller's params, plus exactly `_meta.progressToken`
                    if "method" not in mem or "id" not in mem:
                        continue  # not the request (e.g. only a cancellation went out)
                    got, tok = strip_token(mem.get("params"), want)
                    if tok is None or not is_id(tok):
                        return ("progress-token-missing", f"{case['emitter']}: the request carries no progress token under params._meta", None)
                    if got is None or canon(got) != canon(without_stale_token(want)):
                        return ("payload-altered/params", f"{case['emitter']}: given params={want}, emitted params={mem.get('params')} "
                                f"(they may differ by _meta.progressToken only)", {"params": want})
                    continue
                if k.startswith("params."):
                    sub = members(mem.get("params")) or {}
                    got = sub.get(k.split(".", 1)[1])
                    if got is None or canon(got) != canon(want):
                        return (f"payload-altered/{k}", f"{case['emitter']}: given {k.split('.')[1]}={want}, emitted {k}={got}", {k: want})
                    continue
                if k == "params" and case["args"].get("cancel") is not None and ("method" not in mem or "id" not in mem):
                    continue
                got = mem.get(k)
                if k == "params" and want is None:
                    ok = got is None
                else:
                    ok = got is not None and want is not None and canon(got) == canon(want)
                if not ok:
                    key = "id-altered" if k == "id" else f"payload-altered/{k}"
                    if k == "id" and want is not None and got is not None and "s" in want and "i" in got:
                        key = "id-altered/digit-string-to-int"
                    return (key, f"{case['emitter']}: given {k}={want}, emitted {k}={got}", {k: want})
        return None

    def kind(self, case, o):
        fam = R.drivers().get(case["emitter"], ("unknown",))[0]
        if o.get("unknown"):
            return "unknown-emitter"
        if o.get("skipped"):
            return "literal/skipped"
        if not o["emitted"]:
            return f"{fam}{branch_of(case)}/nothing-emitted/{'raised' if o.get('raised') else 'silent'}"
        e = o["emitted"][0]
        mem = members(e.get("dump", {}).get("wire")) or {}
        wv = wire_view(mem)
        return f"{fam}{branch_of(case)}/{kind_of(wv['id'], wv['method'], wv['result'], wv['error'])}"

    def nontrivial(self, case, o):
        return bool(o["emitted"])

    def shrink_candidates(self, case):
        a = case["args"]
        for k in ("params", "result", "data", "payload"):
            if a.get(k) is not None:
                yield {"emitter": case["emitter"], "args": {**a, k: None}}
                for v in J.shrink_value(a[k]):
                    if k in ("params",) and not (isinstance(v, dict) and "o" in v):
                        continue
                    if k == "params" and any(R.s_(kk) == "_meta" and not (isinstance(vv, dict) and "o" in vv) for kk, vv in v["o"]):
                        continue  # keep `_meta` an object: anything else is not a params shape the API accepts
                    yield {"emitter": case["emitter"], "args": {**a, k: v}}
        for k in ("method", "message", "text", "mid"):
            if a.get(k):
                yield {"emitter": case["emitter"], "args": {**a, k: [120]}}
        if isinstance(a.get("id"), dict):
            for v in J.shrink_value(a["id"]):
                if v is not None and ("i" in v or "s" in v):
                    yield {"emitter": case["emitter"], "args": {**a, "id": v}}
        if a.get("opt"):
            yield {"emitter": case["emitter"], "args": {**a, "opt": False}}


class EmittersFallback(Emitters):
    """the same cases on the non-Pydantic backend (worker process, MCP_FORCE_FALLBACK=1)"""
    name = "emitters-fallback"
    backend = "fallback"

    parallel = False  # its own pool of worker processes
    block_orjson = False
    n_workers = 6

    def _worker(self):
        return self._pool()[0]

    def _pool(self):
        pool = getattr(self, "_workers", None)
        if not pool or any(w.p.poll() is not None for w in pool):
            pool = self._workers = [J.worker(block_orjson=self.block_orjson, force_fallback=True, module="verifpy.rpc_worker", slot=i)
                                    for i in range(self.n_workers)]
        return pool

    def _discover(self):
        r = self._worker().call({"op": "discover"})
        return r["names"]

    quick_too = True

    def cases(self, ctx, budget):
        if budget == "quick" and not self.quick_too:
            return []
        info = self._worker().call({"op": "info"})
        ctx.notes.append(f"{self.name}: worker backend {info}")
        if info.get("pydantic"):
            ctx.notes.append("emitters-fallback: MCP_FORCE_FALLBACK did not select the fallback backend; suite skipped")
            return []
        cs = super().cases(ctx, budget)
        if budget == "quick":
            # reduced pass: every case whose payload carries a null nested at depth >= 2, every 3rd other case
            cs = [c for i, c in enumerate(cs) if i % 6 == 0 or has_nested_null(c)]
        return cs

    def run_impl(self, cases):
        pool = self._pool() if len(cases) > 50 else self._pool()[:1]
        n = len(pool)
        size = (len(cases) + n - 1) // n if cases else 0
        parts = [cases[i * size:(i + 1) * size] for i in range(n)] if size else []
        for w, part in zip(pool, parts):
            w.send({"op": "run", "cases": part})
        out = []
        for w, part in zip(pool, parts):
            out += w.recv()["out"]
        return out


# ---------------------------------------------------------------------------------------------
# model lines
# ---------------------------------------------------------------------------------------------
def first_members(o):
    if not o["emitted"]:
        return None
    e = o["emitted"][0]
    if "dump" not in e or "wire" not in e["dump"]:
        return None
    return members(e["dump"]["wire"])


def _err_parts(mem):
    e = members(mem.get("error")) or {}
    code = e.get("code", {}).get("i") if isinstance(e.get("code"), dict) else None
    msg = e.get("message", {}).get("s") if isinstance(e.get("message"), dict) else None
    return code, msg, e.get("data")


def _has_compact(x):
    if isinstance(x, dict):
        return "srep" in x or "nest" in x or any(_has_compact(v) for v in x.values())
    if isinstance(x, list):
        return any(_has_compact(v) for v in x)
    return False


def model_line_for(case, o):
    em, a = case["emitter"], case["args"]
    if _has_compact(a):
        return None  # a ~100 kB text: property oracle only
    fam = R.drivers()[em][0]
    short = em.split(".")[-1]
    mem = first_members(o)
    base = {"m": "rpc", "op": "emit"}

    def ctor_line(short, legacy, handler, a):
        if short == "create_request":
            fresh = (mem.get("id") or {}).get("s", []) if mem else []
            if legacy:
                return {**base, "ctor": "legacy_create_request", "method": method_cps(a), "params": a.get("params"), "id": a.get("id"), "fresh": fresh}
            return {**base, "ctor": "create_request", "method": method_cps(a), "params": a.get("params"), "id": a.get("id"), "fresh": fresh, "tok": a.get("tok")}
        if short == "create_notification":
            return {**base, "ctor": "legacy_create_notification" if legacy else "create_notification", "method": method_cps(a), "params": a.get("params")}
        if short == "create_response":
            if legacy:
                return {**base, "ctor": "legacy_create_response", "id": a.get("id"), "result": a.get("result")}
            return {**base, "ctor": "server_response" if handler else "create_response", "id": a.get("id"), "result": a.get("result")}
        if short == "create_error_response":
            if legacy:
                return {**base, "ctor": "legacy_create_error_response", "id": a.get("id"), "code": a["code"], "message": a["message"], "data": a.get("data")}
            if handler:
                return {**base, "ctor": "server_error_response", "id": a.get("id"), "code": a["code"], "message": a["message"]}
            return {**base, "ctor": "create_error_response", "id": a.get("id"), "code": a["code"], "message": a["message"], "data": a.get("data")}
        return None

    if fam == "ctor":
        return ctor_line(short, ".JSONRPCMessage." in em, ".ProtocolHandler." in em, a)
    if fam == "transport":
        inner = a.get("inner")
        if isinstance(inner, dict):
            return model_line_for({"emitter": inner["emitter"], "args": inner.get("args") or {}}, o)
        if inner in ("dict-extra", "list", "burst", "big-between-small") or inner in R.CHANGED_INNERS or (inner in R.STDIO_ONLY_INNERS and "stdio" not in em):
            return None  # extra members / several messages / nothing sent: property oracle only
        sh = inner_ctor(inner)
        if "legacy-response" in inner:  # a dict result, `{}` otherwise
            r = a.get("result")
            return {**base, "ctor": "legacy_create_response", "id": a.get("id"), "result": r if isinstance(r, dict) and "o" in r else None}
        return ctor_line(sh, "legacy" in inner, False, a)
    if fam == "answer" or fam == "seq" or (fam == "send_message" and a.get("cancel") is not None):
        return None  # several messages on shared objects: property oracle only
    if fam == "convert":
        of = a.get("of", "request")
        legacy = "to_specific_type" in em  # built with the legacy class methods first
        return ctor_line({"request": "create_request", "notification": "create_notification", "response": "create_response",
                          "error": "create_error_response"}[of], legacy, False, a)
    if fam == "send_message":
        fresh_id = (mem.get("id") or {}).get("s", []) if mem else []
        tok = []
        if mem and isinstance(mem.get("params"), dict):
            meta = members((members(mem["params"]) or {}).get("_meta")) or {}
            t = meta.get("progressToken")
            tok = t.get("s", []) if isinstance(t, dict) else []
        mid = a.get("mid_id") if a.get("mid_id") is not None else (None if a.get("mid") is None else {"s": a["mid"]})
        return {**base, "ctor": "send_message_request", "method": method_cps(a), "params": a.get("params"), "mid": mid,
                "fresh_id": fresh_id, "fresh_tok": tok, "progress": bool(a.get("progress"))}
    if mem is None:
        return None  # nothing emitted by a helper / scenario: nothing to compare (the oracle has no claim either)
    # envelope-level correspondence: the payload the emitter built is taken from the observation
    if "method" in mem:
        meth = mem["method"].get("s") if isinstance(mem["method"], dict) else None
        if meth is None:
            return None
        if "id" in mem:
            return {**base, "ctor": "legacy_create_request", "method": meth, "params": mem.get("params"), "id": mem.get("id"), "fresh": []}
        return {**base, "ctor": "notification", "method": meth, "params": mem.get("params")}
    if "error" in mem:
        code, msg, data = _err_parts(mem)
        if code is None or msg is None:
            return None
        ctor = "dict_error" if fam in ("dict", "literal") else "create_error_response"
        return {**base, "ctor": ctor, "id": mem.get("id"), "code": code, "message": msg, "data": data}
    if "result" in mem:
        return {**base, "ctor": "server_response" if fam == "server" else "create_response", "id": mem.get("id"), "result": mem.get("result")}
    return None


def compare_obs(case, o, m):
    if "driver_error" in m:
        return "driver error: " + str(m["driver_error"])
    fam = R.drivers()[case["emitter"]][0]
    if not m.get("ok"):
        if o["emitted"]:
            return f"the model's constructor raises ({m.get('err')}) but the implementation emitted a message"
        if not o.get("raised"):
            return f"the model's constructor raises ({m.get('err')}) but the implementation neither raised nor emitted"
        return None
    if not o["emitted"]:
        return f"the model emits a message, the implementation emitted nothing (raised: {o.get('raised')})"
    if fam in ("ctor", "send_message", "transport", "dict", "literal") and len(o["emitted"]) != 1 \
            and not isinstance(case["args"].get("inner"), dict):
        return f"{len(o['emitted'])} objects emitted, the model emits one"
    e = o["emitted"][0]
    if not m.get("valid"):
        return "the model's emitted object is not valid (model bug or emitter outside Built)"
    want_view = m["view"]
    for form in ("dump", "json"):
        if form not in e or "wire" not in e[form]:
            return f"no {form} wire form observed"
        if canon(e[form]["wire"]) != canon(m["emit"]):
            return f"wire object ({form}) differs from the model's emit"
        p = e[form]["parse"]
        mp = m["parse"]
        if "view" not in p:
            if "ok" in mp:
                return f"parse_message rejects the {form} form, parseMsg accepts it"
            continue
        if "ok" not in mp:
            return f"parse_message accepts the {form} form, parseMsg rejects it ({mp.get('err')})"
        pv, mv = p["view"], mp["ok"]
        for k in ("id", "method", "params", "result", "error"):
            a, b = pv[k], mv[k]
            if k == "id":
                b = None if b is None else {"v": b}
            elif k == "method":
                b = None if b is None else {"v": {"s": b}}
            if (a is None) != (b is None) or (a is not None and ("v" not in a or canon(a["v"]) != canon(b["v"]))):
                return f"parse_message and parseMsg disagree on {k} ({form})"
        if core.canon(mv) != core.canon(want_view) and canon_view(mv) != canon_view(want_view):
            return "the model's parseMsg (emit m) differs from view m"
    return None


def canon_view(v):
    return core.canon({k: (J.unordered(x["v"]) if isinstance(x, dict) and "v" in x else x) for k, x in v.items()})


class EmittersFallbackStdlibJson(EmittersFallback):
    """… and with orjson blocked as well (the fallback backend serialises with fast_json)"""
    name = "emitters-fallback-stdlib-json"
    quick_too = False

    block_orjson = True


_suites = [Emitters(), EmittersFallback(), EmittersFallbackStdlibJson()]


def suites():
    from . import c02_ext
    return _suites + c02_ext.suites()


def extra(ctx, tier):
    """make literals the harness could not evaluate visible in the evidence"""
    from . import c02_ext
    c02_ext.extra(ctx, tier)
    for su in _suites:
        for em, why in sorted(su.skipped.items()):
            ctx.notes.append(f"NOTE {su.name}: {em} not exercised: {why}")
        for k, n in sorted(su.mutations.items()):
            ctx.notes.append(f"INFO {su.name}: the caller's params dict is modified in place ({k}) in {n} case(s) - observed, not demanded")
