"""C12 — SSE transport: live-or-raise setup, exactly-once delivery, chunk-independent."""
from __future__ import annotations

import copy
import json
from collections import Counter

from .. import sse_gen as G
from .. import sse_units as U
from .. import sse_h as H
from ..core import canon
from ..runner import Suite

MANIFEST = dict(
    text='Lean 4 theorems on a hand-written model of sse/transport.py, for all traces/chunkings/request lists of any length: '
         'entering yields only at the tick of a non-empty endpoint announcement on a 200 stream before the timeout and never '
         'later than the timeout otherwise raises (c12_live_or_raise, c12_enter_bounded, c12_enter_complete, endpoint URL forms '
         'as a decision table); the pending-future protocol with two racing actors gives exactly one read-stream entry with the '
         'request id for every mode {200 body, unreadable 200, event then 202, 202 then event, 202 and silence, other status, '
         'exception} and both orders with arbitrary unrelated traffic at every control point, also for any list of serial requests; '
         'the incremental event-stream parser is independent of the chunking and hands over exactly one action per rendered endpoint/message event, in order, for every conformant LF/CRLF rendering (c12_stream_delivers_rendered). Resource release is proved only for abstract handles '
         '(partial); the real tasks/streams/clients are checked by the correspondence run. Tied to the code by running the real '
         'sse_client under a virtual-time loop against a scripted httpx.MockTransport.',
    note='Trusted: Lean kernel, correspondence harness, virtual-time loop; httpx (incremental UTF-8 text decoding, MockTransport, '
         'stream close), anyio memory streams and asyncio scheduling are sampled, not proved. JSON decoding / model_validate is a '
         'parameter of the model. Release of real resources is decided by the correspondence run only.',
    technique='Lean 4 proof (case analysis over a two-actor state machine, induction over chunk and request lists) + differential '
              'correspondence run under virtual time with scripted HTTP',
    design='5/C12',
)
GEN = []
SUPP_GEN = ["SseUnits"]
THEOREMS = [
    "c12_endpoint_forms", "c12_data_only_announcement", "c12_live_or_raise", "c12_enter_bounded", "c12_enter_complete",
    "c12_race_exactly_once", "c12_event_first_any_post", "c12_id_reuse_after_answer", "c12_instances_independent", "c12_options_irrelevant", "c12_race_count", "c12_request_leaves_idle", "c12_serial_requests",
    "c12_stream_chunk_independent", "c12_delivery_chunk_independent", "c12_stream_delivers_rendered",
    "c12_stream_delivers_conformant", "c12_server_messages_once_in_order", "c12_cleanup_closes_all",
    "c12_stream_end_after_announcement", "c12_stream_end_requests", "c12_post_target_function", "c12_absolute_endpoint_verbatim", "c12_endpoint_same_origin",
]
# not stated by the property text: Props/C12Supp.lean (INFO only, never a verdict)
SUPP_THEOREMS = [
    "c12_endpoint_translated_agrees", "c12_session_id_none_iff", "c12_bearer_value", "c12_headers",
    "c12_headers_transport_adds_nothing", "c12_header_literals_agree", "c12_params_accept_iff", "c12_params_normalised",
    "c12_param_rules_agree", "c12_is_sse_url_spec", "c12_sse_endpoint_is_sse_url", "c12_not_started",
]
RULE = (
    "establishment {endpoint announced in 7 accepted forms x LF/CRLF x padding x announce tick (early, mid, timeout-1), 4xx/5xx/3xx/204, "
    "connect error, hang, 200 with empty / never-announcing / cut-off stream, announcement or connection around the timeout and the "
    "15 s connection cap} x tie order, each followed by a probe request; requests {200 body, event then 202, 202 then event, 202 and "
    "silence, other status with text/empty/JSON/JSON-RPC body, exception} x every relative placement of POST completion and event "
    "arrival on a tick grid (including the same tick in both script orders) x event bytes cut in 0-2 places x typed/data-only event, "
    "all ordered pairs of modes as serial requests, seeded sequences of 1-4 requests with background server traffic; chunkings: every "
    "1-cut and every (quick: every second) 2-cut of two short streams, every 1-cut and seeded 2-4-cuts of a longer stream with "
    "multi-byte characters, CRLF, comments, keepalives and junk; exit paths {normal, exception in body, asyncio cancellation, anyio "
    "cancel scope} x 13-17 points of a request's life x 6 modes; back-pressure: the consumer pauses while bursts of 0/1/99/100/101/150/400 "
    "server messages (one chunk, one chunk per event, arbitrary cuts) queue up, with a request whose answer travels behind the burst; "
    "race matrix: every way a POST can complete {200 + answer, 200 unreadable / empty, 202, non-2xx with text / empty / JSON / JSON-RPC body, "
    "exception} x {no answer on the event stream, the answer before / at the same instant as / after the POST completion, whole or cut} x "
    "three tie orders, each followed by two more requests on the same session (a stalled reader or sender shows there; the exit is late "
    "enough for every synthesised timeout, so a hang is a missing terminal, not a machinery timeout); "
    "round 8: a request acknowledged with 202 and never answered while the event stream carries traffic DURING the wait (progress for the request's "
    "token / a foreign / an integer / no token, other notifications, server requests, responses to other ids, keep-alive comments and events) at "
    "periods T/4, T-1, T+1, 2T for 3T and 10T; oracle: the synthesised timeout arrives within the configured timeout after the 202 (delivery ticks "
    "are recorded), and the two requests queued behind it are served; "
    "round 7: the event stream silent for 2x / 3x+1 / 10x every interval-like number of SSEParameters (timeout, keep_alive_interval, reconnect_delay) "
    "and the connection cap, under default, small, zero and very large values of those parameters (every field of SSEParameters set at least once), "
    "after nothing / a comment line / `event: keepalive` / `event: ping`; then server messages arrive and requests are answered on the stream; "
    "round 6: the scripted HTTP transport enforces the client's read timeout like a real one (a POST the server accepts and never answers, mode "
    "posthang, in every mode list); absolute announcements on another host / port / scheme / host spelling (localhost vs 127.0.0.1) with the oracle "
    "that every POST goes to the announced absolute URL; ids keyed by value AND JSON type, a message bearing the twin id (7 vs \"7\") arriving while "
    "the request is pending; "
    "hardening sweep 3 (suite sizes-collisions-environment): one event of 70 KB / 300 KB (thorough: 1 MB) in chunks of <= 16 KiB and <= 64 KiB as a server "
    "message and as the answer of a request (stream before / after the 202, POST reply), small messages around it, the 1100th message of a session; "
    "server REQUESTS numbered like earlier, already answered client requests (same and twin JSON type) after every answer mode; broken / ASCII-only "
    "stderr around swallowed failures, three hours of virtual idle time between operations, dict / str subclasses and NFC/NFD / BOM / case twins as "
    "messages and ids, `error: null` next to a result and `result: null` next to an error, a BOM before the stream; exits with the application "
    "closing its own end of the write / read stream while a request is pending; the DEBUG share now uses a handler that formats every record; "
    "oracle: in the pure modes the terminal must BE the server's answer, not a synthesised error; "
    "hardening sweep 2, applied to EVERY suite's cases: a quarter run under a host-configured DEBUG logger (NullHandler); the SSEParameters "
    "options {session_id, bearer_token, headers, auto_reconnect, reconnect numbers, endpoint names, keep-alive, an unknown option} cycle over "
    "all establishment outcomes / request modes / exits; every 7th case runs as 2-3 CONCURRENT sessions in one process (own server, same script, "
    "same request ids; oracle: each sees what one alone sees); suite repeats: the same failure 2-4 times then success, failure between "
    "successes, failing notification POSTs in a row, 1-4 failing sessions in a row on one parameters object then a good one, 12 exception "
    "classes for the POST / the connection attempt / the event stream itself, 200 and non-2xx bodies of every JSON type, ids of the JSON "
    "types JSON-RPC does not allow (caller- and peer-supplied), text that looks like event-stream / JSON syntax in ids, keys, values and raw lines; "
    "three tie orders (events/timers/io); hardening sweep (suite variants): request ids {7, \"7\", 0, \"0\", \"\", -1, 2^53+1, format-hostile, 5000 chars, "
    "strings the transport looks for} x every mode incl. unreadable 200 bodies x written as dict / JSONRPCMessage, id twins and one id used "
    "again in serial requests, answers with empty/falsy members, error answers with falsy members or the transport's own codes, extra members, "
    "notifications / non-messages / failing notification POSTs around requests, 21 other status codes x 4 body kinds, hostile texts in bodies and "
    "exception texts, events that carry nothing and duplicated / magic-substring / oddly ordered messages around requests, server half-close, "
    "header / bearer variants, a second session on the same parameters object, try_sse_with_fallback, producer back-pressure (client awaits "
    "99..150 sends while the sender is blocked), a 20 kB (thorough: 100 kB) message; arrivals exactly on the enter timeout / connection cap / "
    "202-wait expiry and refused URLs with the oracle only (suite boundaries). Real sse_client under the virtual-time loop vs SseReq.session; "
    "non-trivial = distinct case whose stream or request list is non-empty"
)
TRUSTED = [
    "httpx: MockTransport request flow, Response.aiter_text incremental UTF-8 decoding, stream context close (sampled)",
    "anyio memory streams and asyncio scheduling / wait_for / task cancellation (sampled under the virtual-time loop)",
    "JSON decoding and JSONRPCMessage.model_validate are a parameter of the model (instantiated per case by the generator's labels)",
]
ASSUMPTIONS = [
    "scripted instants never coincide with the timeout / connection-cap instants in the correspondence run (either outcome satisfies the property there)",
    "server messages on the event stream carry ids whose str() differs from str(id) of the client's requests in flight (the pending table is keyed by str(id))",
    "ids are compared with their JSON type (7 is not \"7\"), also for the messages the transport synthesises",
    "a second answer of the server AFTER the request has ended with its POST (200 + answer / non-2xx / exception, then an event) may or may not be delivered (1 or 2 entries accepted); an answer on the stream BEFORE any POST completion must give exactly one",
    "a 200 whose body is not the answer (acknowledgement document, foreign response) acknowledges the request like a 202 (finding findings/C12-200-with-non-answer-body.json, repaired by 03a72e1)",
    "a second endpoint announcement and an answer after the synthesised timeout are outside the quantifier and not generated; line ends are LF or CRLF (a lone CR is not treated as a line end, as in the Streamable-HTTP transport)",
    "no theorem depends on the connection cap or on the codes of the synthesised errors; the generator re-reads them from the source on every run (through constants and builder functions) and otherwise measures the cap on the running code and compares synthesised errors without their codes (see notes)",
    "release of real tasks/streams/clients is observed only through the mock transport (no real sockets in the quick tier)",
]


def _norm_url(u):
    import httpx
    try:
        return str(httpx.URL(u))
    except Exception:
        return u


def same_id(a, b):
    """JSON-RPC ids are equal only with their JSON type (7 is not "7")"""
    return not isinstance(a, bool) and not isinstance(b, bool) and type(a) is type(b) and a == b


def is_response(m):
    return isinstance(m, dict) and m.get("id") is not None and "method" not in m


def term_kind(m, group):
    """where a delivered response comes from: the scripted answer of one of the requests `group`
    (in the POST reply / on the event stream / in the body of another status) or synthesised"""
    for r in group:
        hits = [w for w in ("body", "ev", "post")
                if canon({k: v for k, v in H.answer_msg(r, w).items() if v is not None}) == canon(m)]
        if hits:
            want = "body" if r["mode"] == "200" else "post" if r["mode"] == "status" else "ev"
            return "routed:" + (want if want in hits else hits[0])
    err = m.get("error") if isinstance(m, dict) else None
    if isinstance(err, dict):
        L = G.lits()
        if not L["codes_known"]:
            return "synth"  # some synthesised error: the property does not name its code
        if err.get("code") == L["timeout_code"]:
            return "timeout"
        if err.get("code") in L["fail_codes"]:
            return "fail"
    return "other"


def split_delivered(case, o):
    """-> ({str(id): [responses whose str(id) is that of a request]}, [everything else])
    (grouped the way the transport's pending table is keyed; the JSON type of the id is the
    oracle's business)"""
    terms = {G.py_key(r["id"]): [] for r in G.real_reqs(case)}
    srv = []
    for m in o.get("delivered", []):
        if is_response(m) and not isinstance(m["id"], bool) and G.py_key(m["id"]) in terms:
            terms[G.py_key(m["id"])].append(m)
        else:
            srv.append(m)
    return terms, srv


def reader_done(case):
    """how the application's reader may have ended: end of stream, or - when the application closed
    its end itself - with its own ClosedResourceError"""
    return ("end", "closed") if case.get("close_read_at") is not None else ("end",)


def impl_shape(case, o, what):
    e = o.get("enter") or {"k": "none"}
    out = {"enter": {"k": e["k"], "t": e.get("t")}}
    if e["k"] != "yielded":
        return out
    if o.get("deadlock") is not None:
        out["deadlock"] = o["deadlock"]
    if what == "release":
        a = o.get("after") or {}
        out["released"] = bool(a) and not a.get("tasks") and not a.get("clients_open") and not a.get("sse_stream_open") \
            and a.get("reader") in reader_done(case) and not a.get("write_open")
        return out
    terms, srv = split_delivered(case, o)
    out["url"] = o["posts"][0][1] if o.get("posts") else None
    out["srv"] = srv
    reqs = G.real_reqs(case)
    out["terms"] = [[term_kind(m, [x for x in reqs if G.py_key(x["id"]) == G.py_key(r["id"])]) for m in terms[G.py_key(r["id"])]]
                    for r in reqs]
    return out


def model_shape(case, out, what):
    e = out["enter"]
    m = {"enter": {"k": e["k"], "t": e["t"]}}
    if e["k"] != "yielded":
        return m
    if what == "release":
        m["released"] = out["released"]
        return m
    url = "".join(chr(c) for c in e["url"])
    m["url"] = _norm_url(url) if any(r["mode"] != "garbage" for r in case.get("reqs", [])) else None
    m["srv"] = [json.loads("".join(chr(c) for c in d)) for d in out["srv"]]
    m["terms"] = out["terms"]
    if not G.lits()["codes_known"]:
        m["terms"] = [["synth" if k in ("timeout", "fail") else k for k in ks] for ks in m["terms"]]
    return m


def dead_cause(case):
    conn = case.get("conn", {"k": "ok", "at": 0})
    if conn["k"] == "status":
        return "status"
    if conn["k"] == "error":
        return "connect-error"
    if conn["k"] == "hang":
        return "connect-timeout"
    if conn.get("at", 0) >= min(case.get("T", G.T_DEFAULT), G.cap()):
        return "connect-timeout"
    if case.get("close") is not None:
        return "stream-ended"
    return "no-announcement"


def oracle_enter(case, o):
    """live-or-raise, on the implementation's observation and the script alone"""
    e = o.get("enter")
    T = case.get("T", G.T_DEFAULT)
    if e is None:
        return ("no-enter-outcome", "sse_client neither yielded nor raised within the run", None)
    if e["k"] == "raised":
        if e["t"] > T:
            return ("enter-late", f"entering raised at tick {e['t']} > timeout {T}", {"t<=": T})
        return None
    a = G.announce_tick(case)
    if a is None or a > e["t"]:
        cause = dead_cause(case)
        return ("dead-connection/" + cause,
                f"sse_client yielded at tick {e['t']} although no endpoint had been announced ({cause}); "
                f"requests on it: posts={len(o.get('posts', []))}",
                {"enter": "raised", "t<=": T})
    return None


def oracle_requests(case, o, upto=None):
    """exactly one terminal message per request; server messages once, in order"""
    v = _oracle_requests(case, o)
    if v is not None and (v[0] == "server-messages/lost" or v[0].startswith("terminal/not-the-answer")) and G.silent_longer_than_timeout(case):
        # what is lost comes after the event stream was silent for longer than the request timeout:
        # the class of defect recorded as `event-stream-read-timeout`
        return ("event-stream-read-timeout", "after a silence longer than the timeout on the event stream: " + v[1], v[2])
    return v


def _oracle_requests(case, o):
    if o.get("deadlock") is not None:
        return oracle_release(case, o)
    # the connection that was yielded is one on which requests reach the ANNOUNCED endpoint
    want_url = G.announced_url(case)
    if want_url is not None and (case.get("conn") or {"k": "ok"})["k"] == "ok":
        for p in o.get("posts", []):
            if _norm_url(p[1]) != _norm_url(want_url):
                return ("endpoint/posts-elsewhere", f"the server announced {want_url!r} but a request was POSTed to {p[1]!r}", {"post_url": want_url})
    terms, srv = split_delivered(case, o)
    reqs = G.real_reqs(case)
    for r in reqs:
        group = terms[G.py_key(r["id"])]
        mine = [m for m in group if same_id(m["id"], r["id"])]
        expect = sum(1 for x in reqs if same_id(x["id"], r["id"]))
        # a second answer the server sends after the request has ended may or may not be delivered
        slack = sum(1 for x in reqs if same_id(x["id"], r["id"]) and G.late_duplicate(x))
        tag = r["mode"] + ("/" + r.get("body", "text") if r["mode"] == "status" else "")
        idk = "int" if isinstance(r["id"], int) else "str"
        if len(mine) < expect:
            twins = [m for m in group if not same_id(m["id"], r["id"])]
            if twins and len(mine) + len(twins) >= expect and not any(same_id(x["id"], twins[0]["id"]) for x in reqs):
                return (f"terminal/id-type/{tag}/{idk}-id", f"request {r['id']!r} ({tag}) was answered by a message whose id has another JSON type: "
                        f"{twins[0]}", {"id": r["id"]})
            return (f"terminal/none/{tag}", f"request {r['id']!r} ({tag}) got {len(mine)} of {expect} messages with its id on the read stream; "
                    f"delivered={o.get('delivered')[:12]}", {"terminals": expect})
        if len(mine) > expect + slack:
            return (f"terminal/many/{tag}", f"request {r['id']!r} ({tag}) got {len(mine)} messages with its id, expected {expect}", {"terminals": expect})
        for m in mine:
            if "result" not in m and "error" not in m:
                return ("terminal/not-a-response/" + tag, f"request {r['id']!r}: {m}", None)
        # "never (synthesised timeout error)": the first request of a session, acknowledged with 202 and
        # never answered, ends WITHIN the configured timeout after the acknowledgement - whatever
        # else the event stream carries meanwhile (the sender was free, the consumer was reading)
        if r is reqs[0] and r["mode"] == "silence" and "ed" not in r and expect == 1 and len(mine) == 1 and not case.get("pause") \
                and o.get("enter_abs") is not None and len(o.get("delivered_t", [])) == len(o.get("delivered", [])):
            t_del = o["delivered_t"][[i for i, m in enumerate(o["delivered"]) if m is mine[0]][0]]
            deadline = o["enter_abs"] + r["at"] + r.get("d", 4) + case.get("T", G.T_DEFAULT)
            if t_del > deadline + 2:
                return (f"terminal/late/{tag}", f"request {r['id']!r} (202, never answered) got its terminal message at tick {t_del}, "
                        f"{t_del - deadline} ticks after the configured timeout expired", {"t<=": deadline})
        # when the server gave its answer in one of the ways the property names (in the POST reply,
        # on the event stream before or after the 202) and in time, that answer IS the terminal
        # message - a synthesised error stands for "never" and for a failed POST only
        which = G.answered_by(r, case.get("T", G.T_DEFAULT))
        if which is not None and expect == 1 and len(mine) == 1:
            want = {k: v for k, v in H.answer_msg(r, which).items() if v is not None}
            if canon(mine[0]) != canon(want):
                return (f"terminal/not-the-answer/{tag}", f"request {r['id']!r} ({tag}) was answered by the server ({which}) but the read stream got "
                        f"{str(mine[0])[:300]}", {"terminal": "the server's answer"})
    want = G.expected_srv(case)
    cs, cw = [canon(x) for x in srv], [canon(x) for x in want]
    if cs != cw:
        if sorted(cs) == sorted(cw):
            k = "order"
        elif any(cs.count(x) > cw.count(x) for x in cs):
            k = "extra"
        else:
            k = "lost"
        return ("server-messages/" + k, f"server messages delivered {str(srv)[:600]} != sent {str(want)[:600]}", {"srv": want[:50]})
    return oracle_twins(case, o)


def oracle_warm(case, o):
    """earlier sessions on the same parameters object: one with the same server script behaves like
    the observed one; one whose GET is refused / fails must raise (live-or-raise holds for it too)"""
    w = case.get("warm")
    if not w:
        return None
    specs = [None] if w is True else list(w)
    got = o.get("warm") or []
    if len(got) != len(specs):
        return ("reuse/earlier-session-missing", f"{len(got)} of {len(specs)} earlier sessions completed: {got}", None)
    for i, (spec, g) in enumerate(zip(specs, got)):
        if spec is None:
            if g.get("k") != (o.get("enter") or {}).get("k"):
                return ("reuse/second-session-differs", f"earlier session {g}, observed session {o.get('enter')} (same server script)", None)
        elif spec.get("k") in ("status", "error", "hang") and g.get("k") != "raised":
            return (f"dead-connection/{spec['k']}/earlier-session", f"earlier session #{i + 1} with GET {spec} did not raise: {g}", {"enter": "raised"})
        elif g.get("k") == "raised" and g.get("t", 0) > case.get("T", G.T_DEFAULT):
            return ("enter-late", f"earlier session #{i + 1} raised at {g.get('t')} > timeout", None)
    return None


def oracle_twins(case, o):
    """instances are independent: every concurrent twin (own server, same script, same ids) shows
    what a session alone shows"""
    tw = o.get("twins")
    if not tw:
        return None
    mine = {"enter": (o.get("enter") or {}).get("k"), "delivered": sorted(canon(m) for m in o.get("delivered", []))}
    for i, t in enumerate(tw):
        theirs = {"enter": (t.get("enter") or {}).get("k"), "delivered": sorted(canon(m) for m in t.get("delivered") or [])}
        if theirs != mine:
            return ("instances/cross-talk", f"concurrent session #{i + 2} saw {str(theirs)[:300]}, session #1 saw {str(mine)[:300]} (same script, own server)",
                    {"twin": mine})
        a = t.get("after") or {}
        if (t.get("enter") or {}).get("k") == "yielded" and (a.get("clients_open") or a.get("sse_stream_open") or a.get("reader") != "end" or a.get("write_open")):
            return ("leak/twin", f"concurrent session #{i + 2} not released: {a}", None)
    return None


def oracle_release(case, o):
    if (o.get("enter") or {}).get("k") != "yielded":
        return None  # the property speaks of leaving a context that was entered
    if o.get("deadlock") is not None:
        ek = case.get("exit", {}).get("k", "normal")
        return (f"exit-hangs/{ek}", f"leaving the context never completes; tasks waiting for ever: {o['deadlock']}", {"deadlock": None})
    a = o.get("after")
    if not a:
        return ("no-after-observation", "harness did not reach the post-exit observation", None)
    ek = case.get("exit", {}).get("k", "normal")
    if a.get("tasks"):
        return (f"leak/tasks/{ek}", f"tasks still running after exit: {a['tasks']}", {"tasks": []})
    if a.get("clients_open"):
        return (f"leak/http-client/{ek}", f"{a['clients_open']} of {a['clients']} httpx clients not closed after exit", {"clients_open": 0})
    if a.get("sse_stream_open"):
        return (f"leak/sse-stream/{ek}", "the GET response stream was not closed after exit", {"sse_stream_open": False})
    if a.get("reader") not in reader_done(case):
        return (f"leak/read-stream/{ek}", f"a reader of the read stream is not released after exit: {a.get('reader')}", {"reader": "end"})
    if a.get("write_open"):
        return (f"leak/write-stream/{ek}", "the write stream still accepts messages after exit", {"write_open": False})
    return None


FEATURES = Counter()
OUTCOMES = Counter()


class Base(Suite):
    what = "transcript"

    def nontrivial(self, case, o):
        # called once per case by the runner: also the place where coverage is tallied
        for f in G.features(case):
            FEATURES[f] += 1
        e = (o.get("enter") or {}).get("k", "none")
        OUTCOMES["enter:" + e + (":" + (o.get("enter") or {}).get("exc", "") if e == "raised" else "")] += 1
        for m in o.get("delivered", []):
            if isinstance(m, dict) and isinstance(m.get("error"), dict):
                OUTCOMES["delivered-error-code:" + str(m["error"].get("code"))] += 1
        if o.get("write_errors"):
            OUTCOMES["write-errors"] += 1
        return bool(case.get("items") or case.get("reqs"))

    def impl_batch(self, cases):
        return [H.run_case(G.harness_case(c)) for c in cases]

    def model_line(self, case):
        if case.get("boundary"):
            return None  # a tie with a timer of the code: either outcome is fine, oracle only
        return G.model_line(case)

    def model_obs(self, out, case):
        if "driver_error" in out:
            return out
        return model_shape(case, out, self.what)

    def compare(self, case, o, m):
        if o.get("harness_errors"):
            return "harness error: %s" % o["harness_errors"]
        return None if canon(impl_shape(case, o, self.what)) == canon(m) else "differs"

    def shrink_candidates(self, case):
        def norm(c):
            c = copy.deepcopy(c)
            if c.get("exit", {}).get("k", "normal") == "normal":
                c.pop("exit", None)
                G.finish(c)
            return c
        for i, it in enumerate(case.get("items", [])):
            if it["k"] == "burst" and it["n"] > 0:
                for n2 in sorted({0, 101, it["n"] // 2, it["n"] - 1}):
                    if n2 < it["n"]:
                        c = copy.deepcopy(case)
                        c["items"][i]["n"] = n2
                        yield norm(c)
        if isinstance(case.get("cuts"), str):
            yield norm(dict(copy.deepcopy(case), cuts=[]))
        if case.get("pause"):
            yield norm(dict(copy.deepcopy(case), pause=0))
        for key in ("reqs", "items", "cuts"):
            if isinstance(case.get(key), str):
                continue
            for i in range(len(case.get(key, []))):
                c = copy.deepcopy(case)
                del c[key][i]
                if key == "items":
                    c["cuts"] = []
                yield norm(c)
        for key, val in (("tie", "events"), ("gap", 0), ("t0", 1), ("close", None), ("base", "http://h.test"), ("T", 256)):
            if key in case and case[key] != val:
                if key == "base" and any(it.get("form", "").startswith("query") for it in case.get("items", [])):
                    continue
                yield norm(dict(copy.deepcopy(case), **{key: val}))
        conn = case.get("conn")
        if conn and conn.get("at", 0) != 0 and conn["k"] != "hang":
            yield norm(dict(copy.deepcopy(case), conn=dict(conn, at=0)))
        for i, it in enumerate(case.get("items", [])):
            for f in ("pad", "crlf"):
                if it.get(f):
                    c = copy.deepcopy(case)
                    c["items"][i][f] = False
                    c["cuts"] = []
                    yield norm(c)
        for i, r in enumerate(case.get("reqs", [])):
            if r.get("cuts"):
                c = copy.deepcopy(case)
                c["reqs"][i]["cuts"] = []
                yield norm(c)


class Establish(Base):
    name = "establish"

    def cases(self, ctx, budget):
        ctx.exhaustive_parts.append("establish: full grid of establishment outcomes x endpoint forms x tie order")
        return G.decorate(G.establish_cases(budget, ctx.sub_rng("c12-establish", budget)), self.name)

    def oracle(self, case, o):
        if o.get("harness_errors"):
            return None
        v = oracle_enter(case, o)
        if v is None and (o.get("enter") or {}).get("k") == "yielded":
            v = oracle_requests(case, o)
        return v

    def kind(self, case, o):
        e = (o.get("enter") or {}).get("k", "none")
        conn = case.get("conn", {"k": "ok"})["k"]
        forms = [it["form"] for it in case.get("items", []) if it["k"] == "endpoint"]
        return f"establish/{conn}/{forms[0] if forms else 'no-announcement'}/{'closed' if case.get('close') is not None else 'open'}/{e}"


class Requests(Base):
    name = "requests"

    def cases(self, ctx, budget):
        ctx.exhaustive_parts.append("requests: every mode x POST/event placement grid x cuts x tie; all ordered pairs of modes")
        return G.decorate(G.request_cases(budget, ctx.sub_rng("c12-requests", budget)), self.name)

    def oracle(self, case, o):
        if o.get("harness_errors"):
            return None
        v = oracle_enter(case, o)
        if v is None and (o.get("enter") or {}).get("k") == "yielded":
            v = oracle_requests(case, o)
        return v

    def kind(self, case, o):
        modes = [r["mode"] + ("-" + r.get("body", "text") if r["mode"] == "status" else "") for r in case.get("reqs", [])]
        return "requests/" + "+".join(modes[:2]) + ("+.." if len(modes) > 2 else "")


class Chunking(Base):
    name = "chunking"

    def cases(self, ctx, budget):
        ctx.exhaustive_parts.append("chunking: every 1-cut of three streams; every (quick: every second) 2-cut of the two short ones")
        return G.chunk_cases(budget, ctx.sub_rng("c12-chunks", budget))

    def impl_batch(self, cases):
        """every case also carries the entry outcome of its un-cut twin (same stream in one chunk)"""
        twins = {}
        out = []
        for c in cases:
            o = H.run_case(G.harness_case(c))
            tw = dict(copy.deepcopy(c), cuts=[], gap=0)
            key = canon(tw)
            if key not in twins:
                twins[key] = (H.run_case(G.harness_case(tw)).get("enter") or {}).get("k")
            o["uncut_enter"] = twins[key]
            out.append(o)
        return out

    def oracle(self, case, o):
        if o.get("harness_errors"):
            return None
        v = oracle_enter(case, o)
        if v is None and (o.get("enter") or {}).get("k") == "yielded":
            v = oracle_requests(case, o)
        if v is None and (o.get("enter") or {}).get("k") != o.get("uncut_enter"):
            return ("chunking/enter", f"entering {(o.get('enter') or {}).get('k')} with cuts {case.get('cuts')} but {o.get('uncut_enter')} "
                    "when the same bytes arrive in one chunk", {"enter": o.get("uncut_enter")})
        return v

    def kind(self, case, o):
        return f"chunking/{len(case.get('cuts', []))}-cuts/gap{case.get('gap', 1)}"


class Backpressure(Base):
    name = "backpressure"

    def cases(self, ctx, budget):
        ctx.exhaustive_parts.append("backpressure: burst sizes {0,1,99,100,101,150,400} x one chunk / one chunk per event / arbitrary cuts x request behind the burst")
        return G.decorate(G.backpressure_cases(budget, ctx.sub_rng("c12-backpressure", budget)), self.name)

    def oracle(self, case, o):
        if o.get("harness_errors"):
            return None
        v = oracle_enter(case, o)
        if v is None and (o.get("enter") or {}).get("k") == "yielded":
            v = oracle_requests(case, o)
        return v

    def kind(self, case, o):
        n = sum(it.get("n", 0) for it in case.get("items", []) if it["k"] == "burst")
        modes = [r["mode"] for r in case.get("reqs", [])]
        return f"backpressure/burst-{n}/{modes[0] if modes else 'no-request'}"


class Variants(Base):
    """the hardening sweep: falsy / twin / hostile ids, answers, texts; message forms; other
    statuses; empty events; half-closed stream; header variants; reuse; producer back-pressure"""
    name = "variants"

    def cases(self, ctx, budget):
        return G.decorate(G.hardening_cases(budget, ctx.sub_rng("c12-variants", budget)), self.name)

    def oracle(self, case, o):
        if o.get("harness_errors"):
            return None
        v = oracle_enter(case, o)
        if v is None:
            v = oracle_warm(case, o)
        if v is None and (o.get("enter") or {}).get("k") == "yielded":
            v = oracle_requests(case, o)
        if v is None and (o.get("enter") or {}).get("k") == "yielded":
            v = oracle_release(case, o)
        return v

    def kind(self, case, o):
        modes = [r["mode"] for r in case.get("reqs", [])][:3]
        tags = [x for x in ("warm", "api", "write_mode", "params", "close", "notif_post") if case.get(x) is not None]
        return "variants/" + "+".join(modes) + ("/" + ",".join(tags) if tags else "")


class Grammar(Base):
    name = "grammar"

    def cases(self, ctx, budget):
        ctx.exhaustive_parts.append("grammar: announcement forms x LF/CRLF x padding without the optional space; answer styles x modes x id types")
        return G.decorate(G.grammar_cases(budget, ctx.sub_rng("c12-grammar", budget)), self.name)

    def oracle(self, case, o):
        if o.get("harness_errors"):
            return None
        v = oracle_enter(case, o)
        if v is None and (o.get("enter") or {}).get("k") == "yielded":
            v = oracle_requests(case, o)
        return v

    def kind(self, case, o):
        st = sorted({x for it in case.get("items", []) for x in ("nospace", "multiline", "inner", "event_last", "crlf") if it.get(x)}
                    | {x for r in case.get("reqs", []) for x in ("nospace", "multiline") if r.get(x)})
        return "grammar/" + ("+".join(st) or "plain")


class RaceMatrix(Base):
    name = "race-matrix"

    def cases(self, ctx, budget):
        ctx.exhaustive_parts.append("race-matrix: POST completion kinds x {no event, event before / at / after the POST completion} x tie order")
        return G.decorate(G.race_matrix_cases(budget, ctx.sub_rng("c12-race", budget)), self.name)

    def oracle(self, case, o):
        if o.get("harness_errors"):
            return None
        v = oracle_enter(case, o)
        if v is None and (o.get("enter") or {}).get("k") == "yielded":
            v = oracle_requests(case, o)
        if v is None and (o.get("enter") or {}).get("k") == "yielded":
            v = oracle_release(case, o)
        return v

    def kind(self, case, o):
        r = case["reqs"][0]
        k = r["mode"] + ("-" + r.get("body", "") if r["mode"] == "status" else "") + ("-" + r["body200"] if r.get("body200") else "")
        return f"race/{k}/event-{G.event_order(r) or 'none'}"


class Repeats(Base):
    """HARDEN2 D-G: repeated failures then success, failing sessions in a row on one parameters
    object, every exception class, every JSON type in id / body positions, syntax-looking text"""
    name = "repeats"

    def cases(self, ctx, budget):
        return G.decorate(G.repeat_cases(budget, ctx.sub_rng("c12-repeats", budget)), self.name)

    def oracle(self, case, o):
        if o.get("harness_errors"):
            return None
        v = oracle_enter(case, o)
        if v is None:
            v = oracle_warm(case, o)
        if v is None and (o.get("enter") or {}).get("k") == "yielded":
            v = oracle_requests(case, o)
        if v is None and (o.get("enter") or {}).get("k") == "yielded":
            v = oracle_release(case, o)
        return v

    def kind(self, case, o):
        modes = [r["mode"] for r in case.get("reqs", [])]
        tags = [x for x in ("warm", "close_exc", "notif_post") if case.get(x) is not None]
        return f"repeats/{modes[0] if modes else 'idle'}x{len(modes)}" + ("/" + ",".join(tags) if tags else "")


class Sizes(Base):
    """HARDEN3 I / M / K / H / N: events far above every buffer, ids reused by the other peer,
    the process environment, subclasses and Unicode twins, reply metadata"""
    name = "sizes-collisions-environment"

    def cases(self, ctx, budget):
        rng = ctx.sub_rng("c12-h3", budget)
        return G.decorate(G.size_cases(budget, rng) + G.collision_cases(budget, rng) + G.environment_cases(budget, rng)
                          + G.twin_id_cases(budget, rng) + G.silence_cases(budget, rng) + G.wait_traffic_cases(budget, rng), self.name)

    def oracle(self, case, o):
        if o.get("harness_errors"):
            return None
        v = oracle_enter(case, o)
        if v is None and (o.get("enter") or {}).get("k") == "yielded":
            v = oracle_requests(case, o)
        if v is None and (o.get("enter") or {}).get("k") == "yielded":
            v = oracle_release(case, o)
        return v

    def kind(self, case, o):
        big = [it["n"] for it in case.get("items", []) if it["k"] == "bigmsg"] + [r["answer"]["big"] for r in case.get("reqs", []) if "big" in (r.get("answer") or {})]
        if big:
            return f"size/{big[0] // 1000}K/{'answer' if not any(it['k'] == 'bigmsg' for it in case.get('items', [])) else 'server-message'}"
        if case.get("stderr"):
            return "environment/stderr-" + case["stderr"]
        if any(it["k"] == "msg" and "method" in it["m"] and "id" in it["m"] and not isinstance(it["m"]["id"], int) or
               (it["k"] == "msg" and isinstance(it["m"].get("id"), int) and it["m"]["id"] < 100) for it in case.get("items", [])):
            return "collision/" + case["reqs"][0]["mode"]
        return "environment/other"


class Boundaries(Base):
    name = "boundaries"

    def cases(self, ctx, budget):
        return G.decorate(G.boundary_cases(budget, ctx.sub_rng("c12-boundaries", budget)), self.name)

    def oracle(self, case, o):
        if o.get("harness_errors"):
            return None
        v = oracle_enter(case, o)
        if v is None and (o.get("enter") or {}).get("k") == "yielded":
            v = oracle_requests(case, o)
        return v

    def kind(self, case, o):
        return "boundary/" + (o.get("enter") or {}).get("k", "none")


INFO = Counter()
INFO_FIRST = {}


class Units(Suite):
    """pure decision logic next to the transport (headers, endpoint target, session id, parameter
    validation, is_sse_url, never-started guards): real functions vs `Model/SseUnits.lean`.  Not
    implied by the property text: differences are informational (notes / distribution)."""
    name = "units"
    supplementary = True

    def cases(self, ctx, budget):
        return U.cases(budget, ctx.sub_rng("c12-units", budget))

    def impl_batch(self, cases):
        return [U.run_impl(c) for c in cases]

    def model_line(self, case):
        return U.model_line(case)

    def model_obs(self, out, case):
        return U.model_obs(out, case)

    def compare(self, case, o, m):
        op = case["op"]
        if "unavailable" in o:
            INFO["unavailable/" + op] += 1
            INFO_FIRST.setdefault("unavailable/" + op, o["unavailable"])
            return None
        mm = dict(m) if isinstance(m, dict) else m
        gen = mm.pop("gen", None) if isinstance(mm, dict) else None
        if op == "wire":
            # every header the model says the clients are created with is on the GET and on the POST
            ok = all(isinstance(o.get(w), dict) and all(o[w].get(k.lower()) == v for k, v in mm["client"]) for w in ("get", "post"))
            ok = ok and (any(k.lower() == "authorization" for k, _ in mm["client"]) or "authorization" not in (o.get("get") or {}))
        else:
            ok = canon(o) == canon(mm) and (gen is None or gen == mm.get("url"))
        if not ok:
            INFO["differs/" + op] += 1
            INFO_FIRST.setdefault("differs/" + op, f"case {canon(case)[:200]} impl {canon(o)[:200]} model {canon(m)[:200]}")
            return f"units/{op} differs"
        INFO["agrees/" + op] += 1
        return None

    def kind(self, case, o):
        return "units/" + case["op"]


class Exits(Base):
    name = "exits"
    what = "release"

    def cases(self, ctx, budget):
        ctx.exhaustive_parts.append("exits: exit kind x request mode x point of the request's life")
        return G.decorate(G.exit_cases(budget, ctx.sub_rng("c12-exits", budget)), self.name)

    def oracle(self, case, o):
        if o.get("harness_errors"):
            return None
        v = oracle_enter(case, o)
        if v is None:
            v = oracle_release(case, o)
        return v

    def kind(self, case, o):
        modes = [r["mode"] for r in case.get("reqs", [])]
        return f"exit/{case['exit']['k']}/{modes[0] if modes else 'idle'}"


def extra(ctx, tier):
    """informational: which source literals the generator worked with"""
    for n in G.lits()["notes"]:
        if n not in ctx.notes:
            ctx.notes.append("C12 literals: " + n)
    try:
        from .. import core as _core, translate_sseunits as _T
        for n in _T.gen(_core.REPO / "src" / "chuk_mcp")[1]["notes"]:
            ctx.notes.append("C12 Gen/SseUnits (informational): not translated: " + n)
    except Exception as ex:  # noqa
        ctx.notes.append(f"C12 Gen/SseUnits: translator report unavailable: {ex!r}")
    for k, v in sorted(INFO.items()):
        ctx.dist["units:" + k] = v
    for k, v in sorted(INFO_FIRST.items()):
        ctx.notes.append(f"C12 units (informational, not implied by the property text): {k}: {v}")
    for k, v in sorted(FEATURES.items()):
        ctx.dist["feature:" + k] = v
    for k, v in sorted(OUTCOMES.items()):
        ctx.dist["outcome:" + k] = v


def suites():
    return [Establish(), Requests(), Chunking(), Backpressure(), Variants(), Grammar(), RaceMatrix(), Repeats(), Sizes(), Boundaries(), Exits(), Units()]
