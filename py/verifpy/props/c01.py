"""C01 — a request completes only with the response that bears its own id."""
from __future__ import annotations

from .. import await_gen as G
from .. import await_h as H
from .. import client_h as C
from ..runner import Suite

MANIFEST = dict(
    text='Lean 4 theorems about a timed model of send_message/_await_response (Await.run: well-founded recursion, arbitrary poll period, both tie orders, histories of any length): a return is the payload of the first response bearing the sent id, foreign/same-id-request/batch messages never complete the call, timeout iff no matching response, one request written; consecutive requests on ONE connection (connSeq: what earlier requests left in the stream is searched, never returned unless it bears the id; segments disjoint) and the high-level MCPClient on top (clientSeq: lazy initialize on the same connection, result = first unconsumed response bearing the id of the request the call itself wrote, request written iff initialized, initialized stays). The hand-written model is tied to the code by a correspondence run of the real send_message under a virtual-time event loop.',
    note='Trusted: Lean kernel (axioms propext, Classical.choice, Quot.sound only), the correspondence harness and virtual-time loop; anyio/asyncio semantics are sampled, not proved. result:null responses are outside the quantifier.',
    technique='Lean 4 proof (fun_induction over a timed state-machine model) + differential correspondence run under virtual time',
    design='5/C01',
)
GEN = ["Errors"]
SUPP_GEN = ["AwaitChain", "ClientOps"]
SUPP_THEOREMS = ["c01_chain_regenerated", "c01_client_shape_regenerated"]
THEOREMS = [
    "c01_result_sound", "c01_never_foreign", "c01_foreign_kinds", "c01_timeout_complete",
    "c01_complete", "c01_single_request_written", "c01_id_type_sensitive", "c01_siblings_independent",
    "c01_connection_result_sound", "c01_connection_segments", "c01_client_result_sound", "c01_client_initialized_stays",
    "c01_client_request_iff_initialized", "c01_client_uninitialized_initializes", "c01_result_sound_slow_callbacks",
]
RULE = (
    "timed histories over {matching result, matching error, same-id server request, other-id response, int/str "
    "twin of the id, notification, progress (own/foreign token), batch containing a matching response}: every word of "
    "length<=3 (quick) / <=4 (thorough) x 8 time placements around poll boundaries and the deadline x 2 tie orders, "
    "plus seeded histories of length<=12; real send_message under the virtual-time loop vs Await.run; non-trivial = "
    "distinct case with at least one event; siblings: 2-3 requests in one process (sequential with idle gaps / concurrent on "
    "separate connections) with equal or twin ids and strays bearing the siblings' ids, vs Await.runSeq without a token; "
    "write stream open / closed / blocked after the request; a call still running after deadline + 4 polls + 1 s is observed as hung; "
    "client-calls: 1-4 consecutive calls (6 operations) of one real MCPClient over a fake Transport with a reactive scripted peer "
    "(initialize answered ok / twice / late duplicate / error / -32602 version text / unsupported version / invalid shape / never; "
    "answers, duplicates, errors, silence; strays bearing the initialize id, the previous call's id, other ids) vs ClientApi.clientSeq "
    "on the recorded connection stream (start ticks, requests written and when, outcome, payload marker, end tick); "
    "connection: 2-5 consecutive send_message calls with caller ids (reused, int/str twins) on one stream pair scripted in absolute, tie-free "
    "time (late answers, duplicates, strays left for the next request) vs ClientApi.connSeq"
)
TRUSTED = ["anyio memory streams / cancel scopes / asyncio scheduling (sampled under the virtual-time loop)"]
ASSUMPTIONS = [
    "a response with result:null is outside the quantifier (the code returns the envelope; the property does not define its payload)",
]

ALPHA = ["R", "E", "Q", "O", "T", "N", "G", "B"]
IDS = [{"s": "abc"}, {"s": "7"}, None, {"s": ""}, {"i": 0}]


def expected_params(case, w):
    """params the request must carry: the caller's, plus the injected progress token"""
    want = case.get("params")
    got = w.get("params")
    if case.get("progress"):
        if not isinstance(got, dict):
            return False
        meta = dict(got.get("_meta") or {})
        if "progressToken" not in meta:
            return False
        meta.pop("progressToken")
        g2 = {k: v for k, v in got.items() if k != "_meta"}
        w2 = dict(want or {})
        wmeta = dict(w2.pop("_meta", {}) or {})
        wmeta.pop("progressToken", None)  # a stale token in the caller's dict is replaced
        return g2 == w2 and meta == wmeta
    return got == want or (want is None and got is None)


class Histories(Suite):
    name = "histories"
    parallel = True

    def cases(self, ctx, budget):
        out = []
        try:
            from .. import core
            gen = (core.LEAN / "Verif" / "Gen" / "AwaitChain.lean").read_text()
            if "def translatable : Bool := false" in gen:
                msg = ("INFO property=C01 supplementary=await-chain: the loop body of _await_response is outside the translator's "
                       "subset on this run; c01_chain_regenerated holds vacuously (classify is still compared with the running code)")
                print(msg)
                ctx.notes.append(msg)
        except Exception:
            pass
        if budget == "quick":
            out += list(G.exhaustive(ALPHA, 3, [1024], IDS))
            n = 8000
        else:
            out += list(G.exhaustive(ALPHA, 3, [1024, 1100], IDS))
            out += list(G.exhaustive(ALPHA, 4, [1024], IDS))
            n = 300000 if budget == "thorough" else 60000
        rng = ctx.sub_rng("c01", budget)
        alpha = ALPHA + ["Rj", "R0", "R0", "Rx", "Ed", "E0", "F", "Gp", "Oe", "Ez", "X"]
        out += list(G.exhaustive(["R0", "N", "Q"], 2, [1024], IDS))
        for _ in range(n):
            out.append(G.seeded(rng, alpha, cancel_p=0.08))
        # the read side of the connection ENDS while the request is pending (transport shut down,
        # peer gone), no response bearing the id ever having arrived: the call must not return
        for i in range(300 if budget == "quick" else 6000):
            c = G.seeded(rng, ["N", "O", "Q", "G", "F", "Oe", "T", "B"], max_len=6, cancel_p=0.0)
            c["ev"] = [[a, e] for a, e in c["ev"] if not ("$ID" in repr(e) and e["k"] in ("resp", "err", "batch"))]
            for key in ("pre", "hasToken", "writer"):
                c.pop(key, None)
            last = max([a for a, _ in c["ev"]] + [0])
            c["eos"] = rng.choice([last, last + 1, last + rng.randint(0, P_ := 512), max(last, c["D"] - 1)])
            out.append(c)
        # a progress callback that is still running when the deadline passes (it takes longer than the
        # rest of the timeout): the call fails with the timeout AT the deadline all the same (oracle only)
        for tie in ("events", "timers", "io"):
            for sleep in (3, 512 + 3, 2 * 512, 5 * 512):
                for answered in (False, True):
                    evs = [[5, G.sym_event("G", k=1)]]
                    if answered:
                        evs.append([40, {"k": "resp", "id": "$ID", "p": {"v": 1}}])
                    out.append(G.place({"id": {"s": "abc"}, "method": "tools/call", "params": None, "D": 2 * 512, "tie": tie,
                                        "progress": True, "cbSleep": sleep, "ev": evs}))
        ctx.exhaustive_parts.append("histories: every word over the 8-symbol alphabet up to the stated length x 8 time patterns")
        return out

    def impl(self, case):
        return H.run_case(case)

    def impl_batch(self, cases):
        obs = [H.run_case(c) for c in cases]
        return obs

    # the driver line depends on what the implementation generated (uuid, progress token)
    def model_line(self, case, o=None):
        if o is None or o.get("harness_errors"):
            return None
        if case.get("eos") is not None:
            return None  # end of stream is outside the model's (and the property's) histories: oracle only
        return H.model_line(case, o)

    def model_obs(self, out, case):
        return H.model_shape(out)

    def compare(self, case, o, m):
        a = H.impl_shape(case, o)
        from ..core import canon
        return None if canon(a) == canon(m) else "differs"

    def kind(self, case, o):
        return f"{o['outcome']}/len{min(len(case['ev']), 5)}/{case.get('tie')}"

    def nontrivial(self, case, o):
        return len(case["ev"]) > 0

    def oracle(self, case, o):
        sent = o.get("sent_id")
        if o.get("harness_errors"):
            return None
        cancelled_possible = bool(case.get("pre")) or case.get("cancelAt") is not None
        # (c) exactly one request, first, with id/method/params
        reqs = [w for w in o["writes"] if isinstance(w, dict) and "id" in w and w.get("method")]
        if not case.get("pre"):
            if len(reqs) != 1 or not o["writes"] or o["writes"][0] is not reqs[0]:
                return ("request-count", f"{len(reqs)} requests written (first write: {o['writes'][:1]})", {"requests": 1})
            w = reqs[0]
            if case.get("id") is not None and H._idval(case["id"], {}) and w["id"] != H._idval(case["id"], {}):
                return ("request-id", f"request written with id {w['id']!r}", {"id": case["id"]})
            if w.get("method") != case["method"] or w.get("jsonrpc") != "2.0" or not expected_params(case, w):
                return ("request-content", f"request written as {w}", {"method": case["method"], "params": case.get("params")})
        fm = H.first_matching(case, sent) if sent is not None else None
        if o["outcome"] == "returned":
            if fm is None:
                return ("returned-without-response", f"returned {o.get('p')!r} although no response bears id {sent!r}", {"outcome": "timeout"})
            _, a, ev = fm
            if ev["k"] != "resp" or o.get("p") != ev["p"]:
                return ("returned-not-first-response", f"returned {o.get('p')!r}; first matching message is {ev}", {"p": ev.get("p")})
        if case.get("eos") is not None:
            # the stream ended at tick `eos` and nothing bearing the id ever arrived: whatever the
            # call does, it must not complete normally, and it must be over by its deadline
            if o["outcome"] == "returned":
                return ("returned-without-response", f"read stream ended at tick {case['eos']} with no response for id {sent!r}; the call returned {o.get('p')!r}", {"outcome": "not returned"})
            if o["outcome"] == "hung" or o["t"] > case["D"]:
                return ("never-completes", f"read stream ended at tick {case['eos']}; still running {o['t']} ticks after the start, timeout {case['D']}", None)
            return None
        if o["outcome"] == "exception":
            return ("unexpected-exception", f"{o.get('exc')}: {o.get('text')}", None)
        if o["outcome"] == "hung":
            return ("never-completes", f"the call neither returned nor failed: still running {o['t']} ticks after its start, timeout {case['D']}", {"outcome": "timeout"})
        if not cancelled_possible:
            if fm is None and o["outcome"] != "timeout":
                return ("no-timeout", f"outcome {o['outcome']} without any matching response", {"outcome": "timeout"})
            if fm is None and o["t"] != case["D"]:
                return ("timeout-not-at-deadline", f"no matching response at all, yet the call failed at tick {o['t']} instead of its timeout {case['D']}", {"t": case["D"]})
            if fm is not None and fm[1] < case["D"] and not case.get("cbSleep"):
                # (with a callback that takes time the caller itself keeps the call from reading on)
                _, a, ev = fm
                if ev["k"] == "resp" and not (o["outcome"] == "returned" and o.get("p") == ev["p"]):
                    return ("missed-response", f"first matching response {ev} at tick {a} < deadline {case['D']} but outcome is {o['outcome']}", {"outcome": "returned", "p": ev["p"]})
                if ev["k"] == "err" and o["outcome"] != "raised":
                    return ("missed-error", f"first matching message is an error at tick {a} but outcome is {o['outcome']}", {"outcome": "raised"})
        return None

    def shrink_candidates(self, case):
        return G.shrink_candidates(case)


class Siblings(Suite):
    """2-3 requests in ONE process, one after the other or side by side on separate connections,
    whose ids are equal or twins of each other and whose histories carry responses bearing the
    siblings' ids: anything the library keeps between calls or across connections shows here."""
    name = "siblings"
    parallel = True

    def cases(self, ctx, budget):
        rng = ctx.sub_rng("c01-siblings", budget)
        pool = [{"s": "abc"}, {"s": "7"}, {"i": 7}, {"s": "x-1"}, {"i": 0}, {"s": "0"}]
        out = []
        for _ in range(1500 if budget == "quick" else 60000):
            n = rng.choice([2, 2, 3])
            same = rng.random() < 0.6
            ids = [rng.choice(pool)] * n if same else [rng.choice(pool) for _ in range(n)]
            reqs = []
            for j in range(n):
                c = G.seeded(rng, ["R", "E", "N", "O", "Q", "T", "B"], max_len=4, ids=[ids[j]], progress_p=0.0)
                for key in ("cancelAt", "pre", "hasToken", "cbRaises", "tie", "writer"):
                    c.pop(key, None)
                # strays bearing the siblings' ids (what a later sibling must never be handed)
                for jj in range(n):
                    if jj != j and rng.random() < 0.7:
                        a = rng.choice([1, 5, c["D"] // 2, max(1, c["D"] - 1)])
                        c["ev"].append([a, {"k": "resp", "id": ids[jj], "p": {"stray-for": jj, "seen-by": j}}])
                if rng.random() < 0.5:  # the request's own answer is absent: only a timeout is right
                    c["ev"] = [[a, e] for a, e in c["ev"] if not ("$ID" in repr(e) and e["k"] in ("resp", "err", "batch"))]
                c["ev"].sort(key=lambda x: x[0])
                reqs.append(G.place(c))
            out.append({"mode": rng.choice(["seq", "par"]), "tie": rng.choice(["events", "timers", "io"]), "fire": None,
                        "gaps": [rng.choice([0, 1, 600]) for _ in range(n)], "reqs": reqs, "noToken": True})
        # ONE connection used for 2-4 consecutive requests (a retry after an error, the next call of a
        # session), ids reused or not; each request's history ends with its own answer, so nothing is
        # left over for the next one
        for _ in range(700 if budget == "quick" else 30000):
            n = rng.choice([2, 2, 3, 4])
            same = rng.random() < 0.7
            ids = [rng.choice(pool)] * n if same else [rng.choice(pool) for _ in range(n)]
            reqs = []
            for j in range(n):
                c = G.seeded(rng, ["N", "O", "Q", "Oe", "F", "G"], max_len=3, ids=[ids[j]], progress_p=0.0)
                for key in ("cancelAt", "pre", "hasToken", "cbRaises", "tie", "writer", "eos"):
                    c.pop(key, None)
                c["D"] = max(c["D"], 64)
                c["ev"] = [[min(a, c["D"] - 2), e] for a, e in c["ev"]]
                c["ev"].sort(key=lambda x: x[0])
                last = max([a for a, _ in c["ev"]] + [0])
                final = G.sym_event(rng.choice(["R", "R", "E", "Ed", "R0"]), k=rng.randint(0, 9))
                c["ev"].append([min(c["D"] - 1, last + rng.choice([0, 1, 7])), final])
                reqs.append(G.place(c))
            out.append({"mode": "seq", "tie": rng.choice(["events", "timers", "io"]), "fire": None, "sharedStreams": True,
                        "gaps": [rng.choice([0, 1, 600]) for _ in range(n)], "reqs": reqs, "noToken": True})
        return out

    def impl_batch(self, cases):
        return [H.run_seq(c) for c in cases]

    def model_line(self, case, o=None):
        if o is None or any(x.get("harness_errors") for x in o):
            return None
        return H.seq_model_line(case, o)

    def model_obs(self, out, case):
        return [H.model_shape(x) for x in out]

    def compare(self, case, o, m):
        from ..core import canon
        return None if canon([H.impl_shape(r, x) for r, x in zip(case["reqs"], o)]) == canon(m) else "differs"

    def kind(self, case, o):
        ids = [repr(r.get("id")) for r in case["reqs"]]
        return f"siblings/{'one-connection' if case.get('sharedStreams') else case['mode']}/{len(o)}/{'same-id' if len(set(ids)) == 1 else 'mixed'}/" + "+".join(x["outcome"] for x in o)

    def nontrivial(self, case, o):
        return True

    def oracle(self, case, o):
        if any(x.get("harness_errors") for x in o):
            return None
        base = Histories()
        for i, (r, x) in enumerate(zip(case["reqs"], o)):
            v = base.oracle(dict(r, tie=case["tie"]), x)
            if v is not None:
                key, what, exp = v
                return ("siblings/" + key, f"request {i} of {len(o)} ({case['mode']}): {what}", exp)
        return None

    def shrink_candidates(self, case):
        if len(case["reqs"]) > 1:
            for i in range(len(case["reqs"])):
                c = dict(case)
                c["reqs"] = case["reqs"][:i] + case["reqs"][i + 1:]
                yield c
        for i, r in enumerate(case["reqs"]):
            for j in range(len(r["ev"])):
                c = dict(case)
                c["reqs"] = [dict(x) for x in case["reqs"]]
                c["reqs"][i]["ev"] = r["ev"][:j] + r["ev"][j + 1:]
                yield c


class ClientCalls(Suite):
    """2-4 consecutive calls of one high-level `MCPClient` on ONE connection (fake transport, reactive
    scripted peer): the first call initializes lazily; duplicated / late `initialize` answers, answers
    to earlier calls and strays are still in the stream when the next request starts."""
    name = "client-calls"
    parallel = True
    _dflt = None
    RKINDS = ["ok", "ok", "ok", "ok-dup", "error", "silence"]
    CODES = [-32603, -32601, -32000, 429, 0, -32602]
    N = (1200, 40000)
    FLOOD = 0.0

    def dflt(self):
        if ClientCalls._dflt is None:
            ClientCalls._dflt = C.defaults()
        return ClientCalls._dflt

    def cases(self, ctx, budget):
        rng = ctx.sub_rng(self.name, budget)
        try:
            import inspect
            from chuk_mcp.client.client import MCPClient
            extra = [n for n, f in vars(MCPClient).items() if inspect.iscoroutinefunction(f) and not n.startswith("_")
                     and n != "initialize" and n not in C.OPS]
            if extra:
                msg = f"INFO property=C01 client-calls: operations of MCPClient the harness has no script for (not driven): {sorted(extra)}"
                print(msg)
                ctx.notes.append(msg)
        except Exception:
            pass
        sup = self.dflt()["supported"]
        out = []
        k = [0]

        def fresh():
            k[0] += 1
            return k[0]

        def stray(idsym):
            kind = rng.choice(["resp-init", "resp-op", "err", "req", "notif"])
            if kind == "notif":
                return {"k": "notif", "method": rng.choice(["notifications/message", "notifications/tools/list_changed"])}
            if kind == "req":
                return {"k": "req", "id": idsym, "method": "sampling/createMessage"}
            if kind == "err":
                return {"k": "err", "id": idsym, "code": rng.choice([-32603, -32000, 7]), "msg": "stray"}
            if kind == "resp-init":
                return {"k": "resp", "id": idsym, "p": C.init_payload(fresh(), rng.choice(sup))}
            return {"k": "resp", "id": idsym, "p": C.OPS[rng.choice(list(C.OPS))]["payload"](fresh())}

        def others():
            return rng.choice([{"s": "zz"}, {"i": 0}, {"i": 1}, {"s": "1"}, "$INIT", "$LAST", "$INIT", "$LAST"])

        for _ in range(self.N[0] if budget == "quick" else self.N[1]):
            calls = []
            for _j in range(rng.choice([1, 2, 2, 3, 4])):
                op = rng.choice(list(C.OPS))
                # how the server answers an `initialize` issued by this call
                ikind = rng.choice(["ok", "ok", "ok", "ok-dup", "ok-late-dup", "error", "error-version", "unsupported", "bad-shape", "silence"])
                d0 = rng.choice([0, 1, 3, 511, 512, 513, 2000])
                iscript = []
                for _s in range(rng.choice([0, 0, 1, 2])):
                    iscript.append([rng.choice([0, 1, d0]), stray(others())])
                if ikind.startswith("ok"):
                    iscript.append([d0, {"k": "resp", "id": "$ID", "p": C.init_payload(fresh(), rng.choice(sup))}])
                    if ikind == "ok-dup":
                        iscript.append([d0, {"k": "resp", "id": "$ID", "p": C.init_payload(fresh(), rng.choice(sup))}])
                    if ikind == "ok-late-dup":
                        iscript.append([d0 + rng.choice([1, 5, 600]), {"k": "resp", "id": "$ID", "p": C.OPS[op]["payload"](fresh())}])
                elif ikind == "error":
                    iscript.append([d0, {"k": "err", "id": "$ID", "code": rng.choice([-32603, -32601, -32000, 429, 0]), "msg": "no"}])
                elif ikind == "error-version":
                    iscript.append([d0, {"k": "err", "id": "$ID", "code": -32602, "msg": "Unsupported protocol version"}])
                elif ikind == "unsupported":
                    iscript.append([d0, {"k": "resp", "id": "$ID", "p": C.init_payload(fresh(), "1999-01-01")}])
                elif ikind == "bad-shape":
                    iscript.append([d0, {"k": "resp", "id": "$ID", "p": C.init_payload(fresh(), rng.choice(sup), "no-server-info")}])
                iscript.sort(key=lambda x: x[0])
                rkind = rng.choice(self.RKINDS if rng.random() < 0.9 else ["silence"])
                d1 = rng.choice([0, 1, 3, 511, 512, 513, 1500])
                rscript = []
                for _s in range(rng.choice([0, 1, 1, 2, 3])):
                    rscript.append([rng.choice([0, 1, d1]), stray(others())])
                if self.FLOOD and rng.random() < self.FLOOD:
                    # unrelated traffic at a steady rate faster than the poll period, through the whole
                    # window of the request's timeout and beyond
                    step = rng.choice([100, 300, 511, 512])
                    for j in range(rng.choice([20, 130, 620 * 100 // step])):
                        rscript.append([j * step + rng.choice([0, 1]), stray(others())])
                if rkind.startswith("ok"):
                    rscript.append([d1, {"k": "resp", "id": "$ID", "p": C.OPS[op]["payload"](fresh())}])
                    if rkind == "ok-dup":
                        rscript.append([d1 + rng.choice([0, 1, 700]), {"k": "resp", "id": "$ID", "p": C.OPS[op]["payload"](fresh())}])
                elif rkind == "error":
                    err = {"k": "err", "id": "$ID", "code": rng.choice(self.CODES), "msg": rng.choice(["no", "", "Unsupported protocol version", "x" * 300])}
                    if rng.random() < 0.4:  # `data`, also error-shaped (a relayed error): the OUTER code is the request's
                        err["data"] = rng.choice([{"code": -32601, "message": "Method not found"}, {"detail": [1, None]}, "text", {"code": 5, "message": "inner"}])
                    rscript.append([d1, err])
                rscript.sort(key=lambda x: x[0])
                calls.append({"op": op, "gap": rng.choice([0, 0, 1, 700]), "initScript": iscript, "reqScript": rscript})
            out.append({"tie": rng.choice(["events", "timers", "io"]), "calls": calls, "debug": rng.random() < 0.25, "warnErr": rng.random() < 0.1})
        return out

    def impl_batch(self, cases):
        return [C.run_calls(c) for c in cases]

    def model_line(self, case, o=None):
        if o is None or o.get("harness_errors"):
            return None
        return C.model_line(case, o, self.dflt())

    def model_obs(self, out, case):
        return out

    @staticmethod
    def _expect(spec, m):
        """what the model's record of one call says the caller and the wire see"""
        e = {"start": m["start"], "requests": [], "init_ok": None}
        fin = None
        if m.get("init") is not None:
            e["requests"].append(["initialize", m["start"]])
            fin = (m["init"], m["start"])
        if m.get("req") is not None:
            e["requests"].append([C.OPS[spec["op"]]["method"], m["req"]["start"]])
            fin = (m["req"], m["req"]["start"])
            e["init_ok"] = True if m.get("init") is not None else None
        elif m.get("init") is not None:
            e["init_ok"] = False
        o, s = fin
        e["end"] = s + o["t"]
        if m.get("req") is not None:
            e["outcome"] = o["outcome"]
            if o["outcome"] == "returned":
                e["marker"] = C.payload_marker(o["p"])
            if o["outcome"] == "raised":
                e["code"], e["retryable"] = o["code"], o["retryable"]
        else:
            # the call fails the way its `initialize` failed
            if o["outcome"] == "returned":
                e["outcome"] = "init-result-rejected"
            elif o["outcome"] == "raised" and o["code"] == -32602 and "protocol version" in (o.get("msg") or "").lower():
                e["outcome"] = "version-mismatch"  # the documented mapping of send_initialize
            else:
                e["outcome"] = o["outcome"]
                if o["outcome"] == "raised":
                    e["code"], e["retryable"] = o["code"], o["retryable"]
        return e

    @staticmethod
    def _seen(spec, r):
        e = {"start": r["start"], "end": r["end"],
             "requests": [[w["method"], w["tick"]] for w in r["writes"] if w["id"] is not None and w["method"]]}
        ninit = sum(1 for w in r["writes"] if w["method"] == "notifications/initialized")
        has_init = any(w["method"] == "initialize" for w in r["writes"])
        e["init_ok"] = (ninit == 1) if has_init else None
        oc = r["outcome"]
        if oc in ("version-mismatch", "exception") and has_init and ninit == 0 and len(e["requests"]) == 1:
            # which of the two it is for a rejected RESULT is C03's subject
            e["outcome"] = "version-mismatch" if (oc == "version-mismatch" and "unknown" in (r.get("text") or "")) else "init-result-rejected"
        else:
            e["outcome"] = oc
        if oc == "returned":
            e["marker"] = r.get("marker")
        if oc == "raised":
            e["code"], e["retryable"] = r["code"], r["retryable"]
        return e

    def compare(self, case, o, m):
        from ..core import canon
        if len(m) != len(o["calls"]):
            return "differs"
        a = [self._seen(s, r) for s, r in zip(case["calls"], o["calls"])]
        b = [self._expect(s, x) for s, x in zip(case["calls"], m)]
        return None if canon(a) == canon(b) else "differs"

    def kind(self, case, o):
        return "client/" + "+".join(("i" if any(w["method"] == "initialize" for w in r["writes"]) else "") + r["outcome"] for r in o["calls"])

    def nontrivial(self, case, o):
        return True

    def oracle(self, case, o):
        """the property text, read off the wire: a call that returns hands back the payload of the first
        response on the connection bearing the id of ITS OWN request; it writes exactly one request with
        its method and arguments; an initialized client does not initialize again"""
        if o.get("harness_errors"):
            return None
        initialized = False
        for i, (spec, r) in enumerate(zip(case["calls"], o["calls"])):
            op = C.OPS[spec["op"]]
            inits = [w for w in r["writes"] if w["method"] == "initialize"]
            own = [w for w in r["writes"] if w["id"] is not None and w["method"] and w["method"] != "initialize"]
            if r["outcome"] == "hung":
                return ("client/never-completes", f"call {i} ({spec['op']}) neither returned nor failed: still running after every timeout it runs under", {"outcome": "timeout"})
            if initialized and inits:
                return ("client/initialized-twice", f"call {i} ({spec['op']}) of an initialized client wrote another initialize request", {"initialize": 0})
            if len(inits) > 1:
                return ("client/initialized-twice", f"call {i} ({spec['op']}) wrote {len(inits)} initialize requests", {"initialize": 1})
            if r["outcome"] == "returned" or r["initialized"]:
                if len(own) != 1 or own[0]["method"] != op["method"] or (own[0]["params"] or {}) != (op["params"] or {}):
                    return ("client/request-content", f"call {i} ({spec['op']}) wrote {[(w['method'], w['params']) for w in own]}", {"method": op["method"], "params": op["params"]})
            elif own:
                return ("client/request-without-initialize", f"call {i} ({spec['op']}): initialize did not succeed, yet {own[0]['method']} was written", {"requests": 0})
            initialized = bool(r["initialized"])
            if r["outcome"] == "returned":
                sent = own[0]["id"]
                first = next((ev for _, ev in o["stream"] if ev["k"] in ("resp", "err") and H._idval(ev["id"], {}) == sent
                              and type(H._idval(ev["id"], {})) is type(sent)), None)
                if first is None:
                    return ("client/returned-without-response", f"call {i} ({spec['op']}) returned {r.get('marker')} although no response bears its id {sent!r}", {"outcome": "timeout"})
                if first["k"] != "resp" or C.payload_marker(first["p"]) != r.get("marker"):
                    return ("client/returned-not-own-response", f"call {i} ({spec['op']}, id {sent!r}) returned {r.get('marker')}; the first message bearing its id is {first}", {"marker": C.payload_marker(first.get("p"))})
        return None

    def shrink_candidates(self, case):
        if len(case["calls"]) > 1:
            for i in range(len(case["calls"])):
                c = dict(case)
                c["calls"] = case["calls"][:i] + case["calls"][i + 1:]
                yield c
        for i, sp in enumerate(case["calls"]):
            for key in ("initScript", "reqScript"):
                for j in range(len(sp[key])):
                    c = dict(case)
                    c["calls"] = [dict(x) for x in case["calls"]]
                    c["calls"][i][key] = sp[key][:j] + sp[key][j + 1:]
                    yield c
        if case.get("debug"):
            yield dict(case, debug=False)
        if case.get("warnErr"):
            yield dict(case, warnErr=False)


class Connection(Suite):
    """2-5 consecutive `send_message` calls with caller-supplied ids (reused, int / str twins) on ONE
    connection whose read stream is scripted in absolute time: late answers to requests that gave up,
    duplicates and strays stay in the stream for the next request.  Ticks are tie-free by
    construction (distinct residues modulo 16; deadlines, gaps and poll periods are multiples of 16)."""
    name = "connection"
    parallel = True

    def cases(self, ctx, budget):
        rng = ctx.sub_rng("c01-connection", budget)
        pool = [{"s": "a"}, {"s": "7"}, {"i": 7}, {"s": "b"}, {"i": 1}]
        out = []
        for _ in range(2500 if budget == "quick" else 80000):
            n = rng.choice([2, 2, 3, 4, 5])
            ids = [rng.choice(pool[:3] if rng.random() < 0.6 else pool) for _ in range(n)]
            reqs = [{"id": i, "D": rng.choice([512, 1024, 1536]), "gap": rng.choice([0, 0, 16, 1600])} for i in ids]
            horizon = sum(r["D"] + r["gap"] for r in reqs)
            ne = rng.randint(0, 15)
            residues = rng.sample(range(1, 16), ne)
            stream = []
            for k, res in enumerate(residues):
                a = 16 * rng.randint(0, max(1, horizon // 16)) + res
                kind = rng.choice(["resp", "resp", "resp", "err", "req", "notif", "other"])
                idv = rng.choice(ids) if rng.random() < 0.8 else rng.choice(pool)
                if kind == "resp":
                    ev = {"k": "resp", "id": idv, "p": {"marker": len(out) * 100 + k}}
                elif kind == "err":
                    ev = {"k": "err", "id": idv, "code": rng.choice([-32601, -32603, 5]), "msg": f"e{k}"}
                elif kind == "req":
                    ev = {"k": "req", "id": idv, "method": "sampling/createMessage"}
                elif kind == "notif":
                    ev = {"k": "notif", "method": "notifications/message", "params": {"k": k}}
                else:
                    ev = {"k": "resp", "id": {"s": "nobody"}, "p": {"marker": len(out) * 100 + k}}
                stream.append([a, ev])
            stream.sort(key=lambda x: x[0])
            out.append({"tie": rng.choice(["events", "timers", "io"]), "reqs": reqs, "stream": stream, "debug": rng.random() < 0.2})
        return out

    def impl_batch(self, cases):
        return [C.run_conn(c) for c in cases]

    def model_line(self, case, o=None):
        if o is None or o.get("harness_errors"):
            return None
        return C.conn_model_line(case)

    def model_obs(self, out, case):
        return out

    def compare(self, case, o, m):
        from ..core import canon
        if len(m) != len(o["reqs"]):
            return "differs"
        def proj(x):
            e = {"start": x["start"], "outcome": x["outcome"], "t": x["t"]}
            if x["outcome"] == "returned":
                e["p"] = x.get("p")
            if x["outcome"] == "raised":
                e["code"], e["retryable"] = x["code"], x["retryable"]
            return e
        return None if canon([proj(x) for x in o["reqs"]]) == canon([proj(x) for x in m]) else "differs"

    def kind(self, case, o):
        return "connection/" + "+".join(x["outcome"] for x in o["reqs"])

    def nontrivial(self, case, o):
        return len(case["stream"]) > 0

    def oracle(self, case, o):
        if o.get("harness_errors"):
            return None
        seen = []
        for i, (r, x) in enumerate(zip(case["reqs"], o["reqs"])):
            rid = H._idval(r["id"], {})
            reqs = [w for w in x["writes"] if isinstance(w, dict) and "id" in w and w.get("method")]
            if len(reqs) != 1 or reqs[0]["id"] != rid or type(reqs[0]["id"]) is not type(rid):
                return ("connection/request-count", f"request {i} (id {rid!r}) wrote {[(w.get('id'), w.get('method')) for w in reqs]}", {"requests": 1})
            if x["outcome"] == "hung":
                return ("connection/never-completes", f"request {i} (id {rid!r}) still running after its timeout {r['D']}", {"outcome": "timeout"})
            if x["outcome"] == "exception":
                return ("connection/unexpected-exception", f"request {i}: {x.get('exc')}: {x.get('text')}", None)
            if x["t"] > r["D"]:
                return ("connection/deadline-exceeded", f"request {i} took {x['t']} ticks, timeout {r['D']}", {"max": r["D"]})
            # completeness on one connection: a message bearing this request's id that arrived after
            # every earlier request had finished (so nobody else can have read it) -- also BEFORE this
            # request was written: a late answer to an earlier attempt with the same id -- and before this
            # request's deadline is its answer
            prev_end = 0 if i == 0 else o["reqs"][i - 1]["start"] + o["reqs"][i - 1]["t"]
            mine = [(a, ev) for a, ev in case["stream"] if ev["k"] in ("resp", "err") and a > prev_end
                    and H._idval(ev["id"], {}) == rid and type(H._idval(ev["id"], {})) is type(rid)]
            earlier = any(ev["k"] in ("resp", "err") and a <= prev_end and H._idval(ev["id"], {}) == rid
                          and type(H._idval(ev["id"], {})) is type(rid) for a, ev in case["stream"])
            # (a message bearing the id that arrived while an earlier request was still running may or may
            # not have been read by it: only the model can tell; the clause speaks when there is none)
            if mine and not earlier and mine[0][0] < x["start"] + r["D"]:
                a0, first = mine[0]
                if first["k"] == "resp" and not (x["outcome"] == "returned" and x.get("p") == first["p"]):
                    return ("connection/missed-response", f"request {i} (id {rid!r}, written at tick {x['start']}, timeout {r['D']}): the response {first} arrived at tick {a0}, after every earlier request had finished; outcome {x['outcome']} {x.get('p')!r}", {"outcome": "returned", "p": first["p"]})
                if first["k"] == "err" and x["outcome"] != "raised":
                    return ("connection/missed-error", f"request {i} (id {rid!r}): the error {first} arrived at tick {a0}; outcome {x['outcome']}", {"outcome": "raised"})
            if x["outcome"] == "returned":
                src = [ev for _, ev in case["stream"] if ev["k"] == "resp" and ev["p"] == x.get("p")]
                if not src or H._idval(src[0]["id"], {}) != rid or type(H._idval(src[0]["id"], {})) is not type(rid):
                    return ("connection/returned-foreign", f"request {i} (id {rid!r}) returned {x.get('p')!r}, which no response bearing its id carries", {"outcome": "not this payload"})
                if x.get("p") in seen:
                    return ("connection/response-delivered-twice", f"request {i} (id {rid!r}) was handed {x.get('p')!r}, already handed to an earlier request", None)
                seen.append(x.get("p"))
        return None

    def shrink_candidates(self, case):
        if len(case["reqs"]) > 1:
            for i in range(len(case["reqs"])):
                yield dict(case, reqs=case["reqs"][:i] + case["reqs"][i + 1:])
        for j in range(len(case["stream"])):
            yield dict(case, stream=case["stream"][:j] + case["stream"][j + 1:])
        if case.get("debug"):
            yield dict(case, debug=False)
        if case.get("warnErr"):
            yield dict(case, warnErr=False)


def suites():
    return [Histories(), Siblings(), ClientCalls(), Connection()]
