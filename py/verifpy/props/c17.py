"""C17 — JSON encoding is backend-independent and always a single NDJSON frame."""
from __future__ import annotations

from .. import core
from .. import json_h as J
from ..runner import Suite

MANIFEST = dict(
    text="Lean 4 theorems about a model of protocol/fast_json.py (dumps with the orjson encoder and the stdlib fall-back, loads; Model/Json.lean: two concrete compact encoders - orjson style: ',' ':' separators, raw UTF-8, escapes for quote, backslash and C0 controls only; stdlib style: ', ' ': ' separators, ensure_ascii with \\uxxxx and surrogate pairs - and one RFC 8259 decoder): for EVERY value (no bound on depth, width, string length, integer size) the compact text contains no raw line break; dec (encOrjson v) = dec (encStd v) = v; for every value whose integers fit in 64 bits loads_B (dumps_A v) = v for all four backend pairs. The hand-written model is tied to the code by a correspondence run in two worker processes (orjson importable / blocked): byte equality of fast_json.dumps with the model's text, value equality of fast_json.loads with the model's decoder, all four (encoder, decoder) pairs.",
    note="Trusted: Lean kernel (axioms propext, Classical.choice, Quot.sound only), the correspondence harness and its worker processes. Floats are opaque tokens in the model (the token each backend writes is taken from that backend); that float(repr(x)) == x for both backends is sampled, not proved. orjson and the stdlib json module are third-party code: modelled, not verified.",
    technique="Lean 4 proof (mutual structural induction over the JSON value; fuel-indexed recursive-descent decoder) + differential correspondence run across two interpreter configurations",
    design="5/C17",
)
GEN: list = []
THEOREMS = [
    "c17_no_raw_newline",
    "c17_no_raw_newline_encoders",
    "c17_dec_enc_orjson",
    "c17_dec_enc_std",
    "c17_roundtrip",
    "c17_cross_backend",
    "c17_big_int_stdlib",
    "c17_memo_transparent",
    "c17_memo_sequence",
]
RULE = (
    "values: every JSON value of nesting depth<=2 over 10 leaves (null, booleans, 0, -1, 2^64-1, 1.5, '', 'a', U+2028) with arrays/objects of "
    "<=2 entries (keys 'k', U+00E9, every order), every value of depth<=3 over 3 leaves (quick: every 2nd), directed boundary "
    "values (every C0 control, U+007F, U+0085, U+2028/2029, BMP boundaries, astral characters as string and as key; the 64-bit "
    "integer edges; -0.0, 1e308, denormals; empty containers; depth 60; width 300; nesting depth 255/256/700 and 1023/1024/1025/1100/1400 "
    "(arrays, objects, alternating, at the top and below a prefix; only depths the unmodified library handles in both configurations, "
    "measured at run time); 1 MiB strings and keys; 100k-member arrays and objects) and seeded deep values; each value is dumped "
    "by the real fast_json under both configurations, both texts are loaded under both configurations, and all of it is compared "
    "with the Lean model (hardening: falsy values and type twins in both orders, JSON-looking / format-hostile / 100 kB texts as "
    "strings and keys, string lengths 7..65537 with an escape at either end, re-encoding a mutated object and decoding a text "
    "twice; suite entry-points: dumps with indent/separators/ensure_ascii/sort_keys/default, dump() to a text stream, loads of "
    "bytes/bytearray, load() from text and binary streams; suite foreign-texts: other valid RFC 8259 renderings - whitespace, "
    "\\/ and unnecessary or upper-case \\u escapes, surrogate-pair escapes, exponent spellings, -0 - decoded under both "
    "configurations and by the model's dec) "
    "with the Lean model; non-trivial = distinct value that is not a bare null/boolean"
)
TRUSTED = [
    "orjson and the stdlib json module (third-party; behaviour sampled by the correspondence run)",
    "float formatting/parsing of both backends (floats are opaque tokens in the model)",
]
ASSUMPTIONS = [
    "integers outside -2^63..2^64-1, NaN/Infinity and lone surrogates are outside the property (only the no-line-break part is checked for big integers)",
    "object members have distinct keys (a Python dict cannot have duplicates); value equality ignores member order",
    "dumps is called without keyword arguments (the compact form the transports use); indent=... is a different, non-compact encoding "
    "(the entry-points suite still demands the round trip for it, not the absence of line breaks)",
    "observed, not demanded: fast_json.dump() to a BINARY stream works only when orjson is importable (the stdlib path writes str and "
    "raises TypeError), loads(memoryview) likewise; both are outside the declared signatures (text stream; str | bytes)",
    "nesting deeper than the interpreter's own recursion limits (measured at run time, see notes) is outside: every Python JSON codec raises there",
]

LEAVES_D2 = [None, True, False, {"i": 0}, {"i": -1}, {"i": 2 ** 64 - 1}, {"f": (1.5).hex()}, {"s": []}, {"s": [97]}, {"s": [0x2028]}]
LEAVES_D3 = [None, {"i": 0}, {"s": [97]}]
KEYS = [[107], [0xE9]]


def _features(t):
    f = []
    cps = set(J.all_cps(t))
    if any(c < 32 for c in cps):
        f.append("c0")
    if cps & {0x7F, 0x85, 0x2028, 0x2029}:
        f.append("linesep")
    if any(c >= 0x10000 for c in cps):
        f.append("astral")
    elif any(c >= 0x80 for c in cps):
        f.append("bmp")
    ints = [x["i"] for x in J.walk(t) if isinstance(x, dict) and "i" in x]
    if any(i >= 2 ** 63 for i in ints if i <= J.U64_MAX):
        f.append("u64")
    elif any(abs(i) > 2 ** 53 for i in ints):
        f.append("gt2^53")
    if any(isinstance(x, dict) and "f" in x for x in J.walk(t)):
        f.append("float")
    return f


class J_debug:
    """placeholder context (the workers switch logging themselves per item); kept for symmetry"""

    def __init__(self, *ws):
        pass

    def __enter__(self):
        return self

    def __exit__(self, *exc):
        return False


class Codec(Suite):
    name = "codec"

    def __init__(self):
        self.styles: dict = {}
        self.pinned_hits: dict = {}
        self.limit_note = None

    def cases(self, ctx, budget):
        out = []
        for tag, v in J.directed():
            out.append({"g": "directed/" + tag, "v": v})
        # where the two backends' own limits differ (nesting depth, length, width)
        lim = self.measure_limits()
        margin = 50
        # the bound comes from the stdlib json module of the worker's interpreter, NOT from the library
        # under test (whose own limit is only reported): up to there a JSON codec can work in this
        # process, and the unmodified library does under both configurations thanks to its fall-back
        max_depth = min(min(l["interpreter"].values()) for l in lim.values()) - margin
        self.limit_note = (
            f"nesting limits measured at run time (deepest single-member chain for which dumps+loads work): stdlib json of the "
            f"interpreter {lim['s']['interpreter']}; fast_json with orjson importable {lim['o']['library']}, with orjson absent "
            f"{lim['s']['library']}; duplicate keys: orjson importable '{lim['o'].get('duplicate_key')}', absent "
            f"'{lim['s'].get('duplicate_key')}'; directed deep values use depths {[d for d in J.DEPTHS if d <= max_depth]} of "
            f"{J.DEPTHS} (<= interpreter limit - {margin}; beyond it every Python JSON codec in this process raises "
            f"RecursionError, so nothing is demanded); very deep / 1 MiB / 100k-member values are checked by the property "
            f"oracle only (no model line)"
        )
        for tag, v in J.directed_limits(max_depth):
            out.append({"g": "limits/" + tag, "v": v})
        for tag, v in J.directed_hardening():
            out.append({"g": "directed/" + tag, "v": v})
        # text that looks like the syntax being written: as a value, as a key, nested, and on every encoder path
        # (plain; the stdlib fall-back inside the orjson configuration is reached through nesting deeper than
        # orjson's encoder accepts, which keeps the value inside the property's 64-bit domain)
        srng = ctx.sub_rng("c17-syntax", budget)
        for t in J.syntax_texts(srng, 120 if budget == "quick" else 3000):
            kind_ = srng.randrange(4)
            sv = J.S(t)
            if kind_ == 0:
                v = sv
            elif kind_ == 1:
                v = {"o": [[J.cps(t), sv]]}
            elif kind_ == 2:
                v = {"a": [sv, {"o": [[J.cps("k"), sv], [J.cps(t), {"a": [sv, None]}]]}]}
            else:
                v = J.chain("alt", 300, {"o": [[J.cps(t), {"a": [sv]}]]})
            out.append({"g": "syntax-text", "v": v})
        d2 = J.exhaustive(LEAVES_D2, KEYS, 2, 2)
        out += [{"g": "exhaustive/depth<=2", "v": v} for v in d2]
        d3 = [v for v in J.exhaustive(LEAVES_D3, KEYS, 3, 2) if J.depth(v) == 3]
        if budget == "quick":
            d3 = d3[ctx.seed % 2::2]
        out += [{"g": "exhaustive/depth3", "v": v} for v in d3]
        ctx.exhaustive_parts.append(
            f"codec: all {len(d2)} values of depth<=2 over 10 leaves; {len(d3)} values of depth 3 over 3 leaves"
            + (" (every 2nd)" if budget == "quick" else "")
        )
        rng = ctx.sub_rng("c17", budget)
        n = {"quick": 4000, "thorough": 60000}.get(budget, 30000)
        for i in range(n):
            deep = rng.choice([3, 4, 4, 5, 7])
            outside = 0.15 if i % 10 == 0 else 0.0
            out.append({"g": "seeded/outside" if outside else "seeded", "v": J.rand_value(rng, deep, outside, rng.choice([2, 3, 5]))})
        return out

    def measure_limits(self):
        return {"o": J.worker(block_orjson=False).call({"op": "limits"}), "s": J.worker(block_orjson=True).call({"op": "limits"})}

    # -- implementation -------------------------------------------------------------------
    def impl_batch(self, cases):
        wo = J.worker(block_orjson=False)
        ws = J.worker(block_orjson=True)
        vals = [c["v"] for c in cases]
        info = {"o": wo.call({"op": "info"}), "s": ws.call({"op": "info"})}
        do = wo.call({"op": "dumps", "values": vals, "debug_every": 4})
        ds = ws.call({"op": "dumps", "values": vals, "debug_every": 4})
        texts, idx = [], []
        for i, (a, b) in enumerate(zip(do["out"], ds["out"])):
            for tag, r in (("o", a), ("s", b)):
                if "text" in r:
                    idx.append((i, tag))
                    texts.append(r["text"])
        lo = wo.call({"op": "loads", "texts": texts, "debug_every": 3})["out"]
        ls = ws.call({"op": "loads", "texts": texts, "debug_every": 3})["out"]
        if not getattr(self, "_churned", False):
            # once per run: a long session (more distinct short documents than any cache holds, decoded, edited, decoded again)
            self._churned = True
            with J_debug(wo, ws):
                self.churn = {"o": wo.call({"op": "churn"}), "s": ws.call({"op": "churn"})}
        small = [i for i, c in enumerate(cases) if not J.is_compact(c["v"])]
        ro = wo.call({"op": "reuse", "values": [vals[i] for i in small]})["out"]
        rs = ws.call({"op": "reuse", "values": [vals[i] for i in small]})["out"]
        obs = []
        for i in range(len(cases)):
            obs.append({
                "config": {"o": info["o"]["has_orjson"], "s": info["s"]["has_orjson"]},
                "dumps": {"o": do["out"][i], "s": ds["out"][i]},
                "loads": {},
            })
        for (i, tag), a, b in zip(idx, lo, ls):
            obs[i]["loads"][tag + "o"] = a  # text written under `tag`, read under the orjson configuration
            obs[i]["loads"][tag + "s"] = b
        for i, a, b in zip(small, ro, rs):
            obs[i]["reuse"] = {"o": a, "s": b}
        if getattr(self, "churn", None) and obs:
            obs[0]["churn"] = self.churn
            self.churn = None
        self._obs = {id(c): o for c, o in zip(cases, obs)}
        self._tok = getattr(self, "_tok", {})
        self._tok["o"] = {**self._tok.get("o", {}), **do["tokens"]}
        self._tok["s"] = {**self._tok.get("s", {}), **ds["tokens"]}
        return obs

    # -- model ----------------------------------------------------------------------------
    def model_line(self, case):
        tok = getattr(self, "_tok", None)
        o = getattr(self, "_obs", {}).get(id(case))
        if tok is None or o is None:
            return None
        if J.is_compact(case["v"]) or J.text_size(case["v"]) > 3000:
            return None  # very deep / long / wide: property oracle only
        try:
            vo = J.with_tokens(case["v"], tok["o"])
            vs = J.with_tokens(case["v"], tok["s"])
        except KeyError:
            return None
        if any(isinstance(x, dict) and "f" in x and x["f"] is None for x in list(J.walk(vo)) + list(J.walk(vs))):
            return None
        texts = {k: (J.cps(o["dumps"][tag]["text"]) if "text" in o["dumps"][tag] else None) for k, tag in (("to", "o"), ("ts", "s"))}
        return {"m": "json", "op": "c17", "vo": vo, "vs": vs, **texts}

    def model_obs(self, out, case):
        if "driver_error" in out:
            return {"driver_error": out["driver_error"]}
        dec, match = {}, {}
        for tag in ("o", "s"):
            d = out["dec_t" + tag]
            dec[tag] = None if d is None else {"v": J.from_model(d["v"])}
            match[tag] = out["match_t" + tag]
        return {
            "wf": out["wf"], "fits": out["fits"], "match": match, "dec": dec,
            "pinned": {"o": J.text_of_cps(out["pinned_to"]), "s": J.text_of_cps(out["pinned_ts"])},
        }

    def compare(self, case, o, m):
        if "driver_error" in m:
            return "driver error: " + m["driver_error"]
        if not m["wf"]:
            return "a float token written by a backend is not a well-formed JSON number with fraction/exponent"
        if m["fits"] != J.fits64(case["v"]):
            return "fits64 differs"
        for tag in ("o", "s"):
            if "text" not in o["dumps"][tag]:
                return f"dumps raised under configuration {tag}; the model always produces a text"
            if not m["match"][tag]:
                return (f"dumps text under configuration {tag} is not the model's encoding of the value in any style "
                        f"(separators with/without space x raw UTF-8/ensure_ascii)")
            key = tag + ("" if m["fits"] else "/beyond64")
            d = self.styles.setdefault(key, {"#cases": 0})
            d["#cases"] += 1
            for st in m["match"][tag]:
                d[st] = d.get(st, 0) + 1
            if o["dumps"][tag]["text"] == m["pinned"][tag]:
                self.pinned_hits[key] = self.pinned_hits.get(key, 0) + 1
        # the model's `loads`: `dec` for the stdlib; `dec` on the 64-bit domain for orjson
        for wtag in ("o", "s"):
            for rtag in ("o", "s") if m["fits"] else ("s",):
                got = o["loads"].get(wtag + rtag, {})
                want = m["dec"][wtag]
                if "v" not in got or want is None or core.canon(got["v"]) != core.canon(want["v"]):
                    return f"loads under {rtag} of the text written under {wtag} differs from the model's decoder"
        return None

    # -- property oracle (implementation only) ----------------------------------------------
    def oracle(self, case, o):
        v = case["v"]
        if o["config"] != {"o": True, "s": False}:
            # the harness could not establish the two configurations: not a statement about the code
            return None
        for tag in ("o", "s"):
            d = o["dumps"][tag]
            name = "orjson importable" if tag == "o" else "orjson absent"
            if "text" not in d:
                if J.fits64(v):
                    return ("dumps-raises/" + tag, f"fast_json.dumps raises {d.get('exc')} ({name})", {"text": "a JSON text"})
                continue
            if "\n" in d["text"] or "\r" in d["text"]:
                return ("raw-line-break/" + tag, f"compact encoding contains a raw line break ({name}): {d['text']!r:.200}",
                        {"line_breaks": 0})
        for tag, r in (o.get("churn") or {}).items():
            name = "orjson importable" if tag == "o" else "orjson absent"
            if r.get("bad"):
                return ("long-session/" + tag, f"in a long session (1500 distinct short documents decoded, edited, decoded again; 1000 encodes of one "
                        f"object) a later call differs from the first: {r['bad']} ({name})", None)
        for tag, r in (o.get("reuse") or {}).items():
            name = "orjson importable" if tag == "o" else "orjson absent"
            if r.get("dumps_sees_mutation") is False or r.get("dumps_repeatable") is False:
                return ("stale-dumps/" + tag, f"encoding the same object again does not reflect its current value ({name})", None)
            for form, ok in (r.get("repair") or {}).items():
                if ok is not True:
                    return (f"repaired-value-refused/{form}/{tag}", f"an encode failed on a value (a set leaf / a cycle), the same objects were repaired in place, "
                            f"and dumps ({form}) of the now plain JSON value: {ok} ({name})", None)
            if r.get("loads_independent") is False:
                return ("aliased-loads/" + tag, f"decoding the same text twice does not give independent, equal values ({name})", None)
        if not J.fits64(v):
            return None
        want = core.canon(J.unordered(J.normal(v) if J.is_compact(v) else v))
        for wtag in ("o", "s"):
            for rtag in ("o", "s"):
                got = o["loads"].get(wtag + rtag)
                pair = f"written with {'orjson' if wtag == 'o' else 'stdlib'}, read with {'orjson' if rtag == 'o' else 'stdlib'}"
                if got is None or "v" not in got:
                    return (f"loads-raises/{wtag}{rtag}", f"decoding raises {got and got.get('exc')} ({pair})", {"value": v})
                if core.canon(J.unordered(got["v"])) != want:
                    return (f"roundtrip/{wtag}{rtag}", f"decoded value differs from the encoded one ({pair})", {"value": v})
        return None

    def kind(self, case, o):
        f = _features(case["v"])
        return case.get("g", "?") + ("/" + "+".join(f) if f else "") + ("" if J.fits64(case["v"]) else "/beyond64")

    def nontrivial(self, case, o):
        return case["v"] not in (None, True, False)

    def shrink_candidates(self, case):
        for v in J.shrink_value(case["v"]):
            yield {"g": "shrunk", "v": v}


class BigTwins(Suite):
    """Size x encoding twins: one value far above every buffer (1 MB ... beyond 16 MiB of text) in the spelling each
    encoder gives it (raw UTF-8 vs \\uXXXX escapes; BMP vs astral), decoded as str and as bytes under both configurations.
    Everything happens inside the worker processes; only verdicts come back.  Oracle only."""
    name = "big-twins"
    uses_model = False

    def cases(self, ctx, budget):
        M = 1 << 20
        specs = [
            {"unit": [0xE9], "count": 3 * M},                # 3 Mi chars: ~3 Mi chars raw (6 MiB as bytes), 18 Mi chars escaped
            {"unit": [0x1F600], "count": 3 * M // 2},        # astral: 12 characters per character when escaped
            {"unit": [97], "count": M},                       # plain 1 MiB
            {"unit": [0x2028, 0x22, 0x5C, 0xE9], "count": M // 4},
            {"unit": [0xE9], "count": M, "wrap": False},
        ]
        if budget != "quick":
            specs += [{"unit": [0x4E2D, 97], "count": 4 * M}, {"unit": [97], "count": 17 * M}, {"unit": [0xE9, 0x1F600], "count": M}]
        return [{"g": "big-twins", "spec": sp} for sp in specs]

    def impl_batch(self, cases):
        wo, ws = J.worker(block_orjson=False), J.worker(block_orjson=True)
        specs = [c["spec"] for c in cases]
        wo.send({"op": "bigtwins", "specs": specs})
        ws.send({"op": "bigtwins", "specs": specs})
        a, b = wo.recv()["out"], ws.recv()["out"]
        return [{"o": x, "s": y} for x, y in zip(a, b)]

    def oracle(self, case, o):
        for tag, r in o.items():
            name = "orjson importable" if tag == "o" else "orjson absent"
            if r.get("own_exc") or r.get("own_roundtrip") is False:
                return (f"big-document/own/{tag}", f"a {r['chars']}-character string does not survive dumps+loads ({name}): {r.get('own_exc')}", None)
            for k in ("raw/str", "raw/bytes", "escaped/str", "escaped/bytes"):
                if r.get(k) is not True:
                    sp, form = k.split("/")
                    return (f"big-document/{k}/{tag}", f"a {r['chars']}-character string written as the {'orjson' if sp == 'raw' else 'stdlib'} encoder writes it "
                            f"({r['text_chars'][sp]} characters of text), given as {form}: {r.get(k)} ({name})", {"decodes_to": "the value"})
        return None

    def kind(self, case, o):
        return f"big-twins/{o['o'].get('chars')}chars/escaped={o['o'].get('text_chars', {}).get('escaped')}"

    def shrink_candidates(self, case):
        sp = case["spec"]
        for c in (sp["count"] // 2, sp["count"] - (1 << 16)):
            if c > 0:
                yield {"g": "big-twins", "spec": dict(sp, count=c)}


INDENTED = {"indent2", "indent0", "indent4", "file-indent2"}
FILE_ENCODINGS = ["utf-8", "ascii", "cp1252", "latin-1", "utf-16", "utf-8-sig", "cp437"]
HOWS = ["indent2", "indent0", "indent4", "indentNone", "compact-seps", "utf8", "sort_keys", "default-str", "pydantic-base", "file", "file-indent2"]
READS = ["str", "bytes", "bytearray", "file-text", "file-bytes"]


class EntryPoints(Suite):
    """the other entry points and call forms of fast_json: dumps with the keyword arguments callers pass
    (indent, separators, ensure_ascii, sort_keys, default), dump() to a text stream, loads of bytes /
    bytearray, load() from text and binary streams.  Oracle only (round trip in all four backend pairs;
    no raw line break unless the caller asked for indentation)."""
    name = "entry-points"
    uses_model = False

    def cases(self, ctx, budget):
        rng = ctx.sub_rng("c17-entry", budget)
        vals = [v for _, v in J.directed() if not J.is_compact(v)][:: (6 if budget == "quick" else 1)]
        vals += [v for tag, v in J.directed_hardening() if tag in ("falsy", "twin", "text")][:: (5 if budget == "quick" else 1)]
        vals += [J.chain("alt", d, {"s": J.cps("é")}) for d in (200, 1100)]
        srng = ctx.sub_rng("c17-entry-syntax", budget)
        vals += [{"o": [[J.cps(t), {"a": [J.S(t)]}]]} for t in J.syntax_texts(srng, 10 if budget == "quick" else 300)[:: (3 if budget == "quick" else 1)]]
        vals += [J.rand_value(rng, rng.choice([3, 4, 5]), 0.0, 3) for _ in range(150 if budget == "quick" else 3000)]
        out = []
        for i, v in enumerate(vals):
            hows = HOWS if budget != "quick" else [HOWS[i % len(HOWS)], HOWS[(i * 7 + 3) % len(HOWS)]]
            if J.depth(v) > 400:
                # indentation and dump() go through the stdlib's pure-Python encoder, whose depth is bounded by the
                # interpreter's (much lower) Python recursion limit under both configurations: nothing to demand there
                hows = [h for h in HOWS if h not in INDENTED and not h.startswith("file")]
            for how in hows:
                out.append({"g": "entry/" + how, "v": v, "how": how, "read": READS[(i + len(how)) % len(READS)]})
        deep = J.chain("arr", 1100, {"i": 0})  # beyond orjson's decoder limit: load() falls back after the stream was consumed
        for read in READS + ["file-noseek"]:
            out.append({"g": "entry/plain-deep", "v": deep, "how": "plain", "read": read})
            out.append({"g": "entry/plain", "v": vals[len(read) % len(vals)], "how": "plain", "read": "file-noseek"})
        # dump() to / load() from text files in several encodings (the stdlib writes ASCII only, so every encoding works)
        nonascii = [v for v in vals if any(c >= 0x80 for c in J.all_cps(v))] or vals
        for k, enc in enumerate(FILE_ENCODINGS):
            for v in (nonascii[k::7][:6] + vals[k::11][:4]) if budget == "quick" else (nonascii + vals[k::3]):
                if J.depth(v) <= 400:
                    out.append({"g": "entry/file@" + enc, "v": v, "how": "file@" + enc, "read": "file@" + enc})
        for j, read in enumerate(READS):  # plain dumps, every way of reading
            for v in vals[j::5][:60]:
                out.append({"g": "entry/plain", "v": v, "how": "plain", "read": read})
        return out

    def impl_batch(self, cases):
        wo, ws = J.worker(block_orjson=False), J.worker(block_orjson=True)
        items = [{"v": c["v"], "how": c["how"]} for c in cases]
        do = wo.call({"op": "dumps2", "items": items, "debug_every": 3})["out"]
        ds = ws.call({"op": "dumps2", "items": items, "debug_every": 3})["out"]
        reads, idx = [], []
        for i, (c, a, b) in enumerate(zip(cases, do, ds)):
            for tag, r in (("o", a), ("s", b)):
                if "text" in r:
                    idx.append((i, tag))
                    reads.append({"t": r["text"], "how": c["read"]})
                elif "hex" in r:
                    idx.append((i, tag))
                    reads.append({"t": r["hex"], "how": c["read"]})
        lo = wo.call({"op": "loads2", "items": reads, "debug_every": 4})["out"]
        ls = ws.call({"op": "loads2", "items": reads, "debug_every": 4})["out"]
        obs = [{"dumps": {"o": a, "s": b}, "loads": {}} for a, b in zip(do, ds)]
        for (i, tag), a, b in zip(idx, lo, ls):
            obs[i]["loads"][tag + "o"] = a
            obs[i]["loads"][tag + "s"] = b
        return obs

    def oracle(self, case, o):
        v, how = case["v"], case["how"]
        fits = J.fits64(v)
        for tag in ("o", "s"):
            d = o["dumps"][tag]
            name = "orjson importable" if tag == "o" else "orjson absent"
            if "hex" in d:
                continue
            if "text" not in d:
                if fits:
                    return (f"dumps-raises/{how}/{tag}", f"encoding via {how} raises {d.get('exc')} ({name})", None)
                continue
            if how not in INDENTED and ("\n" in d["text"] or "\r" in d["text"]):
                return (f"raw-line-break/{how}/{tag}", f"compact encoding via {how} contains a raw line break ({name})", None)
        if not fits:
            return None
        want = core.canon(J.unordered(J.normal(v) if J.is_compact(v) else v))
        for wtag in ("o", "s"):
            for rtag in ("o", "s"):
                got = o["loads"].get(wtag + rtag)
                pair = (f"written via {how} with {'orjson' if wtag == 'o' else 'stdlib'}, read via {case['read']} with "
                        f"{'orjson' if rtag == 'o' else 'stdlib'}")
                if got is None or "v" not in got:
                    return (f"loads-raises/{case['read']}/{wtag}{rtag}", f"decoding raises {got and got.get('exc')} ({pair})", {"value": v})
                if core.canon(J.unordered(got["v"])) != want:
                    return (f"roundtrip/{how}/{case['read']}/{wtag}{rtag}", f"decoded value differs from the encoded one ({pair})", {"value": v})
        return None

    def kind(self, case, o):
        return f"{case['g']}/read-{case['read']}"

    def shrink_candidates(self, case):
        for v in J.shrink_value(case["v"]):
            yield dict(case, v=v)


def _skeleton(rng, depth_left=3):
    """a float-free value whose leaves may be float TOKENS ({"tok": text}); returns (skeleton, expected transport)"""
    r = rng.random()
    if depth_left <= 1 or r < 0.4:
        k = rng.randrange(6)
        if k == 0:
            x = rng.choice([None, True, False])
            return x, x
        if k == 1:
            x = {"i": J.rand_int(rng)}
            return x, x
        if k == 2:
            tok = rng.choice(J.FLOAT_TOKENS)
            return {"tok": tok}, {"f": float(tok).hex()}
        x = {"s": J.rand_cps(rng)}
        return x, x
    if r < 0.7:
        parts = [_skeleton(rng, depth_left - 1) for _ in range(rng.randrange(0, 4))]
        return {"a": [p[0] for p in parts]}, {"a": [p[1] for p in parts]}
    keys, ms, es = set(), [], []
    for _ in range(rng.randrange(0, 4)):
        k = tuple(J.rand_cps(rng, 4))
        if k in keys:
            continue
        keys.add(k)
        a, b = _skeleton(rng, depth_left - 1)
        ms.append([list(k), a])
        es.append([list(k), b])
    return {"o": ms}, {"o": es}


class ForeignTexts(Suite):
    """valid RFC 8259 texts that neither encoder writes (whitespace between tokens, `\\/`, upper-case and
    unnecessary `\\uXXXX` escapes, surrogate-pair escapes, exponent spellings, `-0`): decoding must not
    depend on the backend and must give the value the text denotes; compared with the model's `dec`."""
    name = "foreign-texts"

    def cases(self, ctx, budget):
        rng = ctx.sub_rng("c17-foreign", budget)
        out = []
        for _ in range(400 if budget == "quick" else 8000):
            sk, want = _skeleton(rng, rng.choice([2, 3, 4]))
            out.append({"g": "foreign", "text": J.render_foreign(sk, rng), "v": want, "read": rng.choice(READS)})
        return out

    def impl_batch(self, cases):
        wo, ws = J.worker(block_orjson=False), J.worker(block_orjson=True)
        items = [{"t": c["text"], "how": c["read"]} for c in cases]
        lo = wo.call({"op": "loads2", "items": items})["out"]
        ls = ws.call({"op": "loads2", "items": items})["out"]
        return [{"o": a, "s": b} for a, b in zip(lo, ls)]

    def model_line(self, case):
        return {"m": "json", "op": "dec", "t": J.cps(case["text"])}

    def model_obs(self, out, case):
        r = out.get("r")
        return None if r is None else {"v": J.from_model(r["v"])}

    def compare(self, case, o, m):
        if m is None:
            return "the model's decoder rejects a text both backends are expected to accept"
        for tag in ("o", "s"):
            if "v" not in o[tag] or core.canon(o[tag]["v"]) != core.canon(m["v"]):
                return f"loads ({tag}) differs from the model's decoder"
        return None

    def oracle(self, case, o):
        want = core.canon(J.unordered(case["v"]))
        for tag in ("o", "s"):
            name = "orjson importable" if tag == "o" else "orjson absent"
            if "v" not in o[tag]:
                return (f"foreign-rejected/{tag}", f"a valid JSON text is rejected ({name}, read via {case['read']}): {o[tag].get('exc')}", {"value": case["v"]})
            if core.canon(J.unordered(o[tag]["v"])) != want:
                return (f"foreign-misread/{tag}", f"a valid JSON text decodes to a different value ({name}, read via {case['read']})", {"value": case["v"]})
        return None

    def kind(self, case, o):
        return f"foreign/read-{case['read']}"


_codec = Codec()


def suites():
    return [_codec, EntryPoints(), ForeignTexts(), BigTwins()]


def extra(ctx, tier):
    """note which instance of the model's encoder family the code was seen to use"""
    if _codec.limit_note:
        ctx.notes.append(_codec.limit_note)
    for tag, name in (("o", "orjson importable, integers within 64 bits"), ("o/beyond64", "orjson importable, an integer beyond 64 bits"),
                      ("s", "orjson absent, integers within 64 bits"), ("s/beyond64", "orjson absent, an integer beyond 64 bits")):
        st = dict(_codec.styles.get(tag, {}))
        n = st.pop("#cases", 0)
        always = sorted(k for k, c in st.items() if c == n)
        if n:
            ctx.notes.append(
                f"dumps ({name}): {n} texts; encoder styles matching every text: {always}; "
                f"identical to the pinned configuration's text: {_codec.pinned_hits.get(tag, 0)}"
            )
