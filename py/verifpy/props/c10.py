"""C10 — typed protocol models are lossless views of the wire and use wire names."""
from __future__ import annotations

from .. import core, schema_h, translate_schema
from ..runner import Suite
from ..schema_suites import HelperFlows, Constructors, FreshOrder, ModelCases, attr_name_members, gen, lossless, py_conforms

MANIFEST = dict(
    text="Lean 4 theorems about the executable model of validate + model_dump(by_alias, exclude_none) over the regenerated field tables of every McpPydanticBase subclass: for every conforming wire value (any depth, any size) every member of the input is preserved exactly under its wire name, unknown members included, and every added member is a declared default; plus a decide-checked table theorem over every .model_dump( / .model_dump_json( call found in src/ by the AST translator: a call whose result can reach the wire and whose receiver class reaches an aliased field passes by_alias=True. Correspondence on both backends and the Lean model, and a dynamic cross-check that executes the library-side serialisers (elicitation request builder, tool_result_to_dict, content_to_dict, roots / sampling / completion / initialize builders) with every alias populated.",
    note="Trusted: Lean kernel, the introspection + AST translators, the correspondence harness. Receiver classes of dump sites are resolved statically from annotations/constructors; unresolved sites are listed in the evidence and covered only where a helper recipe executes them. Pydantic's behaviour is sampled, not proved.",
    technique="Lean 4 proof over a model with schemas and call-site table regenerated from source + three-way differential run + execution of the library's serialisers",
    design="5/C10",
)
GEN = ["Schemas", "DumpSites"]
SUPP_GEN = ["Builders"]
SUPP_THEOREMS = [
    "c10_builders_fit_schemas",
    "c10_names_apart",
    "c10_construct_by_attribute_names",
    "c10_no_none_members",
    "c10_helpers_emit_wire_form",
    "c10_parse_tables_fit_schemas",
    "c10_parse_dispatch_lossless",
    "c10_complete_enum_exact",
]
THEOREMS = [
    "c10_translated",
    "c10_lossless",
    "c10_added_are_defaults",
    "c10_dump_sites_use_wire_names",
]
RULE = (
    "lossless: every protocol class x every optional-member subset (<=4; seeded beyond) x extras {none, random, "
    "sibling-variant names, attribute names of aliased members}, every alias populated at least twice per class; "
    "validate then model_dump(by_alias=True, exclude_none=True) under both backends and on the Lean model, oracle "
    "walks input and output along the schema.  dump-sites: every library-side serialiser with a recipe, executed "
    "under both backends with instances whose aliased members are populated; emitted keys vs wire names, and vs the "
    "Lean dump with the site's static flags.  non-trivial = distinct accepted wire objects"
)
TRUSTED = [
    "Gen/Schemas.lean (import-time introspection under both backends) and Gen/DumpSites.lean (AST of every file under src/)",
    "static receiver-class resolution of dump sites (annotations, constructor assignments, self.<attr> from __init__)",
]
ASSUMPTIONS = [
    "Pydantic v2 validation/serialisation behaves as sampled",
    "spec-valid = members carry the JSON type their declared type denotes, tags and required members present, optional members absent rather than null; numbers are compared by value (1 and 1.0 are the same JSON number)",
    "a dump site whose receiver class cannot be resolved statically is outside c10_dump_sites_use_wire_names (listed in the evidence notes)",
]


def lossless_oracle(case, o):
    """C10 on one input: a spec-valid wire object has a typed view (it is accepted) and the view
    re-serialises to an object that preserves every member and adds nothing but declared defaults —
    inside free-form Dict[str, Any] / Any payloads nothing is added or removed at any depth"""
    if True:  # (kept as a block: one oracle shared by the batch and the fresh-process suites)
        S = schema_h.schema()
        t = {"k": "ref", "cls": case["cls"]}
        both = attr_name_members(case) == "both"
        for side in ("pydantic", "fallback"):
            b = o[side]
            if not b.get("ok"):
                if attr_name_members(case) is None and py_conforms(S, t, case["wire"]):
                    return ("valid-object-rejected", f"{case['cls']}: a spec-valid wire object is rejected by the {side} backend "
                            f"({b.get('exc')}), so it has no typed view", {"accepted": True})
                if both:
                    return ("alias-and-attribute-name-members", f"{case['cls']}: rejected by the {side} backend", None)
                continue
            if "dump" not in b:
                continue
            r = lossless(S, t, case["wire"], b["dump"])
            if r is None:
                # REUSE / other wire forms of the same view: the JSON text form, model_dump_mcp, a second
                # dump, a second validation of the same dict, validation of the instance itself — each
                # must be the same lossless value; validation must leave the caller's dict untouched
                forms = {k: (b.get("variants") or {}).get(k) for k in ("json", "mcp", "again", "after_edit_of_dump", "after_edit_of_plain_dump")
                         if k in (b.get("variants") or {})}
                for k in ("second", "from_instance", "fresh_after_instances_edited", "value_subclasses", "enum_members"):
                    if k in b:
                        forms[k] = b[k]
                if r is None and "shared_subobjects" in b and not schema_h.same(b["shared_subobjects"], b.get("tree_of_the_same")):
                    r = ("shared-subobject-changes-the-dump", f"an object whose members share sub-objects dumps as {str(b['shared_subobjects'])[:120]}, "
                         f"its tree copy as {str(b.get('tree_of_the_same'))[:120]}")
                for k, v in sorted(forms.items()):
                    if r is not None:
                        break
                    if not schema_h.same(v, b["dump"]):
                        r = lossless(S, t, case["wire"], v) or ("wire-form-not-repeatable", f"form '{k}' is {str(v)[:120]}")
                        r = (r[0], f"[{k}] {r[1]}")
                        if k in ("value_subclasses", "enum_members"):
                            # the same object with str / int values of a SUBCLASS type (marker types, enum members)
                            r = ("subclass-value-changes-the-view", f"[{k}] {str(v)[:160]}")
                        break
                if r is None and b.get("input_intact") is False:
                    r = ("input-modified", "validation changed the caller's dict")
                if r is None and b.get("reuse_error"):
                    r = ("valid-object-rejected", f"the same object is rejected when validated a second time ({b['reuse_error']})")
            if r is not None:
                key, what = r
                if attr_name_members(case) == "both":
                    key = "alias-and-attribute-name-members"
                return (key, f"{case['cls']} under the {side} backend: {what}", {"preserved": case["wire"]})
        return None


class Lossless(ModelCases):
    name = "lossless"
    compare_tree = False

    def oracle(self, case, o):
        return lossless_oracle(case, o)


class Order(FreshOrder):
    def step_oracle(self, step, o):
        return lossless_oracle(step, o)

    def history_oracle(self, step, o):
        """whatever was dumped before, and in which mode: every by_alias dump and every wire-name site of
        the library gives the lossless wire form"""
        S = schema_h.schema()
        t = {"k": "ref", "cls": step["cls"]}
        for side in ("pydantic", "fallback"):
            b = o[side]
            if not b.get("ok"):
                continue
            for i, (mode, val) in enumerate(b["dumps"]):
                if mode not in ("wire", "wire_json", "mcp", "site"):
                    continue
                r = lossless(S, t, step["wire"], val) if not (isinstance(val, dict) and "$raised" in val) else ("dump-raises", str(val))
                if r:
                    return ("wire-form-depends-on-dump-history", f"{step['cls']} under the {side} backend, dump #{i + 1} ({mode}) after "
                            f"{[m for m, _ in b['dumps'][:i]]}: {r[1]}"[:300], None)
        return None


HELPER_SITES = {
    "elicitation-request": ("ElicitationHandler.request_user_input", "params"),
    "tool-result-to-dict": ("tool_result_to_dict", "result"),
    "content-to-dict": ("content_to_dict", "content"),
    "roots-list-response": ("handle_roots_list_request", "result"),
    "sampling-request": ("send_sampling_create_message", "msg"),
    "completion-request": ("send_completion_complete", "ref"),
    "server-initialize-result": ("ProtocolHandler._handle_initialize", "self.server_info"),
}
_SITES = {}


def static_sites():
    if "sites" not in _SITES:
        views = translate_schema.load_views()
        sites, _ = translate_schema.find_dump_sites(core.REPO / "src" / "chuk_mcp", views["fallback"]["classes"])
        _SITES["sites"] = sites
    return _SITES["sites"]


def site_of(helper):
    func, recv = HELPER_SITES[helper]
    for s in static_sites():
        if s["func"] == func and s["recv"] == recv:
            return s
    return None


class DumpSites(Suite):
    """dynamic cross-check of the static dump-site table: run the library's own serialisers with
    instances whose aliased members are populated and look at the keys that leave"""

    name = "dump-sites"

    def cases(self, ctx, budget):
        S = schema_h.schema()
        G = gen()
        rng = ctx.sub_rng("dump-sites")
        n = 25 if budget == "quick" else 400
        out = []

        def full(cid):  # every optional member present somewhere along the way, aliases always
            al = {f["name"] for f in G.aliased(cid)}
            opt = [f["name"] for f in G.optional_fields(cid)]  # a list: set iteration order is per-process
            present = al | {x for x in opt if rng.random() < 0.6}
            return G.obj(cid, rng, present=present, extras=rng.choice(["none", "random"]))

        def have(*ids):
            return all(i in S for i in ids)

        for _ in range(n):
            if have("ElicitationParams"):
                out.append({"helper": "elicitation-request", "cls": "ElicitationParams", "wire": full("ElicitationParams")})
            tr = "ToolResult@protocol.types.tools"
            if have(tr, "StructuredContent"):
                w = G.obj(tr, rng, present={"structuredContent", "content", "isError"}, extras="none")
                w["structuredContent"] = [full("StructuredContent") for _ in range(rng.randrange(1, 3))]
                out.append({"helper": "tool-result-to-dict", "cls": tr, "wire": w})
            for cid in ("TextContent", "ImageContent", "AudioContent", "EmbeddedResource"):
                if have(cid) and rng.random() < 0.4:
                    out.append({"helper": "content-to-dict", "cls": cid, "wire": full(cid)})
            if have("ListRootsResult", "Root"):
                out.append({"helper": "roots-list-response", "cls": "ListRootsResult",
                            "wire": {"roots": [full("Root") for _ in range(rng.randrange(0, 3))]}})
            if have("SamplingMessage", "ModelPreferences"):
                out.append({"helper": "sampling-request", "cls": "SamplingMessage", "wire": full("SamplingMessage"),
                            "prefs": rng.choice([None, full("ModelPreferences")])})
            if have("ResourceReference", "PromptReference", "ArgumentInfo"):
                cid = rng.choice(["ResourceReference", "PromptReference"])
                out.append({"helper": "completion-request", "cls": cid, "wire": full(cid), "arg": full("ArgumentInfo")})
            if have("ServerInfo", "ServerCapabilities"):
                out.append({"helper": "server-initialize-result", "cls": "ServerInfo", "wire": full("ServerInfo"),
                            "caps": full("ServerCapabilities")})
        return out

    def impl_batch(self, cases):
        return schema_h.both("helper", cases)

    def _model_part(self, case, emitted):
        h = case["helper"]
        if not isinstance(emitted, dict):
            return None
        if h == "sampling-request":
            return (emitted.get("messages") or [None])[0]
        if h == "completion-request":
            return emitted.get("ref")
        if h == "server-initialize-result":
            return emitted.get("serverInfo")
        return emitted

    def model_line(self, case):
        s = site_of(case["helper"])
        if s is None:
            return None
        return {"m": "schema", "op": "dump", "cls": case["cls"], "j": schema_h.enc(case["wire"]),
                "byAlias": s["byAlias"], "exclNone": s["exclNone"]}

    def model_obs(self, out, case):
        if "driver_error" in out or not out.get("ok"):
            return {"error": out.get("driver_error") or out.get("why")}
        return {"dump": schema_h.dec(out["dump"])}

    def compare(self, case, o, m):
        if "error" in m:
            return "model: " + str(m["error"])
        for side in ("fallback", "pydantic"):
            r = o[side]
            if not r.get("ok"):
                # the recipe could not drive the helper (renamed, re-plumbed, raising): C10 says nothing
                # about that — the case is counted as not executed (see `kind`), never as a divergence
                return None
            if not schema_h.same(self._model_part(case, r["emitted"]), m["dump"]):
                return f"emitted value differs from the model's dump with the site's static flags ({side})"
        return None

    def oracle(self, case, o):
        for side in ("pydantic", "fallback"):
            r = o[side]
            if r.get("ok") and r.get("leaks"):
                lk = r["leaks"][0]
                return ("attribute-name-on-the-wire:" + case["helper"],
                        f"{HELPER_SITES[case['helper']][0]} emits member {lk['attr']!r} of a {lk['class']} at {lk['path']} "
                        f"instead of its wire name {lk['wire']!r} ({side} backend)",
                        {"wire_name": lk["wire"]})
        return None

    def kind(self, case, o):
        ran = o["pydantic"].get("ok") and o["fallback"].get("ok")
        return "dump-sites/" + case["helper"] + ("" if ran else "/not-executed")

    def nontrivial(self, case, o):
        return bool(o["pydantic"].get("ok") and o["fallback"].get("ok"))

    def shrink_candidates(self, case):
        from ..schema_suites import py_conforms, shrink_json

        S = schema_h.schema()
        G = gen()
        c = S.get(case["cls"])
        req = {G.wire(f) for f in c["fields"] if G.on_wire_required(case["cls"], f)} if c else set()
        for x in shrink_json(case["wire"], keep=req):
            if py_conforms(S, {"k": "ref", "cls": case["cls"]}, x):
                yield {**case, "wire": x}
        if case.get("prefs") is not None:
            yield {**case, "prefs": None}


def extra(ctx, tier):
    """which wire-feeding sites of the static table are exercised by a recipe"""
    from ..schema_suites import HelperFlows
    ctx.notes.extend("supplementary helper flow: " + n for n in HelperFlows.supp_notes)
    exercised = {HELPER_SITES[h][0] for h in HELPER_SITES}
    for s in static_sites():
        if s["feedsWire"]:
            tag = "exercised" if s["func"] in exercised else "not exercised by a recipe"
            res = ",".join(s["classes"]) if s["resolved"] else "receiver class unresolved"
            ctx.notes.append(f"dump site {s['file']}:{s['line']} {s['func']} ({s['recv']}; {res}; by_alias={s['byAlias']}): {tag}")


class Ctors(Constructors):
    """an object built by the library's own constructors dumps to a wire object of which the typed
    view is again lossless (validate(dump).dump == dump), in every wire form"""

    def oracle(self, case, o):
        if case.get("returns"):
            wire = next(iter(case["kwargs"].values()))
            return lossless_oracle({"cls": case["returns"], "wire": wire}, o)
        for side in ("pydantic", "fallback"):
            b = o[side]
            if not b.get("ok") or "dump" not in b or "roundtrip" not in b:
                continue
            forms = {"roundtrip": b["roundtrip"]}
            for k in ("json", "mcp", "again"):
                if k in (b.get("variants") or {}):
                    forms[k] = b["variants"][k]
            for k, v in sorted(forms.items()):
                if not schema_h.same(v, b["dump"]):
                    from ..schema_suites import first_diff

                    d = first_diff(b["dump"], v) or ("$", b["dump"], v)
                    return ("constructed-object-not-lossless",
                            f"{case['qual']} under the {side} backend: form '{k}' differs from the dump at {d[0]}: {d[1]!r} vs {d[2]!r}"[:300],
                            {"dump": b["dump"]})
        return None


class Flows(HelperFlows):
    def oracle(self, case, o):
        return self.wire_oracle(case, o)


def suites():
    return [Flows(), Lossless(), DumpSites(), Order(), Ctors()]
