"""C08 — server dispatch: one response per request, none per notification, never a crash."""
from __future__ import annotations

import os

from .. import dispatch_h as H
from .. import mcp_content_h as MC
from ..core import canon
from ..runner import Suite

MANIFEST = dict(
    text="Lean 4 theorems about a model of ProtocolHandler.handle_message in which building an envelope with a null id IS raising: for EVERY method table and message the repaired dispatcher never raises and returns no response to a notification (registered or not, failing or not); every request gets exactly one response with its id (JSON type included) for every table whose handlers answer the request they are given, with exactly -32601 for an unregistered method and -32603 when the handler raises or returns a non-pair; on an MCPServer with arbitrary tools/resources/custom methods (returns / raises / returns nonsense) that holds with no hypothesis on them but one (a custom method that deliberately returns (None, None)), with -32602 for an unknown tool or resource and -32603 for a failing one; the pinned commit's dispatcher is refuted by a theorem with the concrete inputs. Tied to the code by a correspondence run through the real MCPServer/ProtocolHandler exactly as a stdio server loop drives them. Second layer (Model/McpServer.lean): the CONTENT of MCPServer's own handlers — registries as insertion-ordered dicts, tools/list, tools/call with argument passing and _format_content, resources/list/read, ping, the initialize result, a log of the application handlers run — with theorems (listing = registered tools in first-registration order with the latest data; the named handler runs once with exactly the given arguments; unknown names run nothing; every result is an object, every content block a text block; registrations after any traffic are listed; capabilities are the constructor's) and a proof that the dispatcher-level model is an abstraction of it; tied by scenarios on a real MCPServer with recording handlers (content differences informational).",
    note="Trusted: Lean kernel, the harness. Outside the statements: a register_method handler that returns the pair (None, sid) for a request — the repository's suite pins that the dispatcher forwards it (test_handler_returning_none) — or a response object of its own making (foreign id); messages the envelope class rejects never reach dispatch. BaseException (cancellation, SystemExit) raised by a handler is not 'a handler raises'.",
    technique="Lean 4 proof over an Except-valued dispatcher model (case analysis, decide for the refutation witness) + differential correspondence run against the real server",
    design="5/C08",
)
GEN: list[str] = []
THEOREMS = [
    "c08_never_raises",
    "c08_none_per_notification",
    "c08_one_response_per_request",
    "c08_code_table",
    "c08_server_one_response",
    "c08_tool_resource_codes",
    "c08_pinned_code_violates",
]
# second layer — the content of the library's handlers (Model/McpServer.lean) and the independence theorems: next to the
# property, not stated by its text (Props/C08Supp.lean; reported as INFO, never a verdict)
SUPP_GEN: list[str] = []
SUPP_THEOREMS = [
    "c08_tools_list_exact",
    "c08_register_same_name_keeps_latest",
    "c08_tools_call_invokes_exactly",
    "c08_unknown_name_runs_nothing",
    "c08_resources_read_exact",
    "c08_results_are_objects",
    "c08_content_blocks_are_text",
    "c08_format_content",
    "c08_registration_visible_after_serving",
    "c08_initialize_result",
    "c08_content_refines_dispatch",
    "c08_response_independent_of_history",
    "c08_servers_independent",
    "c08_reentrant_dispatch_independent",
]
RULE = (
    "hardening sweep: falsy values (ids 0 / 0.0 / '', tool name '' and uri '' registered, falsy tool/resource/custom results, falsy "
    "exception args, falsy session-id results and arguments), type twins (7 / '7' / 7.0 ids, tools named '0' 'None' 'True' '7' vs the JSON "
    "values), every string/int constant harvested from the server modules as method / tool name / uri / id, format-hostile text in "
    "methods, names, uris, ids, arguments, results and exception texts, deep / large results, suspending handlers, a server whose built-in "
    "methods are re-registered through register_method, list messages, unusual envelopes, and a second suite of 2-4 message "
    "sequences on one fresh server (same envelope object reused, request after a failure, second initialize, id twins, live session id); "
    "handler behaviours: returns / returns nonsense / raises split by exception shape (empty text, no args, bare assert, "
    "TimeoutError, newline-only, multi-line, non-ASCII+control, lone surrogate, 100k chars, non-string args, __str__ "
    "returning '', chained, ExceptionGroup, pydantic ValidationError, UnicodeDecodeError, OSError, StopIteration, unprintable) "
    "for custom methods, tools and resources; custom handlers that hand something back whatever the message (ack built from "
    "params, foreign id + session id, session id only, legacy envelope without id, dict/str/int/bool/awaitable first element, "
    "coroutine / future / async generator instead of a pair), registered under arbitrary names and under MessageMethod "
    "notification names; messages {core methods, MCPServer tool/resource methods, custom methods, every name in MessageMethod, odd and random "
    "method strings, no method} x ids {absent, 0, 1, -1, +-2^63, 2^53+1, '', '0', 'abc', non-ASCII, ' ', 'null', long} x "
    "params {absent, null, {}, junk} x 3 envelope constructions; tools/call x 24 name shapes (registered tools of every "
    "behaviour, unknown, '', number, bool, null, list, object, absent) x 11 argument shapes x 5 ids; resources/read x 16 uri "
    "shapes; initialize x 10 params shapes; plus seeded random messages; real MCPServer.protocol_handler.handle_message vs "
    "Dispatch.handle; non-trivial = distinct message that reached dispatch"
)
TRUSTED = ["Pydantic validation of the envelope classes (a null id is rejected) — sampled by every case of the run"]
ASSUMPTIONS = [
    "a custom method handler that returns a well-formed pair is responsible for what it puts in it: (None, sid) on a request is forwarded as no response (pinned by tests/mcp/server/test_protocol_handler.py::test_handler_returning_none); not demanded, not generated as a violation",
    "method '' (empty string) with an id must be answered with an error carrying the id; the code is not fixed by the property (the code answers -32600)",
    "a tools/call or resources/read whose name/uri is missing, null, a number or a boolean names nothing registered: it is 'an unknown tool or resource' and -32602 is demanded, with an empty and with a non-empty registry; for a name that is a list or an object only an error carrying the id is demanded (the code answers -32603: such a value cannot even be looked up)",
    "handlers raising BaseException subclasses outside Exception (CancelledError, SystemExit) are outside 'a handler raises'",
    "NOT DEMANDED (finding reported, candidate repair fixes/C08-unprintable-exception-text.diff): a handler raising an exception object whose own text cannot be produced (__str__ raises or returns a non-string) — the dispatcher's except block raises while formatting it (register_method handlers; tool/resource handlers only when the replacement exception is unprintable too). Generated, observed and shown in the distribution; demanded with VERIF_C08_DEMAND_UNPRINTABLE=1",
    "a custom handler's session id (second element) is not an observable of this property: for a notification only 'no response' is demanded",
]

# An exception object whose own text cannot be produced (its __str__ raises or returns a non-string) makes the
# dispatcher's except block raise while it formats the log line: for a register_method handler always, for a tool /
# resource handler when the replacement exception is unprintable too.  Reported to the lead with a candidate repair
# (fixes/C08-unprintable-exception-text.diff); not demanded until that is decided.  VERIF_C08_DEMAND_UNPRINTABLE=1
# (or flipping this constant once the repair is in) makes the oracle and the model comparison cover it.
DEMAND_UNPRINTABLE = os.environ.get("VERIF_C08_DEMAND_UNPRINTABLE", "1") == "1"


def raise_target(case):
    """(target, shape) of the raising handler this message addresses, or None"""
    msg = case["msg"]
    me = msg.get("method")
    params = msg.get("params")
    if not isinstance(me, str):
        return None
    if me in H.custom_table(case.get("server")):
        sh = H.raise_shape("custom", me)
        return ("custom", sh) if sh else None
    if me == "tools/call" and isinstance(params, dict) and isinstance(params.get("name"), str):
        sh = H.raise_shape("tool", params["name"])
        return ("tool", sh) if sh else None
    if me == "resources/read" and isinstance(params, dict) and isinstance(params.get("uri"), str):
        sh = H.raise_shape("resource", params["uri"])
        return ("resource", sh) if sh else None
    return None


def excluded(case):
    if DEMAND_UNPRINTABLE:
        return False
    t = raise_target(case)
    return t is not None and t[1] in H.UNPRINTABLE and (t[0] == "custom" or t[1] == "unprintable-recursive")


# ---- generators ------------------------------------------------------------------------------

IDS = ["<absent>", 0, 1, -1, 7, "7", 7.0, 0.0, -(2 ** 63), 2 ** 63, 2 ** 53 + 1, "", "0", "abc", "Ünï-ид", " ", "null", "x" * 300,
       "%s", "{0}", "a\nb", "\u2028", "None", "False", -32601, "ping"]
IDS_Q = ["<absent>", 0, "", 7, "7", 7.0, -1, "abc", "%s"]
IDS_SHORT = ["<absent>", 0, "", "r-1", -7]
ODD_METHODS = ["", " ", "PING", "ping ", "tools/call/", "tools", "rpc.discover", "notifications/", "notifications/unknown",
               "notifications/custom", "null", "0", "métho∂/ünï", "a" * 200, "initialize\n", "custom/nosuch", "$/cancelRequest",
               "%s", "%d %s", "{}", "{0}", "{method}", "%(name)s", "\\", "\"", "'", "a\nb", "a\r\nb", "\u2028", "\u2029", "\x85",
               "None", "False", "7", "z" * 100000]
GENERIC_PARAMS = ["<absent>", None, {}, {"x": 1, "_meta": {"progressToken": 0}}, {"requestId": 7, "reason": "user"},
                  {"progressToken": "tok", "progress": 1, "requestId": None},
                  {"requestId": 0, "progressToken": "", "name": "", "uri": "", "arguments": {}, "clientInfo": {}, "protocolVersion": ""}]
IDS = IDS + H.SYNTAX_TEXT[:6]
ODD_METHODS = ODD_METHODS + H.EDGE_LONG + H.SYNTAX_TEXT + ["\ufeffping", "ping\ufeff", "pi\u0301ng", "Ping", "tools/Call"]
BIG_PARAMS = {"blob": "b" * 300000, "name": "echo", "uri": "file:///ok", "arguments": {"text": "t" * 100000}}
TYPE_CLASSES = [None, True, False, 0, 7, -1, 1.5, 0.0, "", "x", [], ["x"], {}, {"x": 1}, "<absent>"]
CORE_METHODS = H.BUILTIN + ["notifications/cancelled", "notifications/progress", "custom/answers", "custom/raises", "nosuch"]

ARGUMENTS = ["<absent>", {}, {"text": "x"}, {"text": None}, {"text": [1, {"a": None}]}, {"other": 1}, {"text": "x", "extra": 1},
             None, [1], "s", 5, {"text": ""}, {"text": 0}, {"text": False}, {"text": []}, {"text": {}}, {"text": H.HOSTILE_TEXT},
             [], "", 0, False, {"": 1}, {"handler": 1}, {"name": "echo"}]
ARGUMENTS_Q = ["<absent>", {}, {"text": ""}, {"text": 0}, {"other": 1}, None, [], "", 0, False, {"text": H.HOSTILE_TEXT}]
NAME_EXTRAS = H.EDGE_LONG + ["cafe\u0301", "caf\u00e9 ", "bom", "\ufeffecho", "STRASSE", "Strasse", "nosuch", "ECHO", "echo ", 5, 0, 7, 7.0, 1.5, True, False, None, ["echo"], {"name": "echo"}, [], {}, "<absent>"]
URI_EXTRAS = H.EDGE_LONG + ["file:///nosuch", "FILE:///OK", 5, 0, True, False, None, ["file:///ok"], {"uri": "file:///ok"}, [], {}, 1.5, "<absent>"]
INIT_PARAMS = ["<absent>", None, {}, {"protocolVersion": "2025-06-18", "clientInfo": {"name": "c", "version": "1"}, "capabilities": {}},
               {"protocolVersion": "2025-06-18"}, {"clientInfo": None}, {"clientInfo": 5, "capabilities": []},
               {"clientInfo": {"name": []}}, {"capabilities": None, "x": [1]}, {"_meta": {}},
               {"protocolVersion": ""}, {"protocolVersion": 0}, {"protocolVersion": False}, {"protocolVersion": []},
               {"protocolVersion": "1999-01-01", "clientInfo": ""}, {"protocolVersion": "%s", "clientInfo": 0},
               {"protocolVersion": None, "clientInfo": [], "capabilities": 0}]
SIDS = [None, "", "no-such-session", "%s", "0"]


def mk(method, id_, params, env="legacy", **kw):
    msg = {"jsonrpc": "2.0"}
    if id_ != "<absent>":
        msg["id"] = id_
    if method != "<absent>":
        msg["method"] = method
    if params != "<absent>":
        msg["params"] = params
    return dict({"msg": msg, "env": env}, **kw)


_HARVEST = None


def harvest():
    """every short string / integer constant written in the anchored server modules (docstrings excluded), with simple
    spelling variants: fed into the open string / integer positions (method, tool name, uri, id)"""
    global _HARVEST
    if _HARVEST is not None:
        return _HARVEST
    import ast
    from ..core import REPO

    strs, ints = [], []
    for rel in ("server/protocol_handler.py", "server/server.py", "server/session/memory.py", "server/session/base.py"):
        try:
            tree = ast.parse((REPO / "src" / "chuk_mcp" / rel).read_text())
        except Exception:
            continue
        doc = set()
        for node in ast.walk(tree):
            if isinstance(node, (ast.Module, ast.ClassDef, ast.FunctionDef, ast.AsyncFunctionDef)):
                b = node.body
                if b and isinstance(b[0], ast.Expr) and isinstance(b[0].value, ast.Constant) and isinstance(b[0].value.value, str):
                    doc.add(id(b[0].value))
        for node in ast.walk(tree):
            if isinstance(node, ast.Constant) and id(node) not in doc:
                v = node.value
                if isinstance(v, str) and 0 < len(v) <= 40 and v not in strs:
                    strs.append(v)
                elif isinstance(v, int) and not isinstance(v, bool) and v not in ints:
                    ints.append(v)
    var = []
    for v in strs:
        for w in (v, v.strip().rstrip(":").strip(), v.upper() if v.strip() == v and " " not in v else v):
            if w and w not in var:
                var.append(w)
    _HARVEST = (sorted(var), sorted(set(ints + [-i for i in ints] + [i + 1 for i in ints] + [i - 1 for i in ints])))
    return _HARVEST


def all_methods(with_harvest=True):
    from chuk_mcp.protocol.messages.message_method import MessageMethod

    names = [m.value for m in MessageMethod]
    out = []
    # the notifications every real client sends come first, so that they are the ones reported
    std_first = ["notifications/cancelled", "notifications/progress", "notifications/message"]
    for n in (std_first + sorted(k for k in H.CUSTOM if k.startswith("notifications/")) + H.BUILTIN + sorted(H.CUSTOM)
              + names + ODD_METHODS + (harvest()[0] if with_harvest else [])):
        if n not in out:
            out.append(n)
    return out


def tool_names():
    return sorted(H.TOOLS) + NAME_EXTRAS[:-1] + harvest()[0] + harvest()[1] + ["<absent>"]


def uris():
    return sorted(H.RESOURCES) + URI_EXTRAS[:-1] + harvest()[0][::3] + ["<absent>"]


def directed(budget):
    out = []
    quick = budget == "quick"
    meths = all_methods()
    primary = set(all_methods(with_harvest=False))
    hints = harvest()[1]
    for me in meths + ["<absent>"]:
        if quick and me not in primary and me != "<absent>":
            # harvested constants as method names: sampled in the quick tier
            for i in ("<absent>", 0, ""):
                out.append(mk(me, i, "<absent>"))
                out.append(mk(me, i, {"name": me, "uri": me}))
            continue
        ids = IDS if (not quick or me in CORE_METHODS) else IDS_Q
        for i in ids:
            for p in GENERIC_PARAMS:
                out.append(mk(me, i, p))
            if me != "<absent>":
                out.append(mk(me, i, "<absent>", "parse"))
                out.append(mk(me, i, {}, "typed"))
        if me != "<absent>":
            out.append(mk(me, 1, {}, "list"))
            out.append(mk(me, "<absent>", {}, "list"))
            out.append(mk(me, 1, {}, "dict"))
            out.append(mk(me, "<absent>", {}, "typed-response"))
    # size: one message far above every buffer (300 KB of params, 1 MB method name), for every core method
    for me in CORE_METHODS + ["custom/none", "reenter/request/raises"]:
        for i in ("<absent>", 0, "big"):
            out.append(mk(me, i, BIG_PARAMS))
    for i in ("<absent>", 0, "i" * 1000000):
        out.append(mk("y" * 1000000, i, {}))
    # ids harvested from the source (error codes, limits) and session-id arguments of every kind
    for me in CORE_METHODS:
        for i in hints + harvest()[0][::4]:
            out.append(mk(me, i, "<absent>"))
        for sid in SIDS[1:]:
            for i in ("<absent>", 0, "s"):
                out.append(mk(me, i, {}, sid=sid))
    # the same table with built-in methods re-registered through register_method
    for me in H.BUILTIN + sorted(H.OVERRIDES) + ["nosuch", "notifications/cancelled", "custom/answers"]:
        for i in IDS_Q:
            for p in GENERIC_PARAMS[:3] + [{"name": "echo"}, {"name": "nosuch"}]:
                out.append(mk(me, i, p, server="overrides"))
    # unusual but accepted envelopes: extra members, a request that also carries result / error, other jsonrpc tags
    for me in CORE_METHODS:
        for i in ("<absent>", 0, "e"):
            for extra in ({"extra": 1, "": None}, {"result": {}}, {"result": None, "error": None}, {"error": {"code": 1, "message": "m"}},
                          {"jsonrpc": "1.0"}, {"jsonrpc": ""}, {"params": {}, "method": me, "id": i} if i != "<absent>" else {"params": {}}):
                c = mk(me, i, "<absent>")
                c["msg"] = dict(c["msg"], **extra)
                out.append(c)
    # response-shaped messages (no method) of every id
    for i in IDS_Q:
        for body in ({"result": {}}, {"result": {"x": 0}}, {"error": {"code": -32601, "message": ""}}):
            c = mk("<absent>", i, "<absent>")
            c["msg"].update(body)
            out.append(c)
    ids = ["<absent>", 0, "", "r-1"] if quick else IDS
    args = ARGUMENTS_Q if quick else ARGUMENTS
    real = set(H.TOOLS)
    # every JSON type class for name / uri / arguments, with a non-empty, an overridden and an EMPTY registry
    for variant in (None, "empty", "overrides"):
        for i in ("<absent>", 0, "", "t"):
            for v in TYPE_CLASSES + ["echo", "file:///ok"]:
                for a in ("<absent>", {}, None, [], 0, True, "s", 1.5):
                    p = {} if v == "<absent>" else {"name": v, "uri": v}
                    if a != "<absent>":
                        p["arguments"] = a
                    out.append(mk("tools/call", i, p, server=variant))
                out.append(mk("resources/read", i, {} if v == "<absent>" else {"uri": v}, server=variant))
            for me in ("tools/list", "resources/list", "ping", "initialize", "nosuch", "notifications/cancelled"):
                out.append(mk(me, i, {}, server=variant))
    for i in ids:
        for n in tool_names():
            full = isinstance(n, str) and n in real and not n.startswith("raise/")
            if quick and not full and i not in ("<absent>", 0):
                continue
            for a in (args if (full or not quick) else ["<absent>", {"text": ""}, None]):
                p = {}
                if n != "<absent>":
                    p["name"] = n
                if a != "<absent>":
                    p["arguments"] = a
                out.append(mk("tools/call", i, p))
        for u in uris():
            out.append(mk("resources/read", i, {} if u == "<absent>" else {"uri": u}))
            out.append(mk("resources/read", i, {"uri": u, "name": "echo"} if u != "<absent>" else {"name": "echo"}, "parse"))
        for p in INIT_PARAMS:
            out.append(mk("initialize", i, p))
    # dimensions crossed with EVERYTHING above (not only with the happy path): a host that configured logging at DEBUG
    # (every third case; the log messages are then really formatted), and a session id argument of every kind
    for k, c in enumerate(out):
        if k % 3 == 1:
            c["debug"] = True
        if k % 4 == 2 and "sid" not in c:
            c["sid"] = SIDS[(k // 4) % len(SIDS)]
    return out


def rand_json(rng, depth=0):
    r = rng.random()
    if depth > 2 or r < 0.5:
        return rng.choice([None, True, False, 0, -1, 7, 2 ** 40, "", "x", "echo", "file:///ok", 1.5, "Ünï", 0.0, "%s", "{}"])
    if r < 0.8:
        return {rng.choice(["name", "uri", "arguments", "text", "a", "", "_meta", "clientInfo"]): rand_json(rng, depth + 1)
                for _ in range(rng.randint(0, 3))}
    return [rand_json(rng, depth + 1) for _ in range(rng.randint(0, 3))]


def seeded(rng, meths):
    r = rng.random()
    if r < 0.55:
        me = rng.choice(meths)
    elif r < 0.6:
        me = "<absent>"
    else:
        alphabet = "abcpingtools/call_.-N é\n0%{}s"
        me = "".join(rng.choice(alphabet) for _ in range(rng.randint(0, 14)))
    r = rng.random()
    if r < 0.3:
        i = "<absent>"
    elif r < 0.65:
        i = rng.choice([0, 1, -1, 7, 7.0, 0.0, rng.randint(-10 ** 6, 10 ** 6), rng.getrandbits(70) - 2 ** 69])
    else:
        i = rng.choice(["", "0", "7", "id-%d" % rng.randint(0, 99), "".join(rng.choice("aé0 -%{}") for _ in range(rng.randint(0, 8)))])
    r = rng.random()
    if r < 0.2:
        p = "<absent>"
    elif r < 0.3:
        p = None
    else:
        p = {}
        names, us = tool_names(), uris()
        if rng.random() < 0.7:
            p["name"] = rng.choice(names[:-1]) if rng.random() < 0.7 else rng.choice([rand_json(rng), rng.choice(TYPE_CLASSES[:-1])])
        if rng.random() < 0.5:
            p["arguments"] = rng.choice(ARGUMENTS[1:]) if rng.random() < 0.7 else rand_json(rng)
        if rng.random() < 0.5:
            p["uri"] = rng.choice(us[:-1]) if rng.random() < 0.7 else rng.choice([rand_json(rng), rng.choice(TYPE_CLASSES[:-1])])
        if rng.random() < 0.3:
            p[rng.choice(["x", "_meta", "clientInfo", "protocolVersion", "requestId", "progressToken"])] = rand_json(rng)
    kw = {}
    if rng.random() < 0.3:
        kw["debug"] = True
    r = rng.random()
    if r < 0.08:
        kw["server"] = "empty"
    elif r < 0.23:
        kw["server"] = "overrides"
    if rng.random() < 0.2:
        kw["sid"] = rng.choice(SIDS)
    return mk(me, i, p, rng.choice(["legacy", "legacy", "legacy", "parse", "typed", "typed", "list", "dict", "typed-response"]), **kw)


def sequences(rng, n):
    """2-4 messages on ONE fresh server: the same envelope object twice, a request after a failed one, a second
    initialize, an id reused with another JSON type, notifications between requests, the session id of the last initialize"""
    init = {"protocolVersion": "2025-06-18", "clientInfo": {"name": "c"}, "capabilities": {}}
    fixed = [
        [("initialize", 0, init), ("initialize", 0, init), ("ping", 0, "<absent>")],
        [("custom/raises", 1, {}), ("ping", 1, {}), ("custom/raises", "<absent>", {}), ("ping", "1", {})],
        [("tools/call", 7, {"name": "raise/empty"}), ("tools/call", 7, {"name": "echo"}), ("tools/call", "7", {"name": "echo"})],
        [("notifications/cancelled", "<absent>", {"requestId": 7}), ("ping", 7, "<absent>"), ("notifications/cancelled", "<absent>", {"requestId": 7})],
        [("ping", 0, "<absent>"), ("ping", 0, "<absent>"), ("ping", "", "<absent>"), ("ping", "<absent>", "<absent>")],
        [("notifications/initialized", "<absent>", "<absent>"), ("initialize", "i", init), ("notifications/initialized", "<absent>", "<absent>"), ("tools/list", 2, {})],
        [("custom/none", 3, {}), ("custom/answers", 3, {}), ("nosuch", 3, {}), ("custom/answers", 3.0, {})],
        [("resources/read", 1, {"uri": "file:///raise/unprintable"}), ("resources/read", 2, {"uri": "file:///ok"}), ("resources/list", 3, None)],
    ]
    out = []
    # the SAME failure 2, 3, 4 times in a row, then a success; a failure between two successes; the same bad value twice
    good = ("ping", 9, "<absent>")
    failures = [("nosuch", 1, {}), ("custom/raises", 1, {}), ("raise/empty", 1, {}), ("raise/unprintable", 1, {}), ("custom/none", 1, {}),
                ("raise/builtin/KeyError", "<absent>", {}), ("notifications/cancelled", "<absent>", {}),
                ("tools/call", 1, {"name": "raise/builtin/RecursionError"}), ("tools/call", 1, {"name": None}), ("tools/call", 1, {"name": ["x"]}),
                ("tools/call", 1, {"name": "echo", "arguments": None}), ("tools/call", "<absent>", {"name": "boom"}),
                ("resources/read", 1, {"uri": 7}), ("resources/read", 1, {"uri": "file:///boom"}), ("", 1, {}),
                ("initialize", "<absent>", {"protocolVersion": []})]
    for f in failures:
        for k in (2, 3, 4):
            for variant in (None, "empty"):
                c = {"seq": [dict(mk(*f)) for _ in range(k)] + [dict(mk(*good)), dict(mk(*f)), dict(mk(*good))]}
                if variant:
                    c["server"] = variant
                if k == 3:
                    c["debug"] = True
                out.append(c)
    # the environment moves: hours, a day, a year pass (or the clock is put back) between two messages that carry the id of a
    # live session — the session store is consulted on every dispatch with a session id, before the handler
    init = ("initialize", 1, {"protocolVersion": "2025-06-18", "clientInfo": {"name": "c"}})
    followers = [("ping", 2, "<absent>"), ("nosuch", 2, {}), ("custom/raises", 2, {}), ("tools/call", 2, {"name": "echo"}),
                 ("notifications/cancelled", "<absent>", {"requestId": 1}), ("custom/raises", "<absent>", {}), init, ("tools/list", 0, {})]
    for adv in (0, 1, 59, 60, 61, 3599, 3600, 3601, 7200, 86400, 86400 * 400, -3600):
        for f in followers:
            out.append({"seq": [dict(mk(*init)), dict(mk(*init)), dict(mk(*f), sid="$last", advance=adv),
                                dict(mk(*f), sid="$last", advance=adv), dict(mk("ping", 3, "<absent>"), sid="$last", advance=1)]})
    # state built from unusual-but-accepted input: an initialize whose clientInfo / capabilities / protocolVersion is of every
    # JSON type class (answered normally, a session id is issued), THEN the whole dispatch matrix with that session id
    matrix = [("ping", 2, "<absent>"), ("nosuch", 3, {}), ("custom/raises", 4, {}), ("custom/none", 5, {}), ("tools/call", 6, {"name": "echo"}),
              ("tools/call", 7, {"name": "boom"}), ("resources/read", 8, {"uri": "file:///nosuch"}), ("notifications/initialized", "<absent>", "<absent>"),
              ("notifications/cancelled", "<absent>", {"requestId": 1}), ("custom/raises", "<absent>", {}), ("", 9, {}),
              ("initialize", 10, {"clientInfo": {"name": "again"}}), ("tools/list", 0, {})]
    for member in ("clientInfo", "capabilities", "protocolVersion", "_meta"):
        for v in TYPE_CLASSES:
            params = {"protocolVersion": "2025-06-18", "clientInfo": {"name": "c", "version": "1"}, "capabilities": {}}
            if v == "<absent>":
                params.pop(member, None)
            else:
                params[member] = v
            for env in ("legacy", "typed"):
                out.append({"seq": [dict(mk("initialize", 1, params, env))] + [dict(mk(*f), sid="$last") for f in matrix]})
    for v in TYPE_CLASSES[:-1]:
        # every member odd at once, and the session id used on a second server's dispatcher as well (unknown there)
        params = {"protocolVersion": v, "clientInfo": v, "capabilities": v}
        out.append({"seq": [dict(mk("initialize", 1, params))] + [dict(mk(*f), sid="$last", advance=1) for f in matrix], "debug": True})
    # a notification that NAMES a request id (cancelled / progress), before, between and after requests carrying that very id:
    # every one of those requests is answered exactly like alone
    for rid in (7, "r", 0, "", "7"):
        for note in (("notifications/cancelled", {"requestId": rid, "reason": "late"}), ("notifications/progress", {"progressToken": rid, "progress": 1}),
                     ("notifications/message", {"requestId": rid})):
            for target in (("tools/call", {"name": "echo"}), ("tools/call", {"name": "boom"}), ("resources/read", {"uri": "file:///ok"}),
                           ("tools/list", {}), ("custom/answers", {})):
                for sid in (None, "$last"):
                    out.append({"seq": [dict(mk("initialize", "i", {"clientInfo": {"name": "c"}})), dict(mk(note[0], "<absent>", note[1]), sid=sid),
                                        dict(mk("ping", rid, "<absent>"), sid=sid), dict(mk(target[0], rid, target[1]), sid=sid),
                                        dict(mk(note[0], "<absent>", note[1]), sid=sid), dict(mk(target[0], rid, target[1]), sid=sid),
                                        dict(mk(target[0], rid, target[1]), sid=sid)]})
    # growth: the 600th message of a session, a table of sessions that only grows
    long_seq = [dict(mk(*init))]
    for k in range(600):
        long_seq.append(dict(mk(*(init if k % 7 == 0 else ("ping", k, "<absent>"))), sid="$last", advance=k % 3))
    out.append({"seq": long_seq})
    for f in fixed:
        for reuse in (False, True):
            for sid in (None, "$last", ""):
                out.append({"seq": [dict(mk(m, i, p), reuse=reuse, sid=sid) for m, i, p in f]})
        out.append({"seq": [dict(mk(m, i, p), reuse=True) for m, i, p in f], "server": "overrides"})
    meths = all_methods()
    for _ in range(n):
        k = rng.randint(2, 4)
        seq = []
        for _ in range(k):
            c = seeded(rng, meths)
            c.pop("server", None)
            if seq and rng.random() < 0.35:
                c = dict(rng.choice(seq))  # the same message again
            c["reuse"] = rng.random() < 0.5
            c["sid"] = rng.choice([None, "$last", "", "no-such-session"])
            seq.append(c)
        out.append({"seq": seq})
    return out


# ---- the property oracle (implementation observation only) --------------------------------------


def _same_id(got, sent):
    """same JSON value with the same JSON type; 7.0 and 7 are the same JSON number (7 and "7", 0 and false are not)"""
    if isinstance(sent, float) and sent == int(sent):
        sent = int(sent)
    if isinstance(got, float) and got == int(got):
        got = int(got)
    return type(got) is type(sent) and got == sent


def expectation(case):
    """what the property text demands for this message: dict with
    notif: bool; and for requests  code: exact code | None,  kind: 'result'|'error'|None"""
    msg = case["msg"]
    variant = case.get("server")
    custom = H.custom_table(variant)
    if case.get("env") == "list":
        return {"class": "batch"}  # a list is C13's subject; here only "never raises"
    if case.get("env") in ("dict", "typed-response"):
        return {"class": "not-an-incoming-request-object"}  # a plain dict / a typed response object: only "never raises"
    if msg.get("jsonrpc") != "2.0":
        return {"class": "not-jsonrpc-2.0"}
    if "result" in msg or "error" in msg:
        return {"class": "carries-response-members"}  # neither a well-formed request nor a notification
    if "id" not in msg:
        return {"class": "notification"}
    me = msg.get("method")
    if not isinstance(me, str):
        return {"class": "not-a-request"}
    params = msg.get("params")
    reg = H.registered_methods(variant)
    if me == "":
        return {"class": "request", "kind": "error", "code": None, "why": "empty method name"}
    if me not in reg:
        return {"class": "request", "kind": "error", "code": -32601, "why": "unregistered method"}
    if me in custom:
        b = custom[me]
        if b in H.UNFAITHFUL:
            return {"class": "request-to-unfaithful-custom-method"}
        if b in ("answers", "echoes"):
            return {"class": "request", "kind": "result", "code": None, "why": "custom handler answers"}
        if b == "raises":
            return {"class": "request", "kind": "error", "code": -32603, "why": "custom handler raises",
                    "shape": H.raise_shape("custom", me), "target": "custom"}
        return {"class": "request", "kind": None, "code": None, "why": "custom handler returns nonsense"}
    if me in ("ping", "tools/list", "resources/list", "initialize", "notifications/initialized"):
        return {"class": "request", "kind": "result" if me != "notifications/initialized" else None, "code": None,
                "why": "built-in method"}
    if me == "tools/call":
        name = params.get("name") if isinstance(params, dict) else None
        tools = H.tools_table(variant)
        if isinstance(name, str):
            if name not in tools:
                return {"class": "request", "kind": "error", "code": -32602, "why": "unknown tool"}
            beh = tools[name][1]
            if beh == "raises":
                return {"class": "request", "kind": "error", "code": -32603, "why": "tool handler raises",
                        "shape": H.raise_shape("tool", name), "target": "tool"}
            if beh == "returns" and H.args_ok(params):
                return {"class": "request", "kind": "result", "code": None, "why": "tool handler returns"}
            return {"class": "request", "kind": None, "code": None, "why": "tool returns nonsense / arguments do not fit"}
        if isinstance(name, (list, dict)):
            return {"class": "request", "kind": "error", "code": None, "why": "tool name is a list or an object"}
        # missing, null, a number or a boolean names no registered tool: it is an unknown tool
        return {"class": "request", "kind": "error", "code": -32602, "why": "tool name missing or not a string"}
    if me == "resources/read":
        uri = params.get("uri") if isinstance(params, dict) else None
        resources = H.resources_table(variant)
        if isinstance(uri, str):
            if uri not in resources:
                return {"class": "request", "kind": "error", "code": -32602, "why": "unknown resource"}
            beh = resources[uri][1]
            if beh == "raises":
                return {"class": "request", "kind": "error", "code": -32603, "why": "resource handler raises",
                        "shape": H.raise_shape("resource", uri), "target": "resource"}
            if beh == "returns":
                return {"class": "request", "kind": "result", "code": None, "why": "resource handler returns"}
            return {"class": "request", "kind": None, "code": None, "why": "resource handler returns nonsense"}
        if isinstance(uri, (list, dict)):
            return {"class": "request", "kind": "error", "code": None, "why": "uri is a list or an object"}
        return {"class": "request", "kind": "error", "code": -32602, "why": "uri missing or not a string"}
    return {"class": "request", "kind": None, "code": None, "why": "registered"}


def check(case, o):
    if o["parse"] != "ok" or excluded(case):
        return None
    msg = case["msg"]
    e = expectation(case)
    has_id = "id" in msg
    if o["raised"] is not None:
        key = "raises-with-id" if has_id else "raises-without-id"
        what = "handle_message raised %s for %s" % (o["raised"], "a request" if has_id else "an id-less message (notification)")
        return (key, what, {"raised": None, "response": "one, with the id" if has_id else None})
    if o["pair"] is False:
        return ("returns-non-pair", f"handle_message returned a {o.get('ret_type')} instead of (response, session id)",
                {"response": "one, with the id" if has_id else None})
    r = o["resp"]
    if e["class"] == "batch" and r is not None:
        return ("batch-answered", f"a list message was answered with a single response: {r}", {"response": None})
    if e["class"] == "notification":
        if r is not None:
            return ("notification-answered", f"a notification was answered: {r}", {"response": None})
        return None
    if e["class"] != "request":
        return None
    if r is None:
        return ("request-unanswered", f"request with id {msg['id']!r} ({e['why']}) got no response", {"response": "one, with the id"})
    if "unprintable" in r:
        return ("response-unprintable", f"the response cannot be dumped/printed: {r}", None)
    if not r["has_id"] or not _same_id(r["id"], msg["id"]):
        return ("response-id", f"response carries id {r.get('id')!r} for request id {msg['id']!r}", {"id": msg["id"]})
    if r["result"] == r["error"]:
        return ("response-shape", "response has %s" % ("both result and error" if r["result"] else "neither result nor error"), None)
    kind = "result" if r["result"] else "error"
    if e["kind"] is not None and kind != e["kind"]:
        return ("wrong-kind/" + e["why"].replace(" ", "-"), f"{e['why']}: answered with {kind} {r.get('code')}", {"kind": e["kind"], "code": e["code"]})
    if e["code"] is not None and r["code"] != e["code"]:
        return ("wrong-code/" + e["why"].replace(" ", "-"), f"{e['why']}: error code {r['code']}, the property demands {e['code']}", {"code": e["code"]})
    if kind == "error" and (not isinstance(r["code"], int) or isinstance(r["code"], bool)):
        return ("response-shape", f"error without an integer code: {r}", None)
    return None


class Dispatch(Suite):
    name = "dispatch"

    def cases(self, ctx, budget):
        out = directed(budget)
        rng = ctx.sub_rng("c08", budget)
        meths = all_methods()
        n = 3500 if budget == "quick" else 60000
        for _ in range(n):
            out.append(seeded(rng, meths))
        ctx.exhaustive_parts.append(
            "dispatch: {%d method strings: built-in, %d custom, every MessageMethod name, odd/format-hostile strings, constants "
            "harvested from the server modules, no method} x %d ids (quick: 9 for non-core methods) x {7 params shapes, parse_message, "
            "typed envelope, list}; tools/call %d names x %d arguments; resources/read %d uris; initialize %d params; overrides server; "
            "session-id arguments; unusual envelopes" % (len(meths), len(H.CUSTOM), len(IDS), len(tool_names()),
                                                         len(ARGUMENTS_Q if budget == "quick" else ARGUMENTS), len(uris()), len(INIT_PARAMS)))
        return out

    def impl_batch(self, cases):
        obs = [H.run_case(c) for c in cases]
        self._last = {id(c): o for c, o in zip(cases, obs)}
        return obs

    def model_line(self, case):
        o = self._last.get(id(case))
        return None if (o is None or excluded(case)) else H.model_line(case, o)

    def model_obs(self, out, case):
        return H.model_shape(out)

    def compare(self, case, o, m):
        if "driver_error" in m:
            return "driver error"
        return None if canon(H.impl_shape(o)) == canon(m) else "differs"

    def oracle(self, case, o):
        return check(case, o)

    def kind(self, case, o):
        if o["parse"] != "ok":
            return "rejected-by-envelope"
        e = expectation(case)
        r = o["resp"]
        t = raise_target(case)
        if t is not None:
            e = dict(e, why=f"{t[0]} handler raises [{t[1]}]" + (" (not demanded)" if excluded(case) else ""))
        what = "raised" if o["raised"] else ("none" if r is None else ("result" if r.get("result") else "error%s" % r.get("code")))
        tag = ("+overrides" if case.get("server") else "") + ("+sid" if case.get("sid") is not None else "")
        return f"{e['class']}/{e.get('why', '-')}/{what}{tag}"

    def nontrivial(self, case, o):
        return o["parse"] == "ok"

    def shrink_candidates(self, case):
        msg, env = case["msg"], case.get("env", "legacy")
        if env != "legacy":
            yield {"msg": msg, "env": "legacy"}
        if "params" in msg:
            yield {"msg": {k: v for k, v in msg.items() if k != "params"}, "env": env}
            p = msg["params"]
            if isinstance(p, dict):
                for k in list(p):
                    yield {"msg": dict(msg, params={a: b for a, b in p.items() if a != k}), "env": env}
                for k, v in p.items():
                    if isinstance(v, (dict, list)) and v:
                        yield {"msg": dict(msg, params=dict(p, **{k: type(v)()})), "env": env}
        if "id" in msg and msg["id"] not in (0, 1, ""):
            yield {"msg": dict(msg, id=1), "env": env}
        me = msg.get("method")
        if isinstance(me, str) and len(me) > 12 and me not in all_methods():
            yield {"msg": dict(msg, method=me[: len(me) // 2]), "env": env}


def concurrent(rng, n):
    """2-4 messages dispatched AT ONCE (asyncio.gather) — on one server, or alternately on two or three servers alive in the
    same process — with handlers that really suspend, so that the dispatches overlap; EQUAL ids and equal names included.
    Every message is judged alone: what else is in flight, and on which other instance, must not matter."""
    slow = [("answers/suspends", {}), ("raises/after-suspension", {}), ("tools/call", {"name": "ret/suspends"}),
            ("resources/read", {"uri": "file:///suspends"}), ("tools/call", {"name": "ret/suspends", "arguments": {"text": "x"}})]
    fast = [("ping", "<absent>"), ("nosuch", {}), ("custom/raises", {}), ("tools/call", {"name": "boom"}), ("tools/call", {"name": None}),
            ("notifications/cancelled", {"requestId": 1}), ("initialize", {}), ("custom/none", {}), ("tools/list", {})]
    out = []
    for a in slow:
        for b in slow + fast[:5]:
            for ids in ((1, 1), ("r", "r"), (0, 0), (1, 2), (1, "1"), (1, "<absent>"), ("<absent>", "<absent>")):
                out.append({"conc": [dict(mk(a[0], ids[0], a[1])), dict(mk(b[0], ids[1], b[1]))]})
        out.append({"conc": [dict(mk(a[0], 5, a[1])) for _ in range(4)], "debug": True})
        out.append({"conc": [dict(mk(a[0], 5, a[1]), on=k) for k in range(3)], "servers": [None, None, "overrides"]})
        out.append({"conc": [dict(mk(a[0], 5, a[1]), on=k % 2) for k in range(4)], "servers": [None, "empty"]})
    meths = all_methods(with_harvest=False)
    for _ in range(n):
        k = rng.randint(2, 4)
        steps = []
        for _ in range(k):
            if rng.random() < 0.6:
                me, p = rng.choice(slow)
                c = mk(me, rng.choice([1, 1, 1, 2, "r", 0, "<absent>"]), p)
            else:
                c = seeded(rng, meths)
                c.pop("server", None)
                c.pop("debug", None)
                if c.get("env") == "list":
                    c["env"] = "legacy"
            c["on"] = rng.randrange(3)
            steps.append(c)
        case = {"conc": steps, "servers": rng.choice([[None], [None, None], [None, "overrides"], [None, "empty", None]])}
        if rng.random() < 0.3:
            case["debug"] = True
        out.append(case)
    return out


class Sequences(Suite):
    """several messages on one fresh server (reuse of envelopes, requests after failures, second initialize, id twins);
    every step is judged by the single-message oracle — dispatch must not depend on what came before"""
    name = "sequences"
    uses_model = False

    def cases(self, ctx, budget):
        return sequences(ctx.sub_rng("c08seq", budget), 250 if budget == "quick" else 6000)

    def impl_batch(self, cases):
        return [H.run_case(c) for c in cases]

    def _step_case(self, case, st):
        return {"msg": st["msg"], "env": st.get("env", "legacy"), "server": case.get("server"), "sid": st.get("sid")}

    def oracle(self, case, o):
        for n, (st, so) in enumerate(zip(case["seq"], o["steps"])):
            v = check(self._step_case(case, st), so)
            if v is not None:
                return (v[0], f"message {n + 1} of {len(case['seq'])}: {v[1]}", v[2])
        return None

    def kind(self, case, o):
        return "sequence/len%d%s%s" % (len(case["seq"]), "/reuse" if any(s.get("reuse") for s in case["seq"]) else "",
                                       "/overrides" if case.get("server") else "")

    def shrink_candidates(self, case):
        seq = case["seq"]
        for i in range(len(seq)):
            if len(seq) > 1:
                yield dict(case, seq=seq[:i] + seq[i + 1:])
        for i, st in enumerate(seq):
            for k in ("reuse", "sid"):
                if st.get(k):
                    yield dict(case, seq=seq[:i] + [{a: b for a, b in st.items() if a != k}] + seq[i + 1:])


# ---- second layer: content of MCPServer's handlers ---------------------------------------------

C_NAMES = ["echo", "add", "echo", "", "t/1", "Ünï", "list"]
C_URIS = ["file:///a/b.txt", "file:///a/", "plain", "", "file:///a/b.txt", "mem://x/y/z"]
BUILTIN_METHODS = {"ping", "initialize", "tools/list", "tools/call", "resources/list", "resources/read", "notifications/initialized"}


def rand_pyval(rng, depth=0):
    r = rng.random()
    if depth < 2 and r < 0.25:
        return {"list": [rand_pyval(rng, depth + 1) for _ in range(rng.randint(0, 3))]}
    if r < 0.5:
        return {"str": rng.choice(["", "text", "Ünï\n", "%s {0}", "0"])}
    if r < 0.7:
        return {"dict": rng.choice([{}, {"a": 1}, {"k": [1, {"x": None}], "s": "é"}, {"": ""}]), "ok": rng.random() < 0.85}
    if r < 0.95:
        return {"other": rng.choice(["5", "None", "True", "0.5", "(1, 2)", "", "b''"])}
    return {"unprintable": True}


def rand_scenario(rng):
    ops = []
    n = rng.randint(2, 9)
    caps = rng.choice([None, None, {"tools": {"listChanged": True}}, {"resources": {"subscribe": False}, "logging": {}}])

    def message():
        r = rng.random()
        mid = rng.choice([0, 1, -3, "", "r", "7", None, None])
        if r < 0.18:
            me, params = "tools/list", rng.choice([None, {}, {"cursor": "x"}])
        elif r < 0.5:
            name = rng.choice(C_NAMES + ["nosuch", 5, None, ["echo"], "<absent>"])
            params = {} if name == "<absent>" else {"name": name}
            a = rng.choice(["<absent>", {}, {"text": "x"}, {"text": None, "n": 0}, {"other": [1]}, None, [1], "s", {"a": {"b": []}}])
            if a != "<absent>":
                params["arguments"] = a
            me = "tools/call"
        elif r < 0.6:
            me, params = "resources/list", rng.choice([None, {}])
        elif r < 0.78:
            uri = rng.choice(C_URIS + ["file:///nosuch", 7, None, {"u": 1}, "<absent>"])
            me, params = "resources/read", ({} if uri == "<absent>" else {"uri": uri})
        elif r < 0.85:
            me, params = "ping", None
        elif r < 0.93:
            me = "initialize"
            params = rng.choice([None, {}, {"protocolVersion": "2025-06-18", "clientInfo": {"name": "c"}}, {"protocolVersion": "1999-01-01"},
                                 {"protocolVersion": 5}])
        else:
            me, params = rng.choice(["nosuch/method", "prompts/list", "logging/setLevel", "notifications/initialized", "notifications/cancelled"]), {}
        msg = {"jsonrpc": "2.0", "method": me}
        if mid is not None:
            msg["id"] = mid
        if params is not None:
            msg["params"] = params
        return ["msg", msg]

    for _ in range(n):
        r = rng.random()
        if r < 0.3:
            out = {"raises": True} if rng.random() < 0.15 else rand_pyval(rng)
            ops.append(["tool", rng.choice(C_NAMES), {"sig": rng.choice([None, None, ["text"], ["text", "n"], []]), "out": out,
                                                      "schema": rng.choice([{}, {"type": "object"}, {"type": "object", "properties": {"text": {"type": "string"}}}, None]),
                                                      "description": rng.choice(["", "d", "Ünï %s"])}])
        elif r < 0.45:
            spec = {"out": {"fails": True} if rng.random() < 0.2 else {"text": rng.choice(["", "T", "line\n2", "%s"])}}
            if rng.random() < 0.6:
                spec["name"] = rng.choice(["", "named", "Ünï"])
            if rng.random() < 0.5:
                spec["description"] = rng.choice(["", "desc"])
            if rng.random() < 0.5:
                spec["mime"] = rng.choice(["text/plain", "application/json", ""])
            ops.append(["resource", rng.choice(C_URIS), spec])
        else:
            ops.append(message())
    # always end by listing, so that every registration above is observed
    ops += [["msg", {"jsonrpc": "2.0", "id": "tl", "method": "tools/list"}], ["msg", {"jsonrpc": "2.0", "id": "rl", "method": "resources/list"}]]
    sc = {"ops": ops}
    if caps:
        sc["caps"] = caps
    return sc


def content_oracle(sc, o):
    """the property text on one scenario: every request answered once with its id, no notification answered, the code table"""
    if o.get("harness_error"):
        return ("raises-in-scenario", f"an operation of the scenario raised: {o['harness_error']}", None)
    tools, resources, k = {}, {}, 0
    for op in sc["ops"]:
        if op[0] == "tool":
            tools[op[1]] = op[2]
        elif op[0] == "resource":
            resources[op[1]] = op[2]
        else:
            msg, r = op[1], o["resps"][k]
            k += 1
            if r == "<not a pair>":
                return ("returns-non-pair", f"message {k}: handle_message did not return a pair", None)
            if "id" not in msg:
                if r is not None:
                    return ("notification-answered", f"message {k} {msg}: a notification was answered", {"response": None})
                continue
            if r is None:
                return ("request-unanswered", f"message {k} {msg}: no response", {"response": "one, with the id"})
            if not _same_id(r.get("id"), msg["id"]):
                return ("response-id", f"message {k}: response id {r.get('id')!r} for request id {msg['id']!r}", {"id": msg["id"]})
            if ("error" in r) == ("result" in r):
                return ("response-shape", f"message {k}: response {r}", None)
            me, params = msg["method"], msg.get("params")
            want = None
            if me not in BUILTIN_METHODS:
                want = -32601
            elif me == "tools/call" and isinstance(params, dict) and isinstance(params.get("name"), str):
                spec = tools.get(params["name"])
                want = -32602 if spec is None else (-32603 if "raises" in spec["out"] else None)
            elif me == "resources/read" and isinstance(params, dict) and isinstance(params.get("uri"), str):
                spec = resources.get(params["uri"])
                want = -32602 if spec is None else (-32603 if "fails" in spec["out"] else None)
            if want is not None and r.get("error") != want:
                return ("wrong-code/content", f"message {k} {msg}: answered {r}, the property demands error {want}", {"code": want})
    return None


class Content(Suite):
    """MCPServer's own handlers with recording application handlers vs Model/McpServer.lean: full results (tools/list,
    resources/list, tools/call content, resources/read contents, initialize), responses and the log of handlers run"""
    name = "content"
    supplementary = True  # a difference from the content-level model is an INFO line and an evidence note, never a verdict

    def cases(self, ctx, budget):
        rng = ctx.sub_rng("c08content", budget)
        fixed = [
            {"ops": [["tool", "a", {"sig": None, "out": {"str": "1"}, "schema": {}, "description": "first"}],
                     ["tool", "b", {"sig": None, "out": {"str": "2"}, "schema": {}, "description": ""}],
                     ["msg", {"jsonrpc": "2.0", "id": 1, "method": "initialize", "params": {"protocolVersion": "2025-06-18"}}],
                     ["tool", "a", {"sig": ["text"], "out": {"list": [{"str": "x"}, {"list": [{"dict": {"k": 1}}, {"other": "5"}]}]}, "schema": {"type": "object"}, "description": "again"}],
                     ["tool", "c", {"sig": [], "out": {"raises": True}, "schema": None, "description": "late"}],
                     ["msg", {"jsonrpc": "2.0", "id": 2, "method": "tools/list"}],
                     ["msg", {"jsonrpc": "2.0", "id": 3, "method": "tools/call", "params": {"name": "a", "arguments": {"text": "t"}}}],
                     ["msg", {"jsonrpc": "2.0", "id": 4, "method": "tools/call", "params": {"name": "a", "arguments": {"nope": 1}}}],
                     ["msg", {"jsonrpc": "2.0", "method": "tools/call", "params": {"name": "b", "arguments": {"x": [1, {"y": None}]}}}],
                     ["msg", {"jsonrpc": "2.0", "id": 5, "method": "tools/call", "params": {"name": "c"}}],
                     ["msg", {"jsonrpc": "2.0", "id": 6, "method": "tools/call", "params": {"name": "zzz", "arguments": {"x": 1}}}]]},
            {"caps": {"tools": {"listChanged": True}, "resources": {"listChanged": False}},
             "ops": [["resource", "file:///d/e.txt", {"out": {"text": "E"}}],
                     ["resource", "file:///d/", {"out": {"text": ""}, "name": "", "mime": "application/json"}],
                     ["resource", "file:///d/e.txt", {"out": {"fails": True}, "name": "renamed", "description": "x"}],
                     ["msg", {"jsonrpc": "2.0", "id": "a", "method": "resources/list"}],
                     ["msg", {"jsonrpc": "2.0", "id": "b", "method": "resources/read", "params": {"uri": "file:///d/"}}],
                     ["msg", {"jsonrpc": "2.0", "id": "c", "method": "resources/read", "params": {"uri": "file:///d/e.txt"}}],
                     ["msg", {"jsonrpc": "2.0", "method": "resources/read", "params": {"uri": "file:///d/"}}],
                     ["msg", {"jsonrpc": "2.0", "id": "d", "method": "initialize"}],
                     ["msg", {"jsonrpc": "2.0", "id": "e", "method": "ping"}]]},
        ]
        return fixed + [rand_scenario(rng) for _ in range(500 if budget == "quick" else 12000)]

    def impl_batch(self, cases):
        obs = [MC.run_scenario(c) for c in cases]
        self._last = {id(c): o for c, o in zip(cases, obs)}
        return obs

    def model_line(self, case):
        o = self._last.get(id(case))
        return None if o is None else MC.model_line(case, o)

    def compare(self, case, o, m):
        if "driver_error" in m:
            return "driver error"
        norm = MC.normalise_impl(case, o)
        if canon(MC.shape(norm["resps"])) != canon(MC.shape(m["resps"])):
            return "responses differ in presence / id / code"
        if canon(norm) != canon({"resps": m["resps"], "log": m["log"]}):
            return "results or the log of handlers run differ (content the property text does not fix)"
        return None

    def oracle(self, case, o):
        return content_oracle(case, o)

    def kind(self, case, o):
        ms = {op[1]["method"] for op in case["ops"] if op[0] == "msg"}
        return "content/" + ("reregistration/" if len({op[1] for op in case["ops"] if op[0] == "tool"}) < sum(1 for op in case["ops"] if op[0] == "tool") else "") \
            + "+".join(sorted(x.split("/")[-1] for x in ms & {"tools/call", "resources/read", "initialize"}))

    def nontrivial(self, case, o):
        return bool(o.get("log"))

    def shrink_candidates(self, case):
        ops = case["ops"]
        for i in range(len(ops)):
            yield dict(case, ops=ops[:i] + ops[i + 1:])


class Concurrent(Sequences):
    """overlapping dispatches on one or several live server instances; judged message by message"""
    name = "concurrent"

    def cases(self, ctx, budget):
        return concurrent(ctx.sub_rng("c08conc", budget), 250 if budget == "quick" else 8000)

    @staticmethod
    def _steps(case):
        return case["conc"]

    def _step_case(self, case, st):
        servers = case.get("servers", [case.get("server")])
        return {"msg": st["msg"], "env": st.get("env", "legacy"), "server": servers[st.get("on", 0) % len(servers)], "sid": st.get("sid")}

    def oracle(self, case, o):
        for n, (st, so) in enumerate(zip(case["conc"], o["steps"])):
            v = check(self._step_case(case, st), so)
            if v is not None:
                return (v[0], f"message {n + 1} of {len(case['conc'])} dispatched at once: {v[1]}", v[2])
        return None

    def kind(self, case, o):
        ids = [st["msg"].get("id", "<absent>") for st in case["conc"]]
        return "concurrent/%d%s/%dservers" % (len(case["conc"]), "/equal-ids" if len(set(map(repr, ids))) < len(ids) else "",
                                              len(case.get("servers", [None])))

    def shrink_candidates(self, case):
        seq = case["conc"]
        for i in range(len(seq)):
            if len(seq) > 1:
                yield dict(case, conc=seq[:i] + seq[i + 1:])
        if case.get("debug"):
            yield {k: v for k, v in case.items() if k != "debug"}
        if len(case.get("servers", [None])) > 1:
            yield dict(case, servers=[case["servers"][0]], conc=[{k: v for k, v in st.items() if k != "on"} for st in seq])


def suites():
    return [Dispatch(), Sequences(), Concurrent(), Content()]
