"""C14 — deadlines, cancellation and progress behave the same under any traffic."""
from __future__ import annotations

from .. import await_gen as G
from .. import await_h as H
from ..core import canon
from ..runner import Suite

MANIFEST = dict(
    text='Lean 4 theorems on the timed send_message model, for every history and any positive poll period: completion never later than the deadline, cancellation latency <= one poll period, CancelledError only if the token fired, exactly one cancelled notification iff cancelled, cancelled-before-send writes no request, progress callbacks = exactly the matching-token notifications consumed before completion in order, callback failures irrelevant; the deadline holds whatever time the callbacks themselves take (AwaitSlow.runD, which refines Await.run at duration zero); a call of the high-level MCPClient is bounded by the initialize timeout plus its own. Tied to the code by the virtual-time correspondence run over cancel/response/deadline placements x traffic x progress streams x tie orders.',
    note='Trusted: Lean kernel, correspondence harness, virtual-time loop; anyio cancel scopes/fail_after semantics are sampled, not proved.',
    technique='Lean 4 proof (invariants by functional induction on a timed model) + differential correspondence run under virtual time',
    design='5/C14',
)
GEN = ["Timing", "Errors"]
THEOREMS = [
    "c14_translated", "c14_poll_interval_documented", "c14_deadline", "c14_timeout_at_deadline", "c14_cancel_latency", "c14_cancelled_only_if_fired",
    "c14_one_cancel_notification", "c14_cancel_before_send_writes_no_request", "c14_progress_exact",
    "c14_consumed_is_before_completion", "c14_progress_token_filter", "c14_callback_failure_irrelevant",
    "c14_shared_token", "c14_shared_token_starts", "c14_blocked_writer", "c14_stalled_writer", "c14_token_flag", "c14_token_callbacks", "c14_token_history", "c14_client_call_bounded",
    "c14_deadline_slow_callbacks", "c14_slow_callbacks_nothing_invented", "c14_slow_model_refines",
]
RULE = (
    "schedules: placements of {cancel, matching response, deadline} on the tick grid (1/1024 s) at poll boundaries +-1 tick, "
    "x background traffic {none, bursts, flood every 10 ticks} x progress streams {own/foreign/absent token, missing fields, "
    "callback raising at positions 0..4} x both tie orders; real send_message under the virtual-time loop vs Await.run; "
    "non-trivial = distinct case with a cancellation, a progress event or traffic; shared-token: 2-3 requests given ONE "
    "CancellationToken, sequentially (idle gaps 0..P) or concurrently on separate stream pairs, token firing never / before / "
    "at poll boundaries +-1 / mid-wait, vs Await.runSeq; client-deadlines: calls of the real MCPClient (lazy initialize) with servers that "
    "never answer and floods of unrelated traffic every 100..512 ticks through the whole 60 s window, vs ClientApi.clientSeq; bound = initialize timeout + request timeout; "
    "progress callbacks given as coroutine function / object with async __call__ / lambda / partial / bound method, and callbacks that take 1..3P ticks "
    "(also past the deadline) vs AwaitSlow.runD"
)
TRUSTED = ["anyio fail_after / cancel scopes / memory streams and asyncio scheduling (sampled under the virtual-time loop)"]
ASSUMPTIONS = ["one polling interval = the default sub_timeout (0.5 s = 512 ticks), regenerated into Gen/Timing.lean"]

P = G.P


def traffic(kind, D, k):
    if kind == "none":
        return []
    if kind == "burst":
        return [[P - 2 + (i % 5), G.sym_event(["N", "O", "F", "Q"][i % 4], k=i)] for i in range(12)]
    if kind == "flood":
        return [[10 * (i + 1), G.sym_event(["N", "O", "F"][i % 3], k=i)] for i in range((D + 40) // 10)]
    raise ValueError(kind)


def merge(*lists):
    out = []
    for l in lists:
        out += l
    out.sort(key=lambda x: x[0])
    return out


class Schedules(Suite):
    name = "schedules"
    parallel = True

    def cases(self, ctx, budget):
        out = []
        Ds = [2 * P, 2 * P + 100] if budget == "quick" else [P, 2 * P, 2 * P + 100, 3 * P - 1]
        places = sorted({max(1, b + d) for b in (0, P, 2 * P, 2 * P + 100, 3 * P) for d in (-1, 0, 1)} | {40, P // 2, P + P // 2})
        k = 0
        for D in Ds:
            for tr in ("none", "burst", "flood"):
                for tie in ("events", "timers", "io"):
                    for c in [None] + places:
                        for r in [None] + places[:: (3 if budget == "quick" else 1)]:
                            k += 1
                            if budget == "quick" and tr == "flood" and k % 4:
                                continue
                            ev = traffic(tr, D, k)
                            if r is not None:
                                ev = merge(ev, [[r, {"k": "resp", "id": "$ID", "p": {"r": r}}]])
                            case = {"id": [{"s": "abc"}, None][k % 2], "method": "tools/call", "params": {"name": "x"},
                                    "D": D, "tie": tie, "progress": False, "ev": ev}
                            if c is not None:
                                case["cancelAt"] = c
                                case["tokenKind"] = ["plain", "linked", "duck"][k % 3]
                            out.append(G.place(case))
                            if c is not None and k % 4 == 0:
                                # the same schedule against a peer that closed its end / stopped reading
                                for wm in ("closed", "blocked"):
                                    out.append(G.place(dict(case, writer=wm, ev=[list(e) for e in ev])))
                                # a peer that is only slow: reads again one tick / one poll / two polls after the token fired
                                for dr in (1, P // 2, P + 3, 2 * P + 1):
                                    su = c + dr
                                    if su != D:
                                        out.append(G.place(dict(case, writer="stalled", stallUntil=su, ev=[list(e) for e in ev])))
        # cancelled before sending / token present but never fired
        for tie in ("events", "timers", "io"):
            for ev in ([], [[0, G.sym_event("N")]], [[5, {"k": "resp", "id": "$ID", "p": {"x": 1}}]]):
                for tk in ("plain", "linked", "duck"):
                    out.append(G.place({"id": {"s": "abc"}, "method": "m", "params": None, "D": 2 * P, "tie": tie, "pre": True, "tokenKind": tk, "ev": [list(e) for e in ev]}))
                    out.append(G.place({"id": {"s": "abc"}, "method": "m", "params": None, "D": 2 * P, "tie": tie, "hasToken": True, "tokenKind": tk, "ev": [list(e) for e in ev]}))
        # progress with a params dict that already carries a (stale) progress token: the request must
        # go out with the token the callback is registered under, and notifications bearing it count
        for tie in ("events", "io"):
            for stale in ("stale-token", 0, ""):
                out.append(G.place({"id": {"s": "abc"}, "method": "tools/call", "params": {"_meta": {"progressToken": stale}, "x": 1},
                                    "D": 2 * P, "tie": tie, "progress": True,
                                    "ev": [[5, G.sym_event("G", k=1)], [9, G.sym_event("G", k=2)],
                                           [12, {"k": "progress", "token": {"s": "stale-token"}, "progress": 0.9}],
                                           [40, {"k": "resp", "id": "$ID", "p": {"ok": True}}]]}))
        # re-entrancy: the progress callback cancels the call's own token, or writes on the call's own
        # write stream (oracle only: the model has no callbacks with effects)
        for tie in ("events", "timers", "io"):
            for k_act in (0, 1, 2):
                for act in ("cancel", "send"):
                    for tk in ("plain", "linked", "duck"):
                        evs = [[5 + 40 * i, G.sym_event("G", k=i + 1)] for i in range(4)] + [[P + 30, {"k": "resp", "id": "$ID", "p": {"ok": 1}}]]
                        out.append(G.place({"id": {"s": "abc"}, "method": "tools/call", "params": {"name": "x"}, "D": 2 * P, "tie": tie,
                                            "progress": True, "hasToken": True, "tokenKind": tk, "cbAction": [act, k_act], "ev": evs,
                                            "debug": k_act == 1}))
        # the callback as every kind of async callable, and callbacks that TAKE TIME (oracle only: the
        # model's callbacks are instantaneous; the deadline and progress exactness are the text's)
        for tie in ("events", "io"):
            for form in ("object", "lambda", "partial", "method"):
                evs = [[5 + 40 * i, G.sym_event("G", k=i + 1)] for i in range(3)] + [[P + 30, {"k": "resp", "id": "$ID", "p": {"ok": 1}}]]
                out.append(G.place({"id": {"s": "abc"}, "method": "tools/call", "params": {"name": "x"}, "D": 2 * P, "tie": tie,
                                    "progress": True, "cbForm": form, "ev": evs}))
            for sleep in (1, 40, P - 7, P, P + 3, 2 * P - 60, 3 * P):
                for answered in (False, True):
                    evs = [[5, G.sym_event("G", k=1)], [P + 9, G.sym_event("G", k=2)]]
                    if answered:
                        evs.append([2 * P + 100, {"k": "resp", "id": "$ID", "p": {"ok": 1}}])
                    out.append(G.place({"id": {"s": "abc"}, "method": "tools/call", "params": {"name": "x"}, "D": 3 * P, "tie": tie,
                                        "progress": True, "cbSleep": sleep, "ev": evs}))
        # progress streams
        rng = ctx.sub_rng("c14-progress", budget)
        n = 6000 if budget == "quick" else 150000
        for i in range(n):
            c = G.seeded(rng, ["G", "G", "G", "F", "N", "O", "R", "E", "Q", "B"], max_len=10, progress_p=0.9, cancel_p=0.25)
            if c.get("progress") and i % 3 == 0:
                c["cbForm"] = ("object", "lambda", "partial", "method")[(i // 3) % 4]
            if c.get("progress") and i % 7 == 0 and not c.get("cbRaises") and c.get("writer", "open") == "open":
                c["cbSleep"] = rng.choice([1, 7, 100, P - 1, P, P + 1, 2 * P + 5, c["D"]])
            out.append(c)
        n2 = 2500 if budget == "quick" else 60000
        for i in range(n2):
            out.append(G.seeded(rng, G_ALL, max_len=14, cancel_p=0.5))
        ctx.exhaustive_parts.append("schedules: full grid of (deadline, traffic, tie, cancel placement, response placement)")
        return out

    def impl_batch(self, cases):
        obs = []
        for c in cases:
            o = H.run_case(c)
            if c.get("cbAction") and c["cbAction"][0] == "send":
                c2 = dict(c)
                c2.pop("cbAction")
                o2 = H.run_case(c2)
                o["twin"] = {"outcome": o2["outcome"], "t": o2["t"], "cbs": o2["cbs"], "p": o2.get("p"),
                             "writes": H.impl_shape(c2, o2)["writes"]}
            if c.get("cbRaises"):
                c2 = dict(c)
                c2.pop("cbRaises")
                o2 = H.run_case(c2)
                o["twin"] = {"outcome": o2["outcome"], "t": o2["t"], "cbs": o2["cbs"], "p": o2.get("p"),
                             "writes": H.impl_shape(c2, o2)["writes"]}
            obs.append(o)
        return obs

    def model_line(self, case, o=None):
        if o is None or o.get("harness_errors") or case.get("cbAction"):
            return None  # callbacks with effects: oracle only (callbacks that take time: Model/AwaitSlow)
        return H.model_line(case, o)

    def model_obs(self, out, case):
        return H.model_shape(out)

    def compare(self, case, o, m):
        return None if canon(H.impl_shape(case, o)) == canon(m) else "differs"

    def kind(self, case, o):
        tags = [o["outcome"]]
        if case.get("cancelAt") is not None:
            tags.append("cancel")
        if case.get("pre"):
            tags.append("pre")
        if case.get("progress"):
            tags.append("progress")
        if case.get("cbRaises"):
            tags.append("cbraise")
        if case.get("cbAction"):
            tags.append("cb-" + case["cbAction"][0])
        if case.get("writer"):
            tags.append("w-" + case["writer"])
        if case.get("tokenKind", "plain") != "plain" and (case.get("cancelAt") is not None or case.get("pre") or case.get("hasToken")):
            tags.append("tok-" + case["tokenKind"])
        n = len(case["ev"])
        tags.append("none" if n == 0 else "few" if n < 8 else "burst" if n < 40 else "flood")
        return "/".join(tags)

    def nontrivial(self, case, o):
        return bool(case["ev"]) or case.get("cancelAt") is not None or bool(case.get("pre"))

    def oracle(self, case, o):
        if o.get("harness_errors"):
            return None
        D, t = case["D"], o["t"]
        sent = o.get("sent_id")
        if o["outcome"] == "exception":
            return ("unexpected-exception", f"{o.get('exc')}: {o.get('text')}", None)
        if o["outcome"] == "hung":
            return ("deadline-exceeded", f"still running {t} ticks after its start, deadline {D}", {"t<=": D})
        if t > D:
            return ("deadline-exceeded", f"completed at tick {t} > deadline {D} ({o['outcome']})", {"t<=": D})
        if o["outcome"] == "timeout" and t != D:
            return ("timeout-early", f"TimeoutError at tick {t}, deadline {D}", {"t": D})
        c = case.get("cancelAt")
        act = case.get("cbAction")
        if act and act[0] == "cancel" and len(o.get("cb_ticks") or []) > act[1]:
            # the token fired inside the act[1]-th callback: the very next check of the loop sees it
            c = o["cb_ticks"][act[1]]
            if o["outcome"] != "cancelled" or t != c:
                return ("callback-cancels-own-token", f"the progress callback cancelled the call's token at tick {c}; the call ended {o['outcome']} at {t}", {"outcome": "cancelled", "t": c})
        cancels = [w for w in o["writes"] if isinstance(w, dict) and w.get("method") == "notifications/cancelled"]
        if case.get("pre"):
            reqs = [w for w in o["writes"] if isinstance(w, dict) and "id" in w and w.get("method")]
            if reqs or o["outcome"] != "cancelled":
                return ("sent-after-cancel", f"token cancelled before the call: outcome {o['outcome']}, requests written {reqs}", {"outcome": "cancelled", "requests": 0})
        wm = case.get("writer", "open")
        if c is not None:
            # a peer that has stopped reading: the cancelled notification cannot be written; the
            # deadline (checked above) is what still bounds the call -- outside the property's
            # quantifier (inbound traffic), see DESIGN 9.8
            slack = c + P
            if wm == "stalled":
                slack = max(slack, case["stallUntil"])  # the notification goes out when the peer reads again
            if case.get("cbSleep"):
                slack += case["cbSleep"]  # the token is looked at between two reads: not while the caller's own callback runs
            if t > slack and wm != "blocked":
                return ("cancel-latency", f"token fired at {c}, call ended at {t} > {c}+{P} ({o['outcome']})", {"t<=": c + P})
            if o["outcome"] == "cancelled" and t < c:
                return ("cancelled-early", f"CancelledError at {t} before the token fired at {c}", None)
        elif o["outcome"] == "cancelled" and not case.get("pre"):
            return ("cancelled-without-token", "CancelledError although no token fired", None)
        want = 1 if o["outcome"] == "cancelled" and (wm != "closed" or case.get("pre")) else 0
        if len(cancels) != want:
            return ("cancel-notification-count", f"{len(cancels)} cancelled notifications written, outcome {o['outcome']}", {"count": want})
        if cancels and sent is not None and (cancels[0].get("params") or {}).get("requestId") != sent:
            return ("cancel-notification-id", f"cancelled notification names {cancels[0].get('params')}", {"requestId": sent})
        if cancels and sent is None and case.get("id") is not None and H._idval(case["id"], {}) and (cancels[0].get("params") or {}).get("requestId") != H._idval(case["id"], {}):
            return ("cancel-notification-id", f"cancelled notification names {cancels[0].get('params')}", {"requestId": case["id"]})
        # progress exactness
        tok = o.get("tok")
        seq = []  # (arrival, args or None)
        for a, ev in case["ev"]:
            args = None
            if case.get("progress") and ev["k"] == "progress" and tok is not None and H._tokval(ev.get("token"), {"tok": tok}) == tok:
                args = [ev.get("progress") if ev.get("progress") is not None else 0, ev.get("total"), ev.get("message")]
            seq.append((a, args))
        lo = sum(1 for a, _ in seq if a < t)
        hi = sum(1 for a, _ in seq if a <= t)
        ok = False
        for k in range(lo, hi + 1):
            if [x for _, x in seq[:k] if x is not None] == o["cbs"]:
                ok = True
                break
        if not ok and wm in ("blocked", "stalled") and c is not None and c < t:
            # stuck in the write of the cancelled notification since the poll after `c`: what arrives
            # while the call is stuck is not consumed (outside the quantifier, DESIGN 9.8); what
            # arrived before the token fired must still have been delivered, in order
            before = [x for a, x in seq if x is not None and a < c]
            if o["cbs"][: len(before)] == before:
                ok = True
        if not ok and case.get("cbSleep"):
            # while a callback is still running nothing is consumed: what arrives meanwhile is delivered
            # afterwards, or never if the deadline comes first -- in order, once each, nothing invented
            allm = [x for _, x in seq if x is not None]
            if o["cbs"] == allm[: len(o["cbs"])]:
                ok = True
        if not ok:
            exp = [x for _, x in seq[:lo] if x is not None]
            return ("progress-exact", f"callback calls {o['cbs']} differ from the matching progress notifications before completion", {"cbs": exp})
        if "twin" in o:
            tw = o["twin"]
            me = {"outcome": o["outcome"], "t": o["t"], "cbs": o["cbs"], "p": o.get("p"), "writes": H.impl_shape(case, o)["writes"]}
            if act and act[0] == "send":
                me["writes"] = [w for w in me["writes"] if w != "other"]  # the callback's own write
            if canon(tw) != canon(me):
                return ("callback-failure-disturbs", f"with a raising callback the call gave {me}, without {tw}", tw)
        return None

    def shrink_candidates(self, case):
        return G.shrink_candidates(case)


class SharedToken(Suite):
    """2-3 requests given the SAME CancellationToken: one after the other (a retry after a
    cancelled call, a group of calls) or concurrently on separate stream pairs."""
    name = "shared-token"
    parallel = True

    def cases(self, ctx, budget):
        out = []
        k = 0
        fires = [None, 0, 1, 40, P - 1, P, P + 1, 2 * P, 2 * P + 50, 3 * P + 7]
        resp = lambda a, k: [a, {"k": "resp", "id": "$ID", "p": {"r": k}}]
        histories = [[], [resp(30, 1)], [resp(P + 10, 2)], [[10, G.sym_event("N")], [20, G.sym_event("O", k=3)]]]
        for mode in ("seq", "par"):
            for tie in ("events", "timers", "io"):
                for fire in fires:
                    for n in (2, 3):
                        for hi in range(len(histories)):
                            k += 1
                            if budget == "quick" and k % 2 and fire not in (None, 0):
                                continue
                            reqs = []
                            for i in range(n):
                                h = histories[(hi + i) % len(histories)]
                                reqs.append(G.place({"id": [{"s": f"req-{i}"}, None, {"i": i + 1}][(k + i) % 3], "method": "tools/call",
                                                     "params": {"name": "x"}, "D": [2 * P, P + 100, 3 * P][(k + i) % 3],
                                                     "progress": False, "ev": [list(e) for e in h]}))
                            out.append({"mode": mode, "tie": tie, "fire": fire, "gaps": [[0, 0], [5, 0], [P, 1]][k % 3][: n - 1] + [0], "reqs": reqs,
                                        "tokenKind": ["plain", "linked", "duck"][k % 3]})
        rng = ctx.sub_rng("c14-shared", budget)
        for i in range(600 if budget == "quick" else 20000):
            n = rng.choice([2, 2, 3])
            reqs = []
            for j in range(n):
                c = G.seeded(rng, ["R", "E", "N", "O", "G", "F", "Q"], max_len=5, progress_p=0.3)
                for key in ("cancelAt", "pre", "hasToken", "cbRaises", "tie", "writer"):
                    c.pop(key, None)
                reqs.append(c)
            out.append({"mode": rng.choice(["seq", "par"]), "tie": rng.choice(["events", "timers", "io"]),
                        "fire": rng.choice([None, 0, rng.randint(1, 4 * P), rng.choice([P, 2 * P]) + rng.choice([-1, 0, 1])]),
                        "gaps": [rng.choice([0, 1, 7, P]) for _ in range(n)], "reqs": reqs})
        return out

    def impl_batch(self, cases):
        return [H.run_seq(c) for c in cases]

    def model_line(self, case, o=None):
        if o is None or any(x.get("harness_errors") for x in o):
            return None
        return H.seq_model_line(case, o)

    def model_obs(self, out, case):
        return [dict(H.model_shape(x), start=x.get("start")) for x in out]

    def compare(self, case, o, m):
        mine = [dict(H.impl_shape(r, x), start=x["start"]) for r, x in zip(case["reqs"], o)]
        return None if canon(mine) == canon(m) else "differs"

    def kind(self, case, o):
        return f"{case['mode']}/{len(case['reqs'])}/fire={'none' if case['fire'] is None else 'pre' if case['fire'] == 0 else 'mid'}/" + \
            "+".join(x["outcome"] for x in o)

    def nontrivial(self, case, o):
        return True

    def oracle(self, case, o):
        if any(x.get("harness_errors") for x in o):
            return None
        fire = case.get("fire")
        for i, (r, x) in enumerate(zip(case["reqs"], o)):
            if x["outcome"] == "exception":
                return ("unexpected-exception", f"request {i}: {x.get('exc')}: {x.get('text')}", None)
            if x["outcome"] == "hung":
                return ("shared-token/deadline-exceeded", f"request {i} still running {x['t']} ticks after its start, deadline {r['D']}", None)
            cancels = [w for w in x["writes"] if isinstance(w, dict) and w.get("method") == "notifications/cancelled"]
            reqs = [w for w in x["writes"] if isinstance(w, dict) and "id" in w and w.get("method")]
            want = 1 if x["outcome"] == "cancelled" else 0
            if len(cancels) != want:
                return ("shared-token/cancel-notification-count",
                        f"request {i} of {len(o)} sharing one token ended {x['outcome']} and wrote {len(cancels)} cancelled notifications", {"count": want})
            sent = x.get("sent_id")
            if cancels and sent is not None and (cancels[0].get("params") or {}).get("requestId") != sent:
                return ("shared-token/cancel-notification-id", f"request {i}: cancelled notification names {cancels[0].get('params')}, request id {sent!r}", None)
            if x["t"] > r["D"]:
                return ("shared-token/deadline-exceeded", f"request {i} completed {x['t']} ticks after its start, deadline {r['D']}", None)
            if fire is not None and fire <= x["start"]:
                if x["outcome"] != "cancelled" or reqs:
                    return ("shared-token/sent-after-cancel", f"request {i} started at {x['start']} after the token fired at {fire}: outcome {x['outcome']}, requests written {len(reqs)}", None)
            if fire is not None and x["start"] + x["t"] > max(fire, x["start"]) + P:
                return ("shared-token/cancel-latency", f"request {i}: token fired at {fire}, call ended at {x['start'] + x['t']}", None)
            if x["outcome"] == "cancelled" and (fire is None or fire > x["start"] + x["t"]):
                return ("shared-token/cancelled-without-token", f"request {i} cancelled at {x['start'] + x['t']}, token fire {fire}", None)
        return None

    def shrink_candidates(self, case):
        if len(case["reqs"]) > 1:
            for i in range(len(case["reqs"])):
                c = dict(case)
                c["reqs"] = case["reqs"][:i] + case["reqs"][i + 1:]
                c["gaps"] = (case.get("gaps") or [])[: len(c["reqs"])]
                yield c
        for i, r in enumerate(case["reqs"]):
            for j in range(len(r["ev"])):
                c = dict(case)
                c["reqs"] = [dict(x) for x in case["reqs"]]
                c["reqs"][i]["ev"] = r["ev"][:j] + r["ev"][j + 1:]
                yield c


class TokenOps(Suite):
    """Operation sequences on a real CancellationToken (cancel / add_callback / is_cancelled),
    callbacks that raise included, against Model/Token."""
    name = "token-ops"

    def cases(self, ctx, budget):
        import itertools
        out = []
        alphabet = [["cancel"], ["query"], ["add", 0], ["add", 1]]
        for n in range(0, 5 if budget == "quick" else 7):
            for word in itertools.product(alphabet, repeat=n):
                ops, k = [], 0
                for o in word:
                    if o[0] == "add":
                        ops.append(["add", k])
                        k += 1
                    else:
                        ops.append(list(o))
                for raises in ([], [0], list(range(k))):
                    if raises and not k:
                        continue
                    out.append({"ops": ops, "raises": raises, "exc": len(out) % 11})
        rng = ctx.sub_rng("c14-token", budget)
        for _ in range(300 if budget == "quick" else 20000):
            n, k, ops = rng.randint(5, 14), 0, []
            for _ in range(n):
                r = rng.random()
                if r < 0.25:
                    ops.append(["cancel"])
                elif r < 0.5:
                    ops.append(["query"])
                else:
                    ops.append(["add", k])
                    k += 1
            out.append({"ops": ops, "raises": sorted(set(rng.randint(0, max(0, k)) for _ in range(rng.randint(0, 3)))), "exc": rng.randint(0, 10)})
        return out

    def impl(self, case):
        from chuk_mcp.protocol.messages.send_message import CancellationToken
        tok = CancellationToken()
        raises = set(case["raises"])
        outs = []
        cur = []

        def mk(i):
            def cb():
                cur.append(i)
                if i in raises:
                    raise H._CB_EXCEPTIONS[(case.get("exc", 0) + i) % len(H._CB_EXCEPTIONS)]()
            return cb

        for op in case["ops"]:
            cur.clear()
            raised, answer = False, None
            try:
                if op[0] == "cancel":
                    tok.cancel()
                elif op[0] == "query":
                    answer = bool(tok.is_cancelled)
                else:
                    tok.add_callback(mk(op[1]))
            except Exception:  # noqa
                raised = True
            outs.append({"invoked": list(cur), "raised": raised, "answer": answer})
        return {"cancelled": bool(tok.is_cancelled), "outs": outs}

    def model_line(self, case):
        return {"m": "await", "tokenOps": True, "ops": case["ops"], "raises": case["raises"]}

    def compare(self, case, o, m):
        return None if canon(o) == canon(m) else "differs"

    def kind(self, case, o):
        return f"token/{'cancelled' if o['cancelled'] else 'live'}/raising={bool(case['raises'])}/len{min(len(case['ops']), 6)}"

    def nontrivial(self, case, o):
        return len(case["ops"]) > 1

    def oracle(self, case, o):
        # what the property rests on: the flag is exactly "some cancel() happened so far", and
        # cancel() never raises whatever the callbacks do
        seen = False
        for op, out in zip(case["ops"], o["outs"]):
            if op[0] == "cancel":
                seen = True
                if out["raised"]:
                    return ("token/cancel-raised", f"cancel() raised in {case['ops']} (raising callbacks {case['raises']})", None)
            if op[0] == "query" and out["answer"] != seen:
                return ("token/flag", f"is_cancelled answered {out['answer']} after {case['ops']}", {"answer": seen})
        return None

    def shrink_candidates(self, case):
        for i in range(len(case["ops"])):
            yield dict(case, ops=case["ops"][:i] + case["ops"][i + 1:])


G_ALL = ["R", "R0", "Rx", "E", "E0", "Q", "O", "T", "N", "G", "Gp", "F", "B", "Oe", "Ez", "X", "X"]


def _client_deadlines():
    """the C01 client-calls runs under floods of unrelated traffic and with servers that never answer:
    a call of MCPClient ends within the timeouts it runs under"""
    from .c01 import ClientCalls

    class ClientDeadlines(ClientCalls):
        name = "client-deadlines"
        RKINDS = ["silence", "silence", "ok", "error"]
        N = (160, 6000)
        FLOOD = 0.6

        def oracle(self, case, o):
            v = super().oracle(case, o)
            if v is not None or o.get("harness_errors"):
                return v
            d = self.dflt()
            for i, (spec, r) in enumerate(zip(case["calls"], o["calls"])):
                bound = d[spec["op"]] + (d["initialize"] if any(w["method"] == "initialize" for w in r["writes"]) else 0)
                if r["end"] - r["start"] > bound:
                    return ("client/deadline-exceeded", f"call {i} ({spec['op']}) took {r['end'] - r['start']} ticks; the timeouts it runs under add up to {bound}", {"max": bound})
            return None

    return ClientDeadlines()


def suites():
    return [Schedules(), SharedToken(), TokenOps(), _client_deadlines()]
