"""C15 — client-observable behaviour does not depend on the transport carrying it."""
from __future__ import annotations

from .. import carrier_gen as G
from .. import carrier_h as H
from .. import detect_h as D
from .. import json_h as J
from ..core import canon, sha
from ..runner import Suite

MANIFEST = dict(
    text='Lean 4 composition theorems over the existing carrier models (stdio reader of C05, Streamable-HTTP sender loop and SSE grammar of C11, legacy SSE parser and pending-future machine of C12, JSON codec of C17, envelope of C02, request-helper loop of C01): for EVERY conversation (exchanges of notifications + one reply over an abstract message type) and EVERY free choice of each carrier\'s wire encoding (chunking, LF/CRLF, SSE rendering, object or one-element array, position of the 202 in the legacy-SSE race), if the carrier\'s decoder parameter inverts the text encoding on the conversation\'s messages then the read-stream transcript is exactly conversation.flatten, so any two carriers able to express the conversation give equal transcripts (c15_carrier_agnostic); the decoder hypothesis is discharged for the library\'s real codec (Json.enc . emit / Json.dec + parse_message or model_validate) on all four carriers; helper outcomes are independent of arrival ticks (c15_helpers_agree). Tied to the code by a differential run of the four REAL transports on generated conversations played by a scripted server, the real helpers run through each transport\'s (read, write) pair under virtual time.',
    note='Trusted: Lean kernel; the per-carrier models as tied by C05/C11/C12/C17/C02/C01; the scripted seams (anyio.open_process, httpx.MockTransport, uuid.uuid4) and the virtual-time loop. httpx, anyio and Pydantic are sampled, not proved. Results are JSON objects (as every MCP result); conversations are strictly sequential (concurrent callers: see C18).',
    technique='Lean 4 proof by composition of existing theorems + four-way differential run of the real transports against each other, the scripted conversation and the compiled model pipelines',
    design='5/C15',
)
GEN = []
THEOREMS = [
    "c15_stdio_transcript", "c15_httpJson_transcript", "c15_httpSse_transcript", "c15_sse_transcript",
    "c15_transcript", "c15_carrier_agnostic", "c15_expressible_everywhere",
    "c15_real_codec_stdio", "c15_real_codec_stdio_line", "c15_real_codec_http", "c15_real_codec_sse",
    "c15_real_transcript", "c15_helpers_agree",
    "c15_media_type_spelling", "c15_label_irrelevant", "c15_labelled_transcripts",
]
# Supplementary (Props/C15Supp.lean; never a verdict about C15): the MCPClient layer, the transport-selection
# logic over the tables re-read from the source, the transport factory, several instances in one process
SUPP_GEN = ["UrlRules", "Versions"]
SUPP_THEOREMS = [
    "c15_client_trace_shape", "c15_client_init_once", "c15_client_lazy_init", "c15_client_initialized_stable",
    "c15_client_rejected_args", "c15_client_agnostic", "c15_client_one_result_per_op", "c15_connect_shape",
    "c15_url_heuristics", "c15_detect_sound", "c15_detect_probes", "c15_detect_guard", "c15_fallback_decision", "c15_try_sse_decision",
    "c15_instances_independent", "c15_stdio_instances",
    "c15_block_error_leaves", "c15_block_text_exit_swallows",
]
RULE = (
    "conversations of 1..4 sequential exchanges: client call = every discovered typed helper / send_initialize / "
    "send_message; server answer = 0..3 notifications then a result (helper-shaped or arbitrary object with nested "
    "Unicode: astral, U+2028/2029/0085, combining marks, controls, BOM; nulls, empty containers, 64-bit integers) or an "
    "error of each class (named permanent, named transient, unnamed codes); ids as the client generated them; server "
    "JSON style in {compact,spaced}x{utf8,ascii}; per carrier random wire choices (stdio: CRLF, byte cuts inside "
    "characters; JSON: status, session, one-element array; SSE body: event field, spaces, comments before fields and before the blank line, interleaved data-less / comment-only / typed non-message events, CRLF, tail; legacy "
    "SSE: pre-events, CRLF, cuts, position of the 202; every HTTP reply under a Content-Type in any case with any charset parameter, header names in any case, event streams with a leading BOM) latencies across poll boundaries and the three tie orders of the virtual-time loop (events, timers, io). Each conversation is run "
    "on every real carrier able to express it; compared: carrier vs carrier, carrier vs scripted conversation, "
    "carrier vs the four Lean model pipelines (driver `carrier`, alternately on the very bytes the server wrote and on "
    "the model's own encoding). conversations whose server texts exceed 30000 characters in total (the >= 64 KiB / >= 1 MiB cases) are judged by the model-free oracle only (carrier vs carrier vs script), not by the Lean pipelines; a model pipeline that gives no answer for a case is a machinery error (exit 2), never a divergence. non-trivial = distinct conversation with at least one exchange"
)
TRUSTED = [
    "the carrier models as tied to the code by the checks C05, C11, C12 (inbound pipelines), C17, C02 (codec), C01 (helpers)",
    "httpx.MockTransport / anyio.open_process / uuid.uuid4 seams and the virtual-time loop",
]
ASSUMPTIONS = [
    "a result is a JSON object (every MCP result is one); a non-object result is delivered by stdio (parse_message falls back to the response class) and rejected by the HTTP and SSE transports (JSONRPCMessage.model_validate) - outside the quantifier",
    "conversations are strictly sequential, one outstanding request at a time (concurrent callers: open known finding of C18); a caller that mutates a params object it handed to a call that gave up (the request may still be queued in a transport that sends serially) is outside: the carriers serialise at different moments",
    "HTTP with JSON bodies expresses only exchanges without notifications (one message per body)",
    "integers in payloads fit in 64 bits (-2^63 .. 2^64-1, the domain of C17 `fits64`): outside it the carriers that decode with the json backend (stdio, legacy SSE, SSE bodies: orjson gives a float) and HTTP with JSON bodies (response.json(), stdlib: exact integer) hand different values to the caller; RFC 8259 section 6 calls such numbers not interoperable",
    "the server writes well-formed UTF-8: one invalid byte ends the stdio reader (strict incremental decoder) while the HTTP paths substitute U+FFFD; neither delivers the conversation, and bytes that are no Unicode text are outside 'payload text of any Unicode content' (C05's junk lines are valid text too)",
    "a reply's Content-Type names the kind of body it has (JSON media type for JSON, event-stream media type for event streams) in any spelling and with any parameters; a label of another kind is C11's decision table, not a carrier difference",
]

PAIR_ORDER = H.CARRIERS


def failed(o):
    return o.get("crash") or o.get("deadlock") or o.get("harness_error")


def client_ids(obs):
    for c in PAIR_ORDER:
        o = obs.get(c)
        if o and not failed(o) and o["ids"]:
            return o["ids"]
    return []


def client_sent(obs):
    """the requests the client wrote and the calls that wrote them (from a carrier that did not fail)"""
    for c in PAIR_ORDER:
        o = obs.get(c)
        if o and not failed(o) and o["sent"]:
            return o["sent"], o["sent_calls"]
    return [], []


def has_float(v):
    if isinstance(v, float):
        return True
    if isinstance(v, list):
        return any(has_float(x) for x in v)
    if isinstance(v, dict):
        return any(has_float(x) for x in v.values())
    return False


def of_py(v):
    """Python value -> the PLAIN transport form `Drv.Json.toModel` reads (strings always as code-point
    arrays; the compact nodes `json_h.of_py` emits for very long / deep values belong to C17's driver op)"""
    if v is None or v is True or v is False:
        return v
    if isinstance(v, int):
        return {"i": v}
    if isinstance(v, float):
        return {"f": v.hex()}
    if isinstance(v, str):
        return {"s": [ord(c) for c in v]}
    if isinstance(v, (list, tuple)):
        return {"a": [of_py(x) for x in v]}
    if isinstance(v, dict):
        return {"o": [[[ord(c) for c in k], of_py(x)] for k, x in v.items()]}
    raise TypeError(f"not a JSON value: {type(v).__name__}")


DRIVER_FAILURES = []


def driver_failed(out):
    """a model pipeline that gives no answer for a case is a failure of the machinery (exit 2, raised in
    `extra`), never a divergence between model and code: the case is then judged by the oracle only"""
    if isinstance(out, dict) and "driver_error" in out:
        DRIVER_FAILURES.append(str(out["driver_error"])[:300])
        return True
    return False


def to_py(t):
    """transport form of the driver -> Python value (a float token is read as Python reads it)"""
    if t is None or t is True or t is False:
        return t
    if "i" in t:
        return int(t["i"])
    if "f" in t:
        return float(t["f"])
    if "s" in t:
        return "".join(map(chr, t["s"]))
    if "a" in t:
        return [to_py(x) for x in t["a"]]
    return {"".join(map(chr, k)): to_py(v) for k, v in t["o"]}


LABEL_CLASSES = {
    "media-type-case": "the reply's media type is not written in lower case (media types are case-insensitive)",
    "event-stream-label": "the event stream is labelled with another charset than UTF-8 or starts with a byte order mark "
                          "(event streams are UTF-8 whatever the label says, and one leading BOM is not part of the first line)",
}
LABEL_CLASSES["consumer-slower-than-timeout"] = ("the consumer of the read stream does not read for longer than the transport's request timeout "
                                                 "while more than a full read-stream buffer is queued in front of the reply")
LABEL_CLASSES["id-twins"] = "the client used an integer id and its string twin (7 and \"7\") as request ids on one connection"
LABEL_CLASSES["error-text-cancel-scope"] = ("an exception whose text contains 'cancel scope' (here: an error reply with that message) "
                                             "leaves the stdio context manager's block and is swallowed there")
MODEL_TEXT_LIMIT = 30000   # larger conversations: the four real carriers against each other and the script only


def features(case, obs=None):
    """what a case exercises (printed in the evidence distribution as `feat:*`)"""
    f = set()
    w = case.get("wire") or {}
    for k, x in enumerate(case["xs"]):
        c = x["call"]
        f.add("call:" + (c["h"] if c["h"] in ("send_message", "send_initialize", "raw") else "typed-helper"))
        if c["h"] == "raw":
            v = G.G.idval(c["id"])
            f.add("id:falsy" if not v else ("id:int" if isinstance(v, int) else "id:str"))
            f.add("raw-form:" + c.get("form", "request"))
            if c.get("pause"):
                f.add("slow-consumer" + (":>transport-timeout" if c["pause"] >= G.SSE_TIMEOUT_TICKS else ""))
        elif c.get("id") is not None:
            f.add("id:int" if "i" in c["id"] else "id:str")
        for key in ("progress", "reuse"):
            if c.get(key):
                f.add(key)
        if "error" in x["reply"]:
            e = x["reply"]["error"]
            f.add("error")
            if not e.get("code"):
                f.add("error:code-0")
            if e.get("message") == "":
                f.add("error:message-empty")
            if "data" in e:
                f.add("error:data-" + ("falsy-" if not e["data"] else "") + type(e["data"]).__name__)
        n = len(x.get("notifs", []))
        f.add("notifs:0" if n == 0 else ("notifs:1-3" if n <= 3 else ("notifs:>=99" if n >= 99 else "notifs:4-98")))
        if x.get("after"):
            f.add("after-reply" + (":dup" if any(a.get("dup") for a in x["after"]) else "") + (":burst" if len(x["after"]) >= 99 else ""))
        if x.get("echo"):
            f.add("echo-request")
        if "D" in x:
            f.add(f"tiny-timeout:{x['D']}")
    if len(case["xs"]) > 1:
        f.add("sequential>1")
    st = case.get("style") or {}
    f.add(f"style:{'spaced' if st.get('sp') else 'compact'}/{'ascii' if st.get('ascii') else 'utf8'}")
    for key in ("order", "extra", "nulls", "dup"):
        if st.get(key):
            f.add("style:" + key)
    f.add("tie:" + case.get("tie", "events"))
    if case.get("debug"):
        f.add("logging:DEBUG" + (":formatting-handler" if case["debug"] == "format" else ""))
    if case.get("stderr"):
        f.add("stderr:" + case["stderr"])
    if case.get("escape"):
        f.add("exception-leaves-the-block")
    if '"$lit"' in canon(case["xs"]):
        f.add("lenient-json-literal")
    for x in case["xs"]:
        if x.get("idle"):
            f.add("idle:hours" if x["idle"] >= 3600 * 1024 else "idle:>timeout")
        if x["call"].get("cb_writes"):
            f.add("callback-writes")
        if x["call"].get("subclassed"):
            f.add("params:subclassed")
    if case.get("twin", 1) > 1:
        f.add(f"instances:{case['twin']}")
    if case.get("reenter") is not None:
        f.add("transport-reentered")
    if case.get("abandon"):
        f.add(f"sessions-abandoned-in-flight:{'1-2' if len(case['sessions']) <= 2 else '>=10'}")
    for t, o in (case.get("opts") or {}).items():
        for k in o:
            f.add(f"opt:{t}.{k}")
    n_notifs = sum(len(x.get("notifs", [])) + len(x.get("after", [])) for x in case["xs"])
    if len(case["xs"]) >= 26:
        f.add("long-session" + (":>100-notifications" if n_notifs > 100 else ""))
    for x in case["xs"]:
        if x["call"].get("form") == "raising":
            f.add("unsendable:" + x["call"].get("exc", "TypeError"))
    for a, b in zip(case["xs"], case["xs"][1:]):
        if canon(a["reply"]) == canon(b["reply"]) and ("error" in a["reply"] or "D" in a):
            f.add("same-failure-repeated")
    for key in ("batch", "blank", "eof", "junk"):
        if (w.get("stdio") or {}).get(key):
            f.add("stdio:" + key)

    def label(place, c, ctp="ctp"):
        if c.get(ctp):
            f.add(f"{place}:charset-label:" + ("utf-8" if not G.names_other_charset(c[ctp]) else "other"))
        if c.get("mime", "").lower() != c.get("mime", ""):
            f.add(f"{place}:media-type-case")
        if c.get("bom"):
            f.add(f"{place}:bom")
        if c.get("hname"):
            f.add("header-names:" + c["hname"])
    for c in ([w["json"]] if isinstance(w.get("json"), dict) else (w.get("json") or [])):
        for key in ("batch", "all", "junk"):
            if c.get(key):
                f.add("json:" + key)
        label("json", c)
        if c.get("sess") == "":
            f.add("session-empty")
    for b in ([w["httpsse"]] if isinstance(w.get("httpsse"), dict) else (w.get("httpsse") or [])):
        if b.get("trailing") or any(e.get("before") for e in b.get("evs") or []):
            f.add("httpsse:noise-events")
        label("httpsse", b)
    label("sse-stream", w.get("sse") or {})
    label("sse-200", {"ctp200": (w.get("sse") or {}).get("ctp200")}, "ctp200")
    for key in ("m200", "eof", "untyped"):
        if (w.get("sse") or {}).get(key):
            f.add("sse:" + key)
    if any((w.get("sse") or {}).get("ack") or []):
        f.add("sse:answer-before-ack")
    size = len(canon(case["xs"]))
    if size >= 1 << 20:
        f.add("size>=1MiB")
    elif size >= 1 << 16:
        f.add("size>=64KiB")
    return f


def first_diff(a, b):
    for i, (x, y) in enumerate(zip(a, b)):
        if canon(x) != canon(y):
            return i
    return min(len(a), len(b)) if len(a) != len(b) else None


def sub_multiset(a, b):
    """is the sorted list `a` a sub-multiset of the sorted list `b`?"""
    from collections import Counter
    ca, cb = Counter(a), Counter(b)
    return all(cb[k] >= n for k, n in ca.items())


class Conversations(Suite):
    name = "conversations"
    parallel = True

    def cases(self, ctx, budget):
        names = G.helper_names()
        n = {"quick": 850, "thorough": 20000, "search": 4000}[budget]
        out = list(G.directed(ctx.sub_rng("c15", "directed"), names))
        out += G.sequences(ctx.sub_rng("c15", "sequences"), names)
        out += G.label_matrix(ctx.sub_rng("c15", "labels"))
        out += G.environment_matrix()
        out += G.late_duplicates()
        out += G.lenient_json_matrix()
        out += G.abandoned_sessions()
        out += G.escaping_errors(ctx.sub_rng("c15", "escaping"), names)
        out += G.cases(ctx.sub_rng("c15", budget), n, names)
        m = G.falsy_matrix(ctx.sub_rng("c15", "matrix"))
        out += m if budget != "quick" else ctx.sub_rng("c15", "matrix-sample").sample(m, 40)
        out += G.limits(ctx.sub_rng("c15", "limits", budget), names, budget)
        out += G.long_sessions(ctx.sub_rng("c15", "long", budget), names, budget)
        return out

    def impl(self, case):
        return H.run_case(case)

    # ------------------------------------------------------------------ model
    def model_line(self, case, obs=None):
        if obs is None:
            return None
        sent, calls = client_sent(obs)
        if not sent or any(o and failed(o) for o in obs.values()):
            return None
        if case.get("abandon"):
            return None   # sessions left with a request in flight: carrier vs carrier vs script only
        if '"$lit"' in canon(case["xs"]):
            return None   # literals outside the model's JSON (NaN, 1e400, lone surrogate escapes): carrier vs carrier vs script only
        ref = next(o for o in obs.values() if o)
        xs = [case["xs"][ci] for ci in calls]   # the exchanges that were played (one per request that was written)
        if len(ref["texts"]) != len(xs) or sum(len(t) for ts in ref["texts"] for t in ts) > MODEL_TEXT_LIMIT:
            return None
        ids = [r["id"] for r in sent]
        w = case.get("wire") or {}
        sw, jw, ew = w.get("stdio") or {}, w.get("json") or [], w.get("sse") or {}
        if isinstance(jw, dict):
            jw = [jw] * len(case["xs"])   # one choice for every exchange
        after = any(x.get("after") for x in xs)
        st = case.get("style") or {}
        # the model renders the conversation itself (`rpcWire`) only for plainly written messages; otherwise
        # it is given the very texts / bytes / bodies the scripted server wrote
        text_mode = (int(sha(case), 16) % 2 == 0 or after or bool(st.get("order") or st.get("extra") or st.get("nulls") or st.get("dup"))
                     or has_float(xs) or any("$TOK" in canon(x.get("notifs", [])) for x in xs)
                     or any(x.get("echo") for x in xs))

        def noise(n):
            ch = lambda c: {"sp": c["sp"], "before": list(c.get("before") or [])}
            return {"name": n.get("name"), "data": list(n["data"]), "nc": ch(n.get("nc") or {"sp": True}),
                    "dc": [ch(c) for c in n.get("dc") or []], "after": list(n.get("after") or [])}

        def tid(v):
            return {"s": J.cps(v)} if isinstance(v, str) else {"i": v}

        def M(m, k, i):
            if text_mode:
                return {"k": "text", "t": J.cps(ref["texts"][k][i])}
            if "method" in m:
                return {"k": "notif", "method": J.cps(m["method"]), "params": of_py(m["params"]) if "params" in m else None}
            if "error" in m:
                return {"k": "err", "id": tid(m["id"]), "error": of_py(m["error"])}
            return {"k": "resp", "id": tid(m["id"]), "result": of_py(m["result"])}

        conv = []
        for k, x in enumerate(xs):
            if isinstance(ids[k], bool) or not isinstance(ids[k], (str, int)):
                return None
            b, r, _a = H.messages3(x, sent[k])
            conv.append({"notifs": [M(m, k, i) for i, m in enumerate(b)], "reply": M(r, k, len(b))})
        line = {"m": "carrier", "style": {"sp": bool(st.get("sp")), "ascii": bool(st.get("ascii"))}, "conv": conv}
        so = (obs.get("stdio") or {}).get("wire") or {}
        if after or sw.get("batch") or sw.get("blank"):
            line["stdio_raw"] = {"hex": so.get("hex", ""), "cuts": so.get("cuts", [])}
        line["stdio"] = {"crlf": so.get("crlf", []), "cuts": so.get("cuts", []) if text_mode else [3, 40, 41, 90]}
        jo = obs.get("http_json")
        if jo and (after or any(c.get("all") for c in jw)):
            line["json_raw"] = [{"id": tid(ids[k]), "status": b["status"], "sess": None, "text": J.cps(b["text"])}
                                for k, b in enumerate(jo.get("bodies") or [])]
        if jo:
            line["json"] = [{"id": tid(ids[k]), "status": c.get("status", 200), "sess": c.get("sess"), "batch": bool(c.get("batch"))}
                            for k, c in enumerate([(jw[ci] if ci < len(jw) else {}) for ci in calls])]
            line["json_labels"] = [{"ct": J.cps(c.get("mime", "application/json") + (c.get("ctp") or "")), "bom": False}
                                   for c in [(jw[ci] if ci < len(jw) else {}) for ci in calls]]
        else:
            line["json"] = None
        if after:
            line["httpsse_raw"] = [{"id": tid(ids[k]), "status": b["status"], "sess": None, "text": J.cps(b["text"])}
                                   for k, b in enumerate((obs.get("http_sse") or {}).get("bodies") or [])]
        bodies = []
        hw = w.get("httpsse") or []
        if isinstance(hw, dict):
            hw = [hw] * len(case["xs"])
        for k, c in enumerate([(hw[ci] if ci < len(hw) else {}) for ci in calls]):
            evs = []
            for e in (c.get("evs") or [])[: len(conv[k]["notifs"]) + 1]:
                name = e.get("name")
                evs.append({"name": "absent" if name is None else name, "nc": e.get("nc") or {"sp": True, "before": []},
                            "dc": e.get("dc") or {"sp": True, "before": []}, "after": list(e.get("after") or []),
                            "before": [noise(n) for n in e.get("before") or []]})
            bodies.append({"post": {"id": tid(ids[k]), "status": c.get("status", 200), "sess": c.get("sess")},
                           "evs": evs, "eols": list(c.get("eols") or []), "tail": c.get("tail", "full"),
                           "trailing": [noise(n) for n in c.get("trailing") or []]})
        line["httpsse"] = bodies
        # the declared metadata of each reply (`Model.Label`): header value as written, a BOM in front of the bytes
        line["httpsse_labels"] = [{"ct": J.cps(c.get("mime", "text/event-stream") + (c.get("ctp") or "")), "bom": bool(c.get("bom"))}
                                  for c in [(hw[ci] if ci < len(hw) else {}) for ci in calls]]
        eo = (obs.get("sse") or {}).get("wire") or {}
        if after or any(ew.get("m200") or []) or any(ew.get("untyped") or []):
            # the model's sender / stream schedule (`sseSchedule`) covers exchanges answered with 202 whose reply is
            # the last stream message of the exchange; the other legacy-SSE cases are judged by the oracle only
            line["sse"] = None
        else:
            line["sse"] = {"pre": eo.get("pre", H.DEFAULT_PRE), "crlf": eo.get("crlf", []),
                           "cuts": eo.get("cuts", []) if text_mode else [7, 60, 61], "acks": eo.get("acks", [])}
        return line

    def model_obs(self, out, case):
        if driver_failed(out):
            return {"driver_failed": True}

        def entry(v):
            if v.get("made"):
                return {"made": True}
            mid = v["id"]
            if mid is not None:
                mid = {"s": J.text_of_cps(mid["s"])} if "s" in mid else {"i": mid["i"]}
            return {"id": mid, "method": None if v["method"] is None else J.text_of_cps(v["method"]),
                    "params": None if v["params"] is None else to_py(v["params"]),
                    "result": None if v["result"] is None else to_py(v["result"]),
                    "error": None if v["error"] is None else to_py(v["error"])}
        key = {"stdio": "stdio", "http_json": "json", "http_sse": "httpsse", "sse": "sse"}
        return {c: (None if out.get(k) is None else [entry(v) for v in out[k]]) for c, k in key.items()} | {"bodies_ok": out.get("bodies_ok"), "labels_ok": out.get("labels_ok")}

    def compare(self, case, obs, m):
        if m.get("driver_failed"):
            return None
        if self.oracle(case, obs) is not None:
            return None  # the carriers do not carry the conversation: reported by the oracle with this very input
        if m.get("bodies_ok") is False:
            return "generated SSE body choices are not conformant in the model's sense"
        if m.get("labels_ok") is False:
            return "generated reply labels do not name the kind of body they label (in the model's sense)"
        uns = self.unsendable(case)
        for c in PAIR_ORDER:
            o = self.masked(obs.get(c), uns)
            if o is None:
                continue
            if m.get(c) is None:
                if c == "sse":
                    continue  # not modelled for this case (see model_line)
                return f"{c}: no transcript from the model pipeline"
            if canon(o["transcript"]) != canon(m[c]):
                return f"{c}: transcript differs from the model pipeline"
        return None

    # ------------------------------------------------------------------ oracle (model-free)
    @staticmethod
    def unsendable(case):
        """calls whose message object cannot be serialised: {call index: (typed id, exception class)}"""
        # (likewise a request the caller ABANDONED - it left the session while the request was in flight: whether and
        # where its late reply shows up is not compared, the sessions after it are)
        return {i: (G.G.idtag(G.G.idval(x["call"]["id"])), x["call"].get("exc", "TypeError") if x["call"].get("form") == "raising" else "abandoned")
                for i, x in enumerate(case.get("xs") or []) if x["call"].get("form") == "raising" or x.get("abandoned")}

    @staticmethod
    def unabandoned(case, want):
        ids = {canon(G.G.idtag(G.G.idval(x["call"]["id"]))) for x in case.get("xs") or [] if x.get("abandoned")}
        return [e for e in want if canon(e.get("id")) not in ids] if ids else want

    @staticmethod
    def masked(o, uns):
        """what a carrier does with a message it cannot serialise is its own business (C06 / C11 / C12: stdio
        and legacy SSE drop it, Streamable HTTP ends it with a synthesised error); C15 is about the rest of the
        conversation, which every carrier must go on carrying: entries bearing such a call's id and that
        call's own outcome are left out of the comparison"""
        if not uns or o is None:
            return o
        ids = {canon(v[0]) for v in uns.values()}
        v = dict(o)
        v["transcript"] = [e for e in o["transcript"] if canon(e.get("id")) not in ids]
        v["outcomes"] = [({"outcome": "not-compared"} if i in uns else r) for i, r in enumerate(o["outcomes"])]
        return v

    def oracle(self, case, obs):
        uns = self.unsendable(case)
        view = {c: self.masked(o, uns) for c, o in obs.items()}
        r = self._oracle_core(case, view)
        if r is None:
            r = self._oracle_twins(case, view, uns)
        if r is not None and any(v[1] == "StrRaises" for v in uns.values()):
            # one class, whatever form the loss takes afterwards (missing messages, shifted ids after a re-entry …)
            pair = r[0].split("/", 1)[1] if "/" in r[0] else r[0]
            if isinstance(r[2], dict) and r[2].get("carrier"):
                pair = r[2]["carrier"]   # the carrier that loses the rest of the conversation
            r = (f"after-unprintable-exception/{pair}",
                 "after a message whose serialisation raised an exception whose str() raises: " + r[1], r[2])
        if r is not None and isinstance(r[2], dict) and r[2].get("carrier"):
            # dimensions that have a finding of their own: blamed when the difference goes away without them
            cls = self._blame(case, obs, r[2]["carrier"])
            if cls is not None:
                r = (f"{cls}/{r[2]['carrier']}", LABEL_CLASSES[cls] + ": " + r[1], r[2])
        return r

    def _verdict(self, case, obs):
        uns = self.unsendable(case)
        view = {c: self.masked(o, uns) for c, o in obs.items()}
        return self._oracle_core(case, view) or self._oracle_twins(case, view, uns)

    def _blame(self, case, obs, carrier):
        """re-runs the carrier on the case without each such dimension (one at a time, then all of them)"""
        ns = G.neutralisations(case, carrier)

        def still(c2):
            o2 = dict(obs)
            o2[carrier] = H.run_carrier(c2, carrier)
            r2 = self._verdict(c2, o2)
            return r2 is not None and isinstance(r2[2], dict) and r2[2].get("carrier") == carrier
        for cls, c2 in ns:
            if not still(c2):
                return cls
        if len(ns) > 1:
            # only together: blame the first one in the order of `neutralisations` (a regression of a fixed one first)
            c2 = case
            for cls, _ in ns:
                c2 = dict(G.neutralisations(c2, carrier)).get(cls, c2)
            if not still(c2):
                return ns[0][0]
        return None

    def _oracle_twins(self, case, view, uns):
        """several transport instances of one carrier alive at once, each with its own server playing the
        same conversation: every instance must behave like the carrier (no state shared between instances)"""
        for c in PAIR_ORDER:
            o = view.get(c)
            if o is None or not o.get("twins"):
                continue
            want = self.unabandoned(case, H.expected_transcript(case, o["sent"], o["sent_calls"]))
            for k, t in enumerate(o["twins"], 1):
                t = self.masked(t, uns)
                if t.get("crash") or t.get("deadlock"):
                    return (f"instances-interfere/{c}-vs-{c}", f"instance {k} of {c} fails ({t.get('crash') or 'deadlock'}) while instance 0 carries the conversation", None)
                if canon(t["transcript"]) != canon(want):
                    i = first_diff(t["transcript"], want)
                    return (f"instances-interfere/{c}-vs-{c}",
                            f"{len(o['twins']) + 1} instances of {c} alive at once: the read stream of instance {k} differs from the conversation its own server "
                            f"played at entry {i}: got {canon(t['transcript'][i:i + 1])[:300]}, sent {canon(want[i:i + 1])[:300]}", {"transcript": want})
                if canon(t["outcomes"]) != canon(o["outcomes"]):
                    i = first_diff(t["outcomes"], o["outcomes"])
                    return (f"instances-interfere/{c}-vs-{c}", f"helper call {i} ends differently on instance {k} and instance 0 of {c}: "
                            f"{canon(t['outcomes'][i:i + 1])[:200]} vs {canon(o['outcomes'][i:i + 1])[:200]}", None)
        return None

    def _oracle_core(self, case, obs):
        present = [c for c in PAIR_ORDER if obs.get(c) is not None]
        for c in present:
            if obs[c].get("harness_error"):
                return None  # machinery, not an observation (the runner reports divergences separately)
        ids = client_ids(obs)
        want = self.unabandoned(case, H.expected_transcript(case, *client_sent(obs)))
        good = [c for c in present if not failed(obs[c]) and canon(obs[c]["transcript"]) == canon(want)]

        def other(c):
            for g in good:
                if g != c:
                    return g
            for g in present:
                if g != c:
                    return g
            return "conversation"

        def pair(a, b):
            if b == "conversation":
                return f"{a}-vs-conversation"
            x, y = sorted([a, b], key=PAIR_ORDER.index)
            return f"{x}-vs-{y}"

        for c in present:
            o = obs[c]
            if o.get("crash") or o.get("deadlock"):
                b = other(c)
                what = "deadlocks" if o.get("deadlock") else f"raises {o.get('crash')}"
                return (f"carrier-fails/{pair(c, b)}", f"the conversation {what} on {c} (carried by {b} without failure)",
                        {"carrier": c, "expected": "the conversation is carried"})
        for c in present:
            o = obs[c]
            if canon(o["ids"]) != canon(ids):
                return (f"client-ids/{pair(c, other(c))}", f"{c}: the client generated other request ids than on the other carriers", None)
            if c not in good:
                b = other(c)
                i = first_diff(o["transcript"], want)
                got = o["transcript"][i] if i is not None and i < len(o["transcript"]) else None
                exp = want[i] if i is not None and i < len(want) else None
                gs, ws = sorted(map(canon, o["transcript"])), sorted(map(canon, want))
                if gs == ws:
                    cls = "order"
                elif sub_multiset(ws, gs):
                    cls = "extra-message"
                elif sub_multiset(gs, ws):
                    cls = "missing-message"
                elif got is not None and exp is not None and canon(got["id"] if "id" in got else None) != canon(exp["id"]):
                    cls = "id"
                else:
                    cls = "payload"
                return (f"transcript-{cls}/{pair(c, b)}",
                        f"read stream of {c} differs from the scripted conversation (as delivered by {b}) at entry {i}: got {canon(got)[:300]}, sent {canon(exp)[:300]}",
                        {"carrier": c, "reference": b, "transcript": want})
        # transcripts all equal the conversation; helper outcomes pairwise
        for a in present[1:]:
            ref = present[0]
            if canon(obs[a]["outcomes"]) != canon(obs[ref]["outcomes"]):
                i = first_diff(obs[a]["outcomes"], obs[ref]["outcomes"])
                return (f"helper-outcome/{pair(ref, a)}",
                        f"helper call {i} ends differently on {ref} and {a}: {canon(obs[ref]['outcomes'][i:i + 1])[:300]} vs {canon(obs[a]['outcomes'][i:i + 1])[:300]}",
                        {"outcomes": obs[ref]["outcomes"]})
        # what leaves the carrier's own context manager / Transport block when the helper's exception is not caught inside
        if case.get("escape"):
            for c in present:
                want_b = obs[c].get("escaping") or {"left": "normally"}
                got_b = obs[c].get("block")
                if canon(got_b) != canon(want_b):
                    return (f"block-outcome/{pair(c, other(c))}",
                            f"{c}: the request helper inside the block ended with {canon(obs[c].get('escaping'))[:200]} and was not caught there, "
                            f"but the caller of the block sees {canon(got_b)[:200]} (on {other(c)}: {canon(obs[other(c)].get('block') if other(c) in obs else None)[:200]})",
                            {"carrier": c, "block": want_b})
        return None

    # ------------------------------------------------------------------ bookkeeping
    harness_errors = 0
    feats = None

    def kind(self, case, obs):
        from collections import Counter
        if self.feats is None:
            self.feats = Counter()
        present = [c for c in PAIR_ORDER if obs.get(c) is not None]
        fs = features(case)
        fs.add(f"carriers:{len(present)}")
        for o in obs[present[0]]["outcomes"]:
            fs.add("outcome:" + o["outcome"])
        if obs[present[0]].get("late"):
            fs.add("arrives-after-its-call")
        fs.add("via:" + case.get("via", "cm"))
        for c in present:
            if obs[c].get("factory_unavailable"):
                fs.add("factory-unavailable:" + obs[c]["factory_unavailable"])
        for f in fs:
            self.feats[f] += 1
        if any(obs[c].get("harness_error") for c in present):
            self.harness_errors += 1
            return "harness-error"
        o = obs[present[0]]
        outs = "+".join(sorted({x["outcome"] for x in o["outcomes"]}))
        n = sum(len(x.get("notifs", [])) for x in case["xs"])
        return f"{len(present)}carriers/x{len(case['xs'])}/n{min(n, 3)}/{outs}"

    def nontrivial(self, case, obs):
        return len(case["xs"]) > 0 and not any(o and o.get("harness_error") for o in obs.values())

    def shrink_candidates(self, case):
        return G.shrink_candidates(case)


OP_OF_METHOD = {v: k for k, v in H.OP_METHOD.items()}


class Clients(Conversations):
    """`MCPClient` / `connect_to_server` over the Transport class of each carrier (`create_transport`):
    operation results and errors carrier against carrier and against the scripted conversation (oracle),
    and against the client model (initialize once, lazily, `set_protocol_version` with the answered version)"""
    name = "mcpclient"
    supplementary = True   # its oracle (carrier vs carrier vs script) is the property; the comparison with the client model is not

    def cases(self, ctx, budget):
        n = {"quick": 260, "thorough": 6000, "search": 1500}[budget]
        rng = ctx.sub_rng("c15", "client", budget)
        return G.client_directed(ctx.sub_rng("c15", "client-directed")) + [G.client_case(rng) for _ in range(n)]

    def model_line(self, case, obs=None):
        if obs is None or any(o and failed(o) for o in obs.values()):
            return None
        inits = [x.get("expect") or {"ok": "2025-06-18"} for x in case.get("inits") or []]
        calls = [({"ok": "ok"} if a.get("kind", "ok") == "ok" else {"raise": a["kind"]}) for a in case.get("answers") or []]
        return {"m": "mcpclient", "connect": bool(case.get("connect")), "ops": [o["op"] for o in case["ops"]], "inits": inits, "calls": calls,
                "rejected": [i for i, o in enumerate(case["ops"]) if self.rejects(o)]}

    @staticmethod
    def rejects(o):
        """which operations' helpers refuse their arguments before writing a request (TypeError): `send_tools_call`
        and `send_prompts_get` check `name: str` and `arguments: dict`; `MCPClient.call_tool` hands over
        `arguments or {}` (so any falsy value is an empty object), `get_prompt` hands `arguments` over as it is
        (None = none); `send_resources_read` does not check its uri"""
        if o["op"] in ("call_tool", "get_prompt") and "name" in o and not isinstance(o["name"], str):
            return True
        a = o.get("arguments")
        if o["op"] == "call_tool" and a and not isinstance(a, dict):
            return True
        if o["op"] == "get_prompt" and a is not None and not isinstance(a, dict):
            return True
        return False

    def model_obs(self, out, case):
        return {"driver_failed": True} if driver_failed(out) else out

    @staticmethod
    def shape_of(case, o):
        """the implementation's observation in the model's vocabulary"""
        kinds = []
        if case.get("connect"):
            kinds.append("initialized" if o.get("connected") else "raised")
        for op, r in zip(case["ops"], o["outcomes"]):
            if r["outcome"] != "returned":
                kinds.append("raised")
            elif op["op"] == "init":
                v = r["value"]
                kinds.append("initialized" if isinstance(v, dict) and v.get("$model") == "InitializeResult" else "cached")
            else:
                kinds.append("value")
        trace, sets = [], list(o.get("set_version") or [])
        for req in o["sent"]:
            trace.append({"req": OP_OF_METHOD.get(req["method"], req["method"])})
            if req["method"] == "initialize" and False:
                pass
        return kinds, trace, sets

    def compare(self, case, obs, m):
        if m.get("driver_failed") or self.oracle(case, obs) is not None:
            return None
        want_kinds = [r["k"] for r in m["results"]]
        want_reqs = [e for e in m["trace"] if "req" in e]
        want_sets = [e["set"] for e in m["trace"] if "set" in e]
        for c in PAIR_ORDER:
            o = obs.get(c)
            if o is None:
                continue
            kinds, trace, sets = self.shape_of(case, o)
            if kinds != want_kinds:
                return f"{c}: operations end as {kinds}, the client model says {want_kinds}"
            if canon(trace) != canon(want_reqs):
                return f"{c}: requests written {canon(trace)}, the client model says {canon(want_reqs)}"
            if sets != want_sets:
                return f"{c}: set_protocol_version calls {sets}, the client model says {want_sets}"
            if o.get("connected", True) and "client_initialized" in o and bool(o["client_initialized"]) != bool(m["initialized"]):
                return f"{c}: client.initialized = {o['client_initialized']}, the model says {m['initialized']}"
        return None

    def oracle(self, case, obs):
        r = super().oracle(case, obs)
        if r is not None:
            return r
        present = [c for c in PAIR_ORDER if obs.get(c) is not None]
        ref = present[0]
        for a in present[1:]:
            for key in ("connected", "connect_exc"):
                if obs[a].get(key) != obs[ref].get(key):
                    return (f"helper-outcome/{ref}-vs-{a}", f"connect_to_server ends differently on {ref} and {a}: "
                            f"{obs[ref].get(key)} vs {obs[a].get(key)}", None)
        return None

    def kind(self, case, obs):
        from collections import Counter
        if self.feats is None:
            self.feats = Counter()
        present = [c for c in PAIR_ORDER if obs.get(c) is not None]
        if any(obs[c].get("harness_error") for c in present):
            _SUITE.harness_errors += 1
            return "harness-error"
        o = obs[present[0]]
        fs = {f"client:connect={case.get('connect') or False}", f"carriers:{len(present)}"}
        fs |= {"client:op:" + x["op"] for x in case["ops"]}
        n_init = sum(1 for r in o["sent"] if r["method"] == "initialize")
        fs.add(f"client:initialize-requests:{min(n_init, 3)}")
        fs |= {"client:outcome:" + r["outcome"] for r in o["outcomes"]}
        if o.get("connected") is False:
            fs.add("client:connect-raises")
        for c in present:
            if obs[c].get("factory_unavailable"):
                fs.add("factory-unavailable:" + obs[c]["factory_unavailable"])
        for f in fs:
            _SUITE.feats = _SUITE.feats or Counter()
            _SUITE.feats[f] += 1
        return f"mcpclient/{len(present)}carriers/ops{min(len(case['ops']), 4)}/inits{min(n_init, 3)}"

    def nontrivial(self, case, obs):
        return not any(o and o.get("harness_error") for o in obs.values())

    def shrink_candidates(self, case):
        return G.shrink_client(case)


class Detection(Suite):
    """the transport-selection logic (`is_streamable_http_url`, `is_sse_url`, `detect_transport_type`,
    `try_http_with_sse_fallback`) against the model over the regenerated tables.  Supplementary to the
    property: there is no oracle, a difference is a broken correspondence."""
    name = "detection"
    supplementary = True

    def cases(self, ctx, budget):
        n = {"quick": 1500, "thorough": 20000, "search": 0}[budget]
        rng = ctx.sub_rng("c15", "detect", budget)
        return D.directed() + [D.case(rng) for _ in range(n)]

    def impl(self, case):
        return D.run_case(case)

    def model_line(self, case, obs=None):
        return D.model_line(case, obs)

    def model_obs(self, out, case):
        return {"driver_failed": True} if driver_failed(out) else out

    def compare(self, case, obs, m):
        if obs.get("harness_error") or m.get("driver_failed"):
            return None
        if m.get("translatable") is False:
            _SUITE.feats = _SUITE.feats or __import__("collections").Counter()
            _SUITE.feats["url-tables:not-reread(verified-commit tables)"] += 1
        if canon(obs["factory"]) != canon(D.factory_expected(obs["factory"])):
            return f"transport factory / not-started guards: {canon(obs['factory'])[:300]}"
        a, b = D.shape(obs), D.expected(case, m)
        for k in a:
            if canon(a[k]) != canon(b[k]):
                return f"{k}: the code gives {canon(a[k])[:200]}, the model {canon(b[k])[:200]}"
        return None

    def kind(self, case, obs):
        if obs.get("harness_error"):
            _SUITE.harness_errors += 1
            return "harness-error"
        return (f"detect/{obs['detect']}/fallback-{obs['fallback']['k']}/gets{sum(1 for r in obs['detect_requests'] if r[0] == 'GET')}"
                f"/try_sse-{obs['try_sse']['k']}" + ("/no-http-client" if case.get("client_fails") else ""))

    def nontrivial(self, case, obs):
        return not obs.get("harness_error")

    def shrink_candidates(self, case):
        return D.shrink_candidates(case)


_SUITE = Conversations()
_CLIENTS = Clients()


def suites():
    return [_SUITE, _CLIENTS, Detection()]


def extra(ctx, tier):
    """a harness that could not run a case yields no verdict for it: never pass silently"""
    if (_SUITE.feats or {}).get("url-tables:not-reread(verified-commit tables)"):
        print("INFO property=C15 supplementary=detection: a transport-selection function is outside the shapes the translator "
              "recognises; Gen/UrlRules keeps the tables of the verified commit for it (the correspondence run compares model and code either way)")
    for f, n in sorted((_SUITE.feats or {}).items()):
        ctx.dist["feat:" + f] += n   # coverage of branches / kinds, so that gaps are visible
    _SUITE.feats = None
    if DRIVER_FAILURES:
        n, first = len(DRIVER_FAILURES), DRIVER_FAILURES[0]
        del DRIVER_FAILURES[:]
        raise RuntimeError(f"verif-driver gave no answer for {n} case(s) (first: {first}): no model verdict for them")
    if _SUITE.harness_errors:
        raise RuntimeError(f"C15 harness failed on {_SUITE.harness_errors} case(s): no verdict for them")
