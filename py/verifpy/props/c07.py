"""C07 — an error response always surfaces as a classified exception carrying its code."""
from __future__ import annotations

from ..runner import Suite

MANIFEST = dict(
    text="Lean 4 theorems over ALL integers about the classifier regenerated from types/errors.py on every run (total, non-retryable exactly on the documented permanent set, sets disjoint, named codes partitioned), plus theorems on the timed send_message model that a first-matching error response always raises with the server's code/message and never returns; bool helpers map errors to False; a call of the high-level MCPClient raises the error of ITS OWN request (first unconsumed message bearing that id on the connection), classified by the regenerated classifier. Translation validation of the regenerated function on -33100..-31900, -200..200 and seeded 64-bit values; correspondence of the error path through send_message and every typed helper.",
    note='Trusted: Lean kernel, the AST translator (validated against the real function on the exhaustive grid every run), the correspondence harness; the documented permanent set is pinned from the verified commit.',
    technique='Lean 4 proof over a model regenerated from source by a translator + translation validation + correspondence run',
    design='5/C07',
)
GEN = ["Errors"]
SUPP_GEN = ["Errors"]
SUPP_THEOREMS = ["c07_aux_code_classes", "c07_default_code_regenerated", "c07_aux_message_total", "c07_err_text_carries"]
THEOREMS = [
    "c07_translated",
    "c07_total_classification",
    "c07_permanent_set_as_documented",
    "c07_transient_set_as_documented",
    "c07_sets_disjoint",
    "c07_named_partition",
    "c07_named_classified",
    "c07_error_never_returns",
    "c07_error_class_total",
    "c07_bool_helpers",
    "c07_client_error_is_own",
]
RULE = (
    "classify: every integer in -33100..-31900 and -200..200 (exhaustive) plus seeded 64-bit values, real "
    "is_retryable_error/_process_response vs the regenerated Lean function; error-path: timed histories whose first "
    "client-errors: the C01 client-calls runs (real MCPClient, reactive peer) with error-heavy answers over every documented and unnamed code vs ClientApi.clientSeq; "
    "matching message is an error, through send_message and every typed helper; non-trivial = distinct (code, shape, helper)"
)
TRUSTED = ["Gen/Errors.lean regenerated from types/errors.py (sets, named codes, body of is_retryable_error)"]
ASSUMPTIONS = [
    "the documented permanent set is the one written in types/errors.py at the verified commit (pinned in Props/C07.lean and in this oracle)",
    "anyio memory streams / cancel scopes behave as sampled (virtual-time loop)",
]

# the documented permanent codes (oracle side; independent of the Lean model)
DOCUMENTED_PERMANENT = {-32700, -32600, -32601, -32602, -32003, -32005, -32006, -32007, -32008, -32000}
DOCUMENTED_TRANSIENT = {-32603, -32001, -32002, -32004}


class Classify(Suite):
    name = "classify"

    def cases(self, ctx, budget):
        xs = list(range(-33100, -31899)) + list(range(-200, 201))
        rng = ctx.sub_rng("classify")
        n = 400 if budget == "quick" else 20000
        for _ in range(n):
            xs.append(rng.choice([1, -1]) * rng.getrandbits(rng.choice([8, 16, 31, 32, 63, 64])))
        ctx.exhaustive_parts.append("classify: all ints -33100..-31900 and -200..200")
        return [{"code": c} for c in xs]

    def impl_batch(self, cases):
        from chuk_mcp.protocol.types import errors as E
        from chuk_mcp.protocol.messages.send_message import _process_response
        from chuk_mcp.protocol.messages.json_rpc_message import JSONRPCMessage

        out = []
        for c in cases:
            code = c["code"]
            r = bool(E.is_retryable_error(code))
            cls = None
            carried = None
            try:
                msg = JSONRPCMessage(id="x", error={"code": code, "message": "m"})
                _process_response(msg)
                cls = "returned"
            except E.RetryableError as ex:
                cls, carried = "retryable", ex.code
            except E.NonRetryableError as ex:
                cls, carried = "nonretryable", ex.code
            except Exception as ex:  # noqa
                cls = "other:" + type(ex).__name__
            out.append(
                {
                    "retryable": r,
                    "inNon": code in E.NON_RETRYABLE_ERRORS,
                    "inRet": code in E.RETRYABLE_ERRORS,
                    "named": code in E.ERROR_MESSAGES,
                    "raised": cls,
                    "carried": carried,
                }
            )
        return out

    def model_line(self, case):
        return {"m": "errors", "code": case["code"]}

    def compare(self, case, o, m):
        for k in ("retryable", "inNon", "inRet", "named"):
            if o[k] != m[k]:
                return k
        return None

    def oracle(self, case, o):
        c = case["code"]
        perm = c in DOCUMENTED_PERMANENT
        if o["retryable"] != (not perm):
            return ("classification", f"is_retryable_error({c}) is {o['retryable']} but the code is "
                    f"{'in' if perm else 'not in'} the documented permanent set", {"retryable": not perm})
        want = "nonretryable" if perm else "retryable"
        if o["raised"] != want or o["carried"] != c:
            return ("error-class", f"error response with code {c} surfaced as {o['raised']} carrying {o['carried']}",
                    {"raised": want, "carried": c})
        if o["inNon"] and o["inRet"]:
            return ("sets-overlap", f"code {c} is in both documented sets", None)
        if o["named"] and (o["inNon"] == o["inRet"]):
            return ("named-partition", f"named code {c} is in {'both' if o['inNon'] else 'neither'} documented set", None)
        if o["inNon"] != perm:
            return ("permanent-set", f"NON_RETRYABLE_ERRORS {'contains' if o['inNon'] else 'lacks'} code {c}", None)
        if o["inRet"] != (c in DOCUMENTED_TRANSIENT):
            return ("transient-set", f"RETRYABLE_ERRORS {'contains' if o['inRet'] else 'lacks'} code {c}", None)
        return None

    def kind(self, case, o):
        return "classify/" + ("named" if o["named"] else "unnamed") + "/" + ("retryable" if o["retryable"] else "permanent")


class ErrorHelpers(Suite):
    """Supplementary: get_error_message, is_server_error, is_standard_jsonrpc_error,
    is_mcp_specific_error and the exact exception text of _process_response against their
    regenerated bodies (Gen/Errors, auxiliary part)."""
    name = "error-helpers"
    supplementary = True

    def cases(self, ctx, budget):
        codes = list(range(-32110, -31990)) + list(range(-32710, -32590)) + list(range(-5, 6)) + [100, 404, 499, 599, 2**31, -2**63, 2**63 - 1]
        if budget != "quick":
            codes = sorted(set(codes) | set(range(-33100, -31900)) | set(range(-200, 700)))
        msgs = [None, "boom", "", "%s %d {0} {}", "é\u2028😀", "line1\nline2", " padded "]
        out = []
        for i, c in enumerate(codes):
            out.append({"code": c, "msg": msgs[i % len(msgs)]})
        rng = ctx.sub_rng("c07-helpers", budget)
        for _ in range(200 if budget == "quick" else 5000):
            out.append({"code": rng.randint(-2**63, 2**63 - 1), "msg": rng.choice(msgs)})
        return out

    def impl(self, case):
        from chuk_mcp.protocol.types import errors as E
        from chuk_mcp.protocol.messages.send_message import _process_response
        from chuk_mcp.protocol.messages.json_rpc_message import JSONRPCMessage
        c = case["code"]
        err = {"code": c}
        if case["msg"] is not None:
            err["message"] = case["msg"]
        try:
            _process_response(JSONRPCMessage(id="x", error=err))
            text = None
        except (E.RetryableError, E.NonRetryableError) as ex:
            text = str(ex)
        except Exception as ex:  # noqa
            text = "other:" + type(ex).__name__
        return {"server": bool(E.is_server_error(c)), "standard": bool(E.is_standard_jsonrpc_error(c)),
                "mcp": bool(E.is_mcp_specific_error(c)), "message": E.get_error_message(c), "text": text}

    def model_line(self, case):
        return {"m": "errors", "code": case["code"], "msg": case["msg"]}

    def compare(self, case, o, m):
        if not m.get("aux", True):
            # the auxiliary part was not regenerated on this run: nothing to compare with
            if not getattr(self, "_noted", False):
                self._noted = True
                print("INFO property=C07 supplementary=error-helpers: Gen/Errors auxiliary part not translatable from the current source; "
                      "c07_aux_* / c07_err_text_carries hold vacuously on this run")
            return None
        for k in ("server", "standard", "mcp", "message", "text"):
            if o[k] != m[k]:
                return k
        return None

    def oracle(self, case, o):
        # the one clause of the property these helpers touch: the exception carries the server's message
        if case["msg"] is not None and (o["text"] is None or case["msg"] not in o["text"]):
            return ("error-message-lost", f"error {case['code']} with message {case['msg']!r} surfaced as {o['text']!r}", {"text": case["msg"]})
        return None

    def kind(self, case, o):
        return "helpers/" + ("server" if o["server"] else "standard" if o["standard"] else "other") + ("/msg" if case["msg"] is not None else "/nomsg")

    def nontrivial(self, case, o):
        return True


def _client_errors():
    """the C01 client-calls suite with error-heavy answers over every documented code and unnamed ones"""
    from .c01 import ClientCalls

    class ClientErrors(ClientCalls):
        name = "client-errors"
        RKINDS = ["error", "error", "error", "ok", "ok-dup"]
        CODES = [-32700, -32600, -32601, -32602, -32603, -32000, -32001, -32002, -32003, -32004, -32005, -32006, -32007, -32008,
                 0, 1, -1, 429, 500, -32099, -32768, 2 ** 31, -(2 ** 40)]
        N = (600, 20000)

        def oracle(self, case, o):
            v = super().oracle(case, o)
            if v is not None:
                return v
            # a call whose own request got an error as the first message bearing its id raises one of the
            # two documented classes with the server's code
            if o.get("harness_errors"):
                return None
            for i, (spec, r) in enumerate(zip(case["calls"], o["calls"])):
                own = [w for w in r["writes"] if w["id"] is not None and w["method"] and w["method"] != "initialize"]
                if not own:
                    continue
                sent = own[0]["id"]
                first = next((ev for _, ev in o["stream"] if ev["k"] in ("resp", "err") and ev["id"] == ({"s": sent} if isinstance(sent, str) else {"i": sent})), None)
                if first is not None and first["k"] == "err":
                    arrived = next(t for t, ev in o["stream"] if ev is first)
                    if arrived - own[0]["tick"] >= self.dflt()[spec["op"]]:
                        continue
                    code = first.get("code")
                    if r["outcome"] != "raised":
                        return ("client/error-response-not-raised", f"call {i} ({spec['op']}): the first message bearing its id is the error {first}, outcome {r['outcome']}", {"outcome": "raised", "code": code})
                    if r["code"] != code or r["retryable"] != (code not in DOCUMENTED_PERMANENT):
                        return ("client/error-misclassified", f"call {i} ({spec['op']}): error code {code} surfaced as code {r['code']} retryable={r['retryable']}", {"code": code, "retryable": code not in DOCUMENTED_PERMANENT})
            return None

    return ClientErrors()


def suites():
    from . import c07_errpath
    return [Classify()] + c07_errpath.suites() + [ErrorHelpers(), _client_errors()]
