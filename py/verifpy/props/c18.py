"""C18 — concurrent requests on one connection: no cross-talk and no lost responses."""
from __future__ import annotations

import itertools

from .. import shared_h as S
from ..core import canon
from ..runner import Suite

MANIFEST = dict(
    text="Lean 4 theorems: (a) no cross-talk for EVERY hand-off schedule (whatever sub-history of the shared stream a caller consumes, a returned value is the payload of a response bearing that caller's id) and for the simulation of anyio's longest-waiting-receiver hand-off with n callers; (b) 'no lost responses' is REFUTED: a machine-checked two-caller witness trace in which both responses were sent in time and both callers time out, with the partial positive theorem for a single caller. The simulation is tied to the real send_message by a correspondence run of 1..4 concurrent callers under the virtual-time loop; the witness is replayed on the real code every run (known finding).",
    note="Trusted: Lean kernel, correspondence harness, virtual-time loop; anyio's hand-off rule (item goes to the longest-waiting receiver) is modelled and sampled, not proved; schedules with coinciding timers of different callers are outside the model (heap order inside asyncio).",
    technique="Lean 4 proof (invariant over a discrete-event simulation + scheduler-independent corollary of the C01 soundness theorem; refutation by a kernel-evaluated witness) + correspondence run under virtual time",
    design="5/C18",
)
GEN = ["Errors"]
THEOREMS = [
    "c18_no_cross_talk_any_schedule", "c18_no_cross_talk", "c18_lost_response_witness", "c18_no_loss_partial", "c18_each_message_consumed_once", "c18_loss_only_by_other_waiter"]
RULE = (
    "1..4 callers started at distinct ticks on one stream pair x every permutation of the answer order x answer ticks "
    "around poll boundaries (tie-free residues) x interleaved notifications / foreign responses / duplicate answers / errors; "
    "real send_message x n under the virtual-time loop vs Shared.sim; non-trivial = distinct case with >= 2 callers; "
    "stdio-burst: one caller on a real StdioClient (scripted child): answer after 0..400 (thorough ..2500) notifications in one or two reads, "
    "negotiated versions, one batch line, a poison line before the answer, a one-shot per-request monitor stream for the same / another id "
    "kept open or closed before the answer, results that are falsy / not objects / null"
)
TRUSTED = ["anyio memory-stream hand-off order and cancel scopes (sampled under the virtual-time loop)"]
ASSUMPTIONS = ["no two timer/arrival instants of different callers coincide in the generated schedules"]

P = S.P


def mk_case(n, order, slots, extras, Dk, auto_ids=False):
    """n callers; `order` = permutation of caller indices (answer order; None = not answered);
    `slots` = poll-period index of each answer; extras = list of (slot, kind)."""
    callers = [{"id": (None if auto_ids else {"s": f"req-{i}"}), "start": i, "D": Dk[i] * P + 256} for i in range(n)]
    ev = []
    seq = 0
    for pos, (who, q) in enumerate(zip(order, slots)):
        seq += 1
        a = q * P + 16 + seq
        if who is None:
            continue
        kind, i = who
        if kind == "resp":
            ev.append([a, {"k": "resp", "id": {"$CALLER": i}, "p": {"for": i, "n": pos}}])
        else:
            ev.append([a, {"k": "err", "id": {"$CALLER": i}, "code": -32603, "msg": f"e{i}"}])
    for q, kind in extras:
        seq += 1
        a = q * P + 16 + seq
        if kind == "notif":
            ev.append([a, {"k": "notif", "method": "notifications/message"}])
        elif kind == "foreign":
            ev.append([a, {"k": "resp", "id": {"s": "nobody"}, "p": {"x": 1}}])
        elif kind == "req":
            ev.append([a, {"k": "req", "id": {"$CALLER": 0}, "method": "roots/list"}])
        elif kind == "nullerr":
            # an error the server could not attribute to any request (id null)
            ev.append([a, {"k": "err", "id": None, "code": [-32700, -32600][seq % 2], "msg": "unattributable"}])
    ev.sort(key=lambda x: x[0])
    return {"callers": callers, "ev": ev}


class Concurrent(Suite):
    name = "concurrent"
    parallel = True

    def cases(self, ctx, budget):
        out = []
        # exhaustive: every answer permutation for n = 1..3 (quick) / ..4 (thorough), two slot patterns
        maxn = 4
        for n in range(1, maxn + 1):
            for perm in itertools.permutations(range(n)):
                for slots in ([0] * n, list(range(n)), [1] * n):
                    for extras in ([], [(0, "notif")], [(0, "notif"), (1, "foreign")], [(0, "nullerr")]):
                        out.append(mk_case(n, [("resp", i) for i in perm], slots, extras, [4] * n))
                        if not extras:
                            out.append(mk_case(n, [("resp", i) for i in perm], slots, extras, [4] * n, auto_ids=True))
        # a single caller answered exactly on its poll boundaries, in the order a real reader task
        # produces ("io": the item is handed over before the timer callback runs, the caller
        # resumes after it) — nobody else can have consumed the response
        for k in (1, 2, 3, 4):
            for tie in ("io", "events", "timers"):
                for pre in ([], [(0, "notif")]):
                    c = {"callers": [{"id": {"s": "solo"}, "start": 0, "D": 5 * P + 256}],
                         "ev": [[q * P + 16 + j, {"k": "notif", "method": "notifications/message"}] for j, (q, _) in enumerate(pre)]
                         + [[k * P, {"k": "resp", "id": {"$CALLER": 0}, "p": {"for": 0, "n": k}}]],
                         "tie": tie}
                    out.append(c)
        # callers whose ids differ only in JSON type (7 and "7"), answered in both orders
        for first in (0, 1):
            for gap in (1, P + 40):
                ids = [{"i": 7}, {"s": "7"}]
                ev = [[16 + 1, {"k": "resp", "id": {"$CALLER": first}, "p": {"for": first}}],
                      [16 + 2 + gap, {"k": "resp", "id": {"$CALLER": 1 - first}, "p": {"for": 1 - first}}]]
                out.append({"callers": [{"id": ids[0], "start": 0, "D": 4 * P + 256}, {"id": ids[1], "start": 1, "D": 4 * P + 256}], "ev": ev})
        # SEQUENTIAL use of one connection (no model: oracle only): the second call must not be
        # disturbed by what the first left behind (late / duplicate / early answers, state kept by
        # the library between calls)
        for auto in (False, True):
            for tie in ("events", "io"):
                ids = [None, None] if auto else [{"s": "seq-0"}, {"s": "seq-1"}]
                two = [{"id": ids[0], "start": 0, "D": 300}, {"id": ids[1], "start": 400, "D": 2 * P}]
                r = lambda i, a, tag: [a, {"k": "resp", "id": {"$CALLER": i}, "p": {"for": i, "tag": tag}}]
                for ev in ([r(0, 100, "a"), r(1, 500, "b")],
                           [r(0, 450, "late"), r(1, 460, "b")],
                           [r(0, 100, "a"), r(0, 450, "dup"), r(1, 470, "b")],
                           [r(0, 100, "a"), [430, {"k": "notif", "method": "notifications/message"}], r(1, 440, "b")],
                           [[120, {"k": "err", "id": {"$CALLER": 0}, "code": -32603, "msg": "x"}], r(1, 900, "b")]):
                    out.append({"callers": [dict(c) for c in two], "ev": ev, "tie": tie, "sequential": True})
        rng = ctx.sub_rng("c18", budget)
        m = 4000 if budget == "quick" else 100000
        for _ in range(m):
            n = rng.randint(1, 4)
            k = rng.randint(0, n + 2)
            order = []
            for _ in range(k):
                r = rng.random()
                order.append(None if r < 0.1 else (("resp" if rng.random() < 0.8 else "err"), rng.randrange(n)))
            slots = sorted(rng.randint(0, 5) for _ in range(k))
            extras = [(rng.randint(0, 5), rng.choice(["notif", "foreign", "req", "nullerr"])) for _ in range(rng.randint(0, 4))]
            out.append(mk_case(n, order, slots, extras, [rng.randint(1, 5) for _ in range(n)], auto_ids=rng.random() < 0.4))
        ctx.exhaustive_parts.append("concurrent: every permutation of the answer order for 1..4 callers")
        return out

    def impl(self, case):
        return S.run_case(case)

    def model_line(self, case, o=None):
        if case.get("sequential"):
            return None  # late starters: compared by the oracle only
        return S.model_line(case, o)

    def model_obs(self, out, case):
        return out

    def compare(self, case, o, m):
        if not isinstance(m, list) or len(m) != len(o["callers"]):
            return "model output shape"
        for a, b in zip(o["callers"], m):
            aa = {k: a.get(k) for k in ("outcome", "t", "got", "p", "retryable", "code") if a.get(k) is not None or k in ("outcome", "t", "got")}
            bb = {k: b.get(k) for k in ("outcome", "t", "got", "p", "retryable", "code") if b.get(k) is not None or k in ("outcome", "t", "got")}
            if canon(aa) != canon(bb):
                return "caller differs"
        return None

    def kind(self, case, o):
        outs = sorted(c["outcome"] for c in o["callers"])
        return f"n{len(case['callers'])}/" + ",".join(outs)

    def nontrivial(self, case, o):
        return len(case["callers"]) >= 2

    def oracle(self, case, o):
        wire = [c.get("wire_id") for c in o["callers"]]
        for i in range(len(wire)):
            for j in range(i + 1, len(wire)):
                if wire[i] is not None and wire[i] == wire[j] and type(wire[i]) is type(wire[j]):
                    return ("duplicate-request-id", f"callers {i} and {j} both put id {wire[i]!r} on the wire: their responses cannot be told apart", None)
        for i, (spec, c) in enumerate(zip(case["callers"], o["callers"])):
            mine = [(a, ev) for a, ev in case["ev"] if ev["k"] in ("resp", "err") and ev["id"] is not None
                    and ev["id"] in ({"$CALLER": i}, spec.get("id"))]
            if c["outcome"] == "exception":
                return ("unexpected-exception", f"caller {i}: {c.get('exc')}", None)
            if c["outcome"] == "raised" and not any(ev["k"] == "err" for _, ev in mine):
                return ("cross-talk", f"caller {i} (id {spec['id']}) raised a server error although no error response bears its id", None)
            if c["outcome"] == "returned":
                if not any(ev["k"] == "resp" and ev["p"] == c.get("p") for _, ev in mine):
                    return ("cross-talk", f"caller {i} (id {spec['id']}) was handed {c.get('p')!r}, which no response to it carries", {"p": [ev.get("p") for _, ev in mine]})
            if c["outcome"] == "timeout" and mine and mine[0][0] < spec["start"] + spec["D"]:
                a = mine[0][0]
                receivers = [j for j, t in o["log"] if t == a]
                if receivers and receivers[0] != i:
                    return ("lost-response/discarded-by-other-waiter",
                            f"caller {i}'s response arrived at tick {a} < deadline {spec['start'] + spec['D']} but was received and discarded by caller {receivers[0]}; caller {i} timed out",
                            {"caller": i, "outcome": "returned"})
                return ("lost-response/other", f"caller {i}'s response arrived at tick {a} in time, nobody else consumed it, yet it timed out", {"caller": i, "outcome": "returned"})
        return None

    def shrink_candidates(self, case):
        ev = case["ev"]
        for i in range(len(ev)):
            yield {"callers": case["callers"], "ev": ev[:i] + ev[i + 1:]}
        if len(case["callers"]) > 2:
            for i in range(len(case["callers"])):
                cs = case["callers"][:i] + case["callers"][i + 1:]
                if not any(isinstance(e.get("id"), dict) and "$CALLER" in e["id"] for _, e in ev):
                    yield {"callers": cs, "ev": ev}




POISON = ["text", "deep-array", "deep-object", "huge-int", "huge-float", "lone-surrogate", "nan", "truncated", "nul", "two-docs", "bom"]


def poison_line(kind):
    """one stdout line that is not a JSON-RPC message"""
    return {
        "text": "INFO server started (pid 4242)",
        "deep-array": "[" * 100000 + "]" * 100000,          # the decoders give up on this with different exceptions
        "deep-object": '{"a":' * 50000 + "1" + "}" * 50000,
        "huge-int": '{"jsonrpc":"2.0","method":"n","params":{"n":' + "9" * 6000 + "}}",   # int() digit limit
        "huge-float": '{"jsonrpc":"2.0","method":"n","params":{"x":1e99999}}',
        "lone-surrogate": '{"jsonrpc":"2.0","method":"n","params":{"t":"\\ud83d"}}'.replace("\\\\", "\\"),
        "nan": '{"jsonrpc":"2.0","method":"n","params":{"x":NaN}}',
        "truncated": '{"jsonrpc":"2.0","id":9,"result":{"a":1}',
        "nul": "\x00\x00\x00",
        "two-docs": '{"a":1}{"b":2}',
        "bom": "\ufeff{}",
    }[kind]


class StdioBurst(Suite):
    """One caller on a REAL stdio connection (StdioClient behind the scripted-process seam): the
    child answers after a burst of K unrelated notifications written in one go.  K straddles the
    size of the transport's incoming buffer.  No other waiter exists, so a lost response here is
    never the known multi-caller finding."""

    name = "stdio-burst"

    def cases(self, ctx, budget):
        ks = [0, 1, 3, 50, 99, 100, 101, 150, 400]
        if budget != "quick":
            ks += [98, 102, 199, 200, 201, 1000, 2500]
        out = []
        for k in ks:
            for split in (False, True):
                out.append({"k": k, "split": split, "id": f"burst-{k}", "D": 4 * P})
        # the same bursts on a connection whose protocol version has been negotiated (what
        # stdio_client_with_initialize / MCPClient do): with and without batching support
        for ver in ("2025-06-18", "2025-03-26", "2024-11-05"):
            for k in (ks if budget != "quick" else [0, 1, 3, 99, 101]):
                for split in (False, True):
                    out.append({"k": k, "split": split, "id": f"burst-{k}", "D": 4 * P, "ver": ver})
        # a line that is not a message precedes the answer (log noise, a document the decoder gives up
        # on in an unusual way): it is dropped alone, the answer behind it still arrives
        for poison in POISON:
            for split in (False, True):
                for ver in (None, "2025-06-18"):
                    c = {"k": 2, "split": split, "id": "burst-p", "D": 4 * P, "poison": poison}
                    if ver:
                        c["ver"] = ver
                    out.append(c)
        # a server that writes its output as ONE JSON-RPC batch line (legal before 2025-06-18 and when
        # no version has been negotiated): the members reach the caller as if written one by one
        for ver in (None, "2025-03-26", "2024-11-05"):
            for k in ([0, 1, 3, 50] if budget == "quick" else [0, 1, 2, 3, 50, 99, 100, 101, 400]):
                for split in (False, True):
                    for pos in ("last", "first", "middle"):
                        c = {"k": k, "split": split, "id": f"burst-{k}", "D": 4 * P, "batch": pos}
                        if ver:
                            c["ver"] = ver
                        out.append(c)
        # somebody else listens for the same (or another) id through the one-shot per-request
        # stream of the client (`new_request_stream`) and keeps it open, or has given up and closed
        # it before the answer arrives: the caller's own delivery on the main stream is unaffected
        for mon in ("open", "closed", "other-open", "other-closed"):
            for k in ([0, 3, 101] if budget == "quick" else [0, 1, 3, 99, 100, 101, 400]):
                for split in (False, True):
                    for ver in (None, "2025-06-18"):
                        c = {"k": k, "split": split, "id": f"burst-{k}", "D": 4 * P, "monitor": mon}
                        if ver:
                            c["ver"] = ver
                        out.append(c)
        # the SECOND connection on one client object, after a first whose child died in the middle of a
        # line / of a multi-byte character / after a complete line: the new child's answer still arrives
        for prior in ("midline", "midchar", "clean", "midline+midchar"):
            for k in (0, 3):
                for split in (False, True):
                    for ver in (None, "2025-06-18"):
                        c = {"k": k, "split": split, "id": f"burst-{k}", "D": 4 * P, "prior": prior}
                        if ver:
                            c["ver"] = ver
                        out.append(c)
        # results that are not an object, falsy, or null: the response still reaches its caller; text with
        # characters some line splitters treat as line ends, written raw (as orjson / JSON.stringify do)
        for payload in (None, {}, [], 0, False, "", [1, None], "text", 7.5, {"n": None},
                        {"t": "a\u2028b"}, {"t": "x\u2029"}, {"t": "\x85y"}, "\u2028", {"\u2029k": ["\x0b", "\x0c", "\x1c", "\x1d", "\x1e"]}):
            for k in (0, 2):
                for ver in (None, "2025-06-18"):
                    c = {"k": k, "split": False, "id": f"burst-{k}", "D": 4 * P, "payload": payload}
                    if ver:
                        c["ver"] = ver
                    out.append(c)
        # answers whose TEXT one JSON decoder of the library accepts and a stricter one refuses (a lone
        # surrogate escape as JSON.stringify writes for text cut inside an emoji, NaN / Infinity as Python's
        # json.dumps writes, a number beyond double range): written by the child exactly as given
        for raw in ('{"t":"\\ud83d"}', '{"t":"a\\udc00b"}', '{"v":NaN}', '{"v":[Infinity,-Infinity]}', '{"v":1e400}', '{"v":-1E+400}', '[NaN]', '"\\ud83d"'):
            for k in (0, 2):
                for ver in (None, "2025-06-18"):
                    c = {"k": k, "split": False, "id": f"burst-{k}", "D": 4 * P, "rawResult": raw}
                    if ver:
                        c["ver"] = ver
                    out.append(c)
        return out

    @staticmethod
    def want(case):
        return case["payload"] if "payload" in case else {"answer": case["k"]}

    def impl_batch(self, cases):
        import anyio
        import json as _json

        from .. import stdio_h, vloop
        from chuk_mcp.protocol.messages.send_message import send_message
        from chuk_mcp.transports.stdio.parameters import StdioParameters

        mod = stdio_h.stdio_module()
        holder = {}

        async def one(case):
            lines = [_json.dumps({"jsonrpc": "2.0", "method": "notifications/message", "params": {"i": i}}) for i in range(case["k"])]
            if case.get("poison"):
                lines.append(poison_line(case["poison"]))
            if case.get("rawResult") is not None:
                lines.append('{"jsonrpc":"2.0","id":' + _json.dumps(case["id"]) + ',"result":' + case["rawResult"] + '}')
            else:
                lines.append(_json.dumps({"jsonrpc": "2.0", "id": case["id"], "result": StdioBurst.want(case)}, ensure_ascii=False))
            if case.get("batch"):
                items = [_json.loads(x) for x in lines]
                resp = items.pop()
                at = {"last": len(items), "first": 0, "middle": len(items) // 2}[case["batch"]]
                items.insert(at, resp)
                lines = [_json.dumps(items)]
            data = ("\n".join(lines) + "\n").encode()
            chunks = [data] if not case["split"] else [data[: len(data) // 2], data[len(data) // 2:]]
            client = mod.StdioClient(StdioParameters(command="verif-fake-child", args=[]))
            o = {}
            for part in (case.get("prior") or "").split("+"):
                if not part:
                    continue
                tail = {"midline": b'{"jsonrpc":"2.0","method":"notifications/message","params":{"i":"left ov',
                        "midchar": b'{"jsonrpc":"2.0","method":"notifications/message","params":{"i":"caf\xc3',
                        "clean": b'{"jsonrpc":"2.0","method":"notifications/message","params":{"i":0}}\n'}[part]
                p0 = stdio_h.FakeProcess([("chunk", tail)])
                holder["proc"] = p0
                p0.client = client
                try:
                    async with client:
                        await anyio.sleep(8 * vloop.TICK)
                except Exception as ex:  # noqa
                    o["prior_exc"] = type(ex).__name__
            proc = stdio_h.FakeProcess([("chunk", c) for c in chunks])
            holder["proc"] = proc
            proc.client = client
            try:
                async with client:
                    read, write = client.get_streams()
                    if case.get("ver"):
                        client.set_protocol_version(case["ver"])
                    if case.get("monitor"):
                        rs = client.new_request_stream(case["id"] if not case["monitor"].startswith("other") else "someone-else")
                        if case["monitor"].endswith("closed"):
                            rs.close()
                        holder["monitor"] = rs
                    try:
                        o["p"] = await send_message(read, write, "tools/call", {"k": case["k"]},
                                                    timeout=case["D"] * vloop.TICK, message_id=case["id"])
                        o["outcome"] = "returned"
                    except TimeoutError:
                        o["outcome"] = "timeout"
                    except Exception as ex:  # noqa
                        o["outcome"] = "exception"
                        o["exc"] = type(ex).__name__
            except Exception as ex:  # noqa
                o.setdefault("outcome", "harness-error")
                o["exc"] = type(ex).__name__
            return o

        async def main():
            return [await one(c) for c in cases]

        saved = stdio_h._patched(mod, holder)
        try:
            return vloop.run(main)
        finally:
            stdio_h._restore(saved)

    def model_line(self, case, o=None):
        ev = [[1, {"k": "notif", "method": "notifications/message"}] for _ in range(case["k"])]
        if ("payload" in case and case["payload"] is None) or case.get("rawResult") is not None:
            return None  # result: null / non-finite numbers are outside the model's payloads: oracle only
        ev.append([1, {"k": "resp", "id": {"s": case["id"]}, "p": self.want(case)}])
        return {"m": "await", "id": {"s": case["id"]}, "D": case["D"], "P": P, "ev": ev, "eventsFirst": True}

    def model_obs(self, out, case):
        return {"outcome": out.get("outcome"), "p": out.get("p")}

    def compare(self, case, o, m):
        return None if (o.get("outcome"), o.get("p")) == (m.get("outcome"), m.get("p")) else "differs"

    def kind(self, case, o):
        return f"stdio-burst/{o.get('outcome')}/k{'<100' if case['k'] < 100 else '>=100'}/ver={case.get('ver')}" + ("/batch" if case.get("batch") else "") + (f"/monitor={case['monitor']}" if case.get("monitor") else "") + (f"/prior={case['prior']}" if case.get("prior") else "") + ("/payload=" + type(case["payload"]).__name__ if "payload" in case else "") + ("/raw-text" if case.get("rawResult") is not None else "") + ("/poison=" + case["poison"] if case.get("poison") else "")

    def nontrivial(self, case, o):
        return case["k"] > 0

    def oracle(self, case, o):
        if case.get("rawResult") is not None:
            # the unmodified library delivers these answers (its decoder falls back to the lenient one):
            # what the caller is handed is whatever that decoder makes of the text; that the response
            # REACHES its caller is the property
            if o.get("outcome") in ("returned", "harness-error"):
                return None
            return ("lost-response/other", f"single caller on a stdio connection: its response (result {case['rawResult']}) never reached it ({o.get('outcome')} {o.get('exc', '')})", {"outcome": "returned"})
        if "payload" in case and case["payload"] is None:
            # what the caller is handed for `result: null` is not defined by the property; that the
            # response REACHES it is
            if o.get("outcome") in ("returned", "harness-error"):
                return None
            return ("lost-response/other", f"single caller on a stdio connection: its response (result: null) never reached it ({o.get('outcome')} {o.get('exc', '')})", {"outcome": "returned"})
        if o.get("outcome") == "returned" and o.get("p") == self.want(case) and type(o.get("p")) is type(self.want(case)):
            return None
        if o.get("outcome") == "returned":
            return ("cross-talk", f"single caller on stdio was handed {o.get('p')!r}", {"p": self.want(case)})
        if o.get("outcome") == "harness-error":
            return None
        return ("lost-response/other", f"single caller on a stdio connection: the response written after a burst of {case['k']} notifications never reached it ({o.get('outcome')})", {"outcome": "returned"})

    def shrink_candidates(self, case):
        for k in (100, 101, case["k"] // 2):
            if 0 <= k < case["k"]:
                yield dict(case, k=k, id=f"burst-{k}")
        if case.get("ver") and not case.get("batch"):
            c = dict(case)
            c.pop("ver")
            yield c


def suites():
    return [Concurrent(), StdioBurst()]
