"""C06 - stdio outbound framing: one message, one line, in order, content preserved."""
from __future__ import annotations

import json
import os
import subprocess
import sys

from ..runner import Suite
from .. import core, stdio_gen as G, stdio_out as O

MANIFEST = dict(
    text="Lean 4 theorems about an executable model of StdioClient._stdin_writer over the shared JSON model (Model/Json.lean: values, encoders of every separator / ensure_ascii style, RFC 8259 decoder) and the envelope model (Model/Rpc.lean: emit = the message with absent optional members omitted): for every sequence of outbound items (plain dict by its value, typed envelope, pre-serialised single-line string, unserialisable object) of any length and every encoder style, the bytes the child receives split at LF into exactly the encodings of the serialisable items' lines, in order, nothing left over; no line contains a raw LF or CR; the bytes are valid UTF-8 decoding back to the lines; CONTENT: the line of a dict decodes (UTF-8, then Json.dec) to exactly its value, the line of a typed envelope to exactly Rpc.emit m and, parsed by the library's parser model, to the message that was sent, and the whole byte stream split at LF and decoded line by line is the list of the accepted messages' values in order (c06_decodes_to_message, c06_stream_decodes*, using C17's dec(enc v)=v and C02's wire round trip); an unserialisable item changes neither the bytes nor the sends around it; stdin is closed exactly when the write stream is closed, after all writes; and for the TWO writers of the child's stdin (the outgoing-stream writer task and the stdout reader task's batch-rejection write-back), for every interleaving of their send() calls the byte stream splits at LF into an interleaving of exactly the accepted outbound lines in order and the complete rejection lines - no line is ever torn, every line is one whole message or one whole rejection. Correspondence: the real writer is driven through the anyio.open_process seam, the captured bytes are split and JSON-decoded and compared with the model's, with orjson present, with orjson blocked (worker process) and, in the thorough tier, under the fallback backend; a duplex suite drives both directions at once against a scripted child that is slow to read its stdin (send() suspends per accepted bytes in virtual time) while its stdout emits batch arrays at versions without batching, with outbound messages of 65 KB to 300 KB: the lines the child received must be the outbound messages in order interleaved only with complete -32600 rejection lines.",
    note="Full on the model (no partial theorem left): 'decoded value equals the message' is proved with the shared decoder for every value and style. Outside the proof and sampled by the correspondence run (which decodes every line the real writer emitted): that Pydantic's model_dump_json(exclude_none=True), orjson and stdlib json write Json.enc st of the value for some style; floats are opaque tokens (wf) and not generated. A caller-supplied string containing a raw line break is outside the property (explicit guard in the theorems, never generated).",
    technique="Lean 4 proof over a hand-written executable model + correspondence run against the real StdioClient",
    design="5/C06",
)
GEN: list = []
THEOREMS = [
    "c06_encoder_no_raw_break",
    "c06_no_raw_break",
    "c06_one_line_each",
    "c06_one_send_each",
    "c06_line_count",
    "c06_utf8_roundtrip",
    "c06_decodes_to_message",
    "c06_typed_parses_back",
    "c06_item_decodes",
    "c06_stream_decodes",
    "c06_stream_decodes_to_messages",
    "c06_drop_isolated",
    "c06_sequence_is_concatenation",
    "c06_close_closes_stdin",
    "c06_two_writers_lines_intact",
    "c06_two_writers_every_schedule",
    "c06_each_line_message_or_rejection",
    "c06_two_writers_line_count",
]
RULE = (
    "sequences of 0..8 outbound items of the three accepted shapes (typed request / notification / response / error / "
    "legacy message, plain dict, pre-serialised single-line string) with params/results over nested JSON values whose "
    "strings contain LF, CR, CRLF, U+2028/2029, U+0085, NUL, quotes, backslashes, 2/3/4-byte characters, big integers; "
    "unserialisable objects of seven kinds at every position of directed sequences; write stream closed / left open; "
    "each sequence run with orjson, without orjson (worker) and (thorough) under the fallback backend; duplex: outbound "
    "messages of 65 KB..300 KB (dict / typed / pre-serialised) among small ones x stdin drain rates x batch arrays from the "
    "child at times spread over the whole drain window x versions without / with batching; "
    "non-trivial = distinct (backend, sequence)"
)
TRUSTED = ["scripted process behind anyio.open_process (py/verifpy/stdio_h.py)", "stdlib json used by the harness to decode the captured lines"]
ASSUMPTIONS = [
    "a caller-supplied string is a single-line pre-serialised message (no raw LF/CR): guard of the property",
    "Pydantic's model_dump_json(exclude_none=True), orjson.dumps and json.dumps write Json.enc st (value) for some encoder style st "
    "(sampled here by decoding every emitted line; fast_json's styles are pinned by C17's correspondence)",
    "float tokens inside payloads are well-formed JSON numbers (wf, as in C17); floats are opaque and not generated",
    "one send() on the child's stdin appends its bytes to the pipe as a unit (anyio/asyncio StreamWriter.write); the two "
    "tasks interleave at send() granularity - the scripted stdin implements exactly that and suspends the caller afterwards",
]

UNSER = ["object", "dict-object", "dict-set", "dict-bytes", "tuple-key", "typed-object", "lone-surrogate"]


def rand_value(rng, depth=0):
    r = rng.random()
    if depth >= 3 or r < 0.35:
        return G.rand_string(rng, 3)
    if r < 0.5:
        return rng.choice([0, 1, -1, 2**31, -2**63, 2**63, 2**64 - 1, 10**30, rng.randrange(-10**6, 10**6)])
    if r < 0.6:
        return rng.choice([None, True, False])
    if r < 0.8:
        return [rand_value(rng, depth + 1) for _ in range(rng.randrange(0, 4))]
    return {(G.rand_string(rng, 2) or "k"): rand_value(rng, depth + 1) for _ in range(rng.randrange(0, 4))}


def rand_obj(rng):
    d = rand_value(rng, 1)
    if not isinstance(d, dict):
        d = {"v": d}
    return d


def rand_id(rng):
    # digit-only string ids are excluded: their JSON type under the fallback backend is C09's subject
    return rng.choice([rng.randrange(0, 10**6), 0, -5, "id-" + G.rand_string(rng, 2), "x", "\u00e9\U0001f600"])


def rand_item(rng):
    k = rng.choice(["dict", "dict", "typed", "typed", "typed", "raw"])
    if k == "raw":
        d = {"jsonrpc": "2.0", "method": "raw/" + G.rand_string(rng, 2), "params": rand_obj(rng)}
        return {"k": "raw", "s": G.encode_message(rng, d)}
    shape = rng.choice(["request", "notification", "response", "error", "legacy"])
    if shape == "request":
        f = {"id": rand_id(rng), "method": "m/" + G.rand_string(rng, 2), "params": rng.choice([None, rand_obj(rng)])}
    elif shape == "notification":
        f = {"method": "notifications/" + G.rand_string(rng, 2), "params": rng.choice([None, rand_obj(rng)])}
    elif shape == "response":
        f = {"id": rand_id(rng), "result": rand_obj(rng)}
    elif shape == "error":
        f = {"id": rand_id(rng), "error": {"code": rng.choice([-32600, -32000, 1]), "message": G.rand_string(rng) or "e",
                                            "data": rng.choice([None, rand_obj(rng)])}}
        if f["error"]["data"] is None and rng.random() < 0.5:
            del f["error"]["data"]
    else:
        which = rng.choice(["req", "notif", "resp"])
        if which == "req":
            f = {"id": rand_id(rng), "method": "l/" + G.rand_string(rng, 1), "params": rng.choice([None, rand_obj(rng)])}
        elif which == "notif":
            f = {"method": "l/" + G.rand_string(rng, 1), "params": rng.choice([None, rand_obj(rng)])}
        else:
            f = {"id": rand_id(rng), "result": rand_obj(rng)}
    if k == "dict":
        d = {"jsonrpc": "2.0"}
        d.update({a: b for a, b in f.items() if b is not None or rng.random() < 0.3})
        return {"k": "dict", "v": d}
    return {"k": "typed", "cls": shape, "f": f}


class Writer(Suite):
    def __init__(self, mode):
        self.mode = mode
        self.name = "writer/" + mode

    def cases(self, ctx, budget):
        if self.mode == "fallback" and budget == "quick":
            return []  # the fallback backend (no Pydantic) is exercised in the thorough tier and in the search
        rng = ctx.sub_rng("writer", budget)  # same sequences for every backend
        out = [{"items": [], "close": True}, {"items": [], "close": False}]
        base = [
            {"k": "dict", "v": {"jsonrpc": "2.0", "id": 1, "method": "tools/call",
                                "params": {"text": "a\nb\r\nc\u2028d\u2029e\u0085f\x00g\"h\\i\U0001f600", "n": None}}},
            {"k": "typed", "cls": "response", "f": {"id": "r\u00e9", "result": {"lines": ["\n", "\r", "\n\n"], "k": {"\n": 1}}}},
            {"k": "raw", "s": '{"jsonrpc":"2.0","method":"notifications/x","params":{"s":"\\n \\u2028 \u2028"}}'},
        ]
        out.append({"items": base, "close": True})
        # an unserialisable object of every kind at every position
        for how in UNSER:
            for pos in range(len(base) + 1):
                out.append({"items": base[:pos] + [{"k": "unser", "how": how}] + base[pos:], "close": True})
            out.append({"items": [{"k": "unser", "how": how}], "close": True})
            out.append({"items": [{"k": "unser", "how": how}] * 3 + base[:1], "close": False})
        n = 1500 if budget == "quick" else 8000
        for _ in range(n):
            items = [rand_item(rng) for _ in range(rng.randrange(0, 9))]
            for _ in range(rng.choice([0, 0, 1, 1, 2])):
                items.insert(rng.randrange(0, len(items) + 1), {"k": "unser", "how": rng.choice(UNSER)})
            out.append({"items": items, "close": rng.random() < 0.8})
        if self.mode == "fallback":
            # the fallback models serialise with default=str, so a typed message holding an arbitrary object
            # IS serialisable there (as its repr): not an unserialisable message under that backend
            for c in out:
                c["items"] = [dict(it, how="dict-object") if it.get("how") == "typed-object" else it for it in c["items"]]
        return [dict(c, backend=self.mode) for c in out]

    # ------------------------------------------------------------------ implementation
    def impl_batch(self, cases):
        if self.mode == "orjson":
            return O.run_cases(cases)
        mode = "no-orjson" if self.mode == "no-orjson" else "fallback"
        env = dict(os.environ)
        env["PYTHONPATH"] = str(core.ROOT / "py") + os.pathsep + env.get("PYTHONPATH", "")
        env["VERIF_REPO"] = str(core.REPO)
        env.pop("MCP_FORCE_FALLBACK", None)
        p = subprocess.run([sys.executable, "-m", "verifpy.stdio_worker", mode], input=json.dumps({"cases": cases}),
                           capture_output=True, text=True, env=env, timeout=1700)
        if p.returncode != 0:
            raise RuntimeError("stdio worker failed: " + p.stderr[-800:])
        return json.loads(p.stdout)

    # ------------------------------------------------------------------ model
    def model_line(self, case):
        items = []
        for it in case["items"]:
            e = O.expected_line(it)
            if e is None:
                items.append({"k": "unser"})
            elif "json" in e:
                items.append({"k": "value", "v": e["json"]})
            else:
                items.append({"k": "raw", "s": e["text"]})
        return {"m": "stdio_writer", "items": items, "close": case.get("close", True), "style": "compact"}

    def model_obs(self, out, case):
        if "driver_error" in out:
            return out
        d = O.decode_lines(bytes.fromhex(out["bytes"]))
        return {"lines": d["lines"], "tail": d["tail"], "cr": d["cr"], "closed_after": out["closed"]}

    @staticmethod
    def _line_key(line, raw):
        if raw:
            return "T:" + str(line.get("text"))
        if "json" in line:
            return "J:" + O.canon(line["json"])
        return "X:" + str(line.get("text", line.get("hex")))

    def compare(self, case, o, m):
        if "harness_error" in o or "driver_error" in m:
            return "error"
        raws = [O.expected_line(it) for it in case["items"]]
        raws = ["text" in e for e in raws if e is not None]
        if len(o["lines"]) != len(m["lines"]):
            return "number of lines"
        for i, (a, b) in enumerate(zip(o["lines"], m["lines"])):
            raw = raws[i] if i < len(raws) else False
            if self._line_key(a, raw) != self._line_key(b, raw):
                return f"line {i}"
        if o["tail"] != m["tail"]:
            return "tail"
        if o["closed_after"] != m["closed_after"]:
            return "closed"
        return None

    # ------------------------------------------------------------------ property oracle
    def oracle(self, case, o):
        want = [e for e in (O.expected_line(it) for it in case["items"]) if e is not None]
        exp = {"lines": want, "stdin_closed": bool(case.get("close", True))}
        if "harness_error" in o:
            return ("client-raised", f"the stdio client raised {o['harness_error']} while writing", exp)
        if o["tail"] != "":
            return ("unterminated-line", "the bytes at the child's stdin do not end with a newline", exp)
        got = o["lines"]
        dropped_any = any(it["k"] == "unser" for it in case["items"])
        if len(got) != len(want):
            if len(got) < len(want) and dropped_any:
                return ("drop-not-isolated", "an unserialisable message took other messages with it: fewer lines "
                        "reached the child than serialisable messages were sent", exp)
            return ("line-count", "the number of lines at the child's stdin is not the number of serialisable messages sent", exp)
        for i, (g, w) in enumerate(zip(got, want)):
            if "text" in w and "json" not in w:
                if g.get("text") != w["text"]:
                    return ("raw-string-altered", f"line {i} is not the pre-serialised string that was sent", exp)
            else:
                if "json" not in g:
                    return ("line-not-json", f"line {i} is not a UTF-8 JSON text", exp)
                if O.canon(g["json"]) != O.canon(w["json"]):
                    return ("content-differs", f"line {i} does not decode to the message that was sent "
                            "(absent optional members omitted)", exp)
        if o["cr"]:
            return ("raw-cr-in-line", "a raw carriage return inside a line", exp)
        if case.get("close", True):
            if not o["closed_after"]:
                return ("stdin-not-closed", "closing the write stream did not close the child's stdin", exp)
            if o["sends_at_close"] != o["sends"]:
                return ("closed-before-last-write", "stdin was closed before the last line was written", exp)
        else:
            if o["closed_after"] or o["closed_before"]:
                return ("stdin-closed-early", "the child's stdin was closed although the write stream is open", exp)
        if o["closed_before"]:
            return ("stdin-closed-early", "the child's stdin was closed before the write stream was closed", exp)
        return None

    def kind(self, case, o):
        ks = sorted({it["k"] for it in case["items"]})
        b = o.get("backend", {})
        tag = ("orjson" if b.get("orjson") else "stdlib-json") + ("" if b.get("pydantic", True) else "+fallback-models")
        return tag + "/" + ("+".join(ks) if ks else "empty") + ("" if case.get("close", True) else "/open")

    def nontrivial(self, case, o):
        return bool(case["items"])

    def shrink_candidates(self, case):
        items = case["items"]
        for i in range(len(items)):
            yield dict(case, items=items[:i] + items[i + 1:])
        simple = [{"k": "dict", "v": {"jsonrpc": "2.0", "method": "m"}}, {"k": "raw", "s": "{}"}]
        for i in range(len(items)):
            for s in simple:
                if items[i]["k"] != "unser" and items[i] != s:
                    yield dict(case, items=items[:i] + [s] + items[i + 1:])


BATCH_LINE = ('[{"jsonrpc":"2.0","method":"notifications/message","params":{"level":"info","data":"x"}},'
              '{"jsonrpc":"2.0","id":9,"method":"ping"}]\n')
SMALL_A = {"k": "dict", "v": {"jsonrpc": "2.0", "id": 1, "method": "ping"}}
SMALL_C = {"k": "raw", "s": '{"jsonrpc":"2.0","method":"notifications/initialized"}'}
SMALL_T = {"k": "typed", "cls": "notification", "f": {"method": "notifications/cancelled", "params": {"requestId": "r\n1"}}}


class Duplex(Suite):
    """Both writers of the child's stdin at once: the outgoing-stream writer task (large messages
    included) and the stdout reader task, which writes a rejection error line for every batch it
    receives at a version without batching - against a child that is slow to read its stdin."""

    name = "duplex"

    @staticmethod
    def mk(version, items, drain, times):
        stdout, prev = [], 0
        for t in times:
            stdout.append({"sleep": round(t - prev, 3)})
            stdout.append({"c": BATCH_LINE.encode().hex()})
            prev = t
        case = {"items": items, "drain": drain, "stdout": stdout, "close": True}
        if version != "unset":
            case["set"] = version
        return case

    def cases(self, ctx, budget):
        rng = ctx.sub_rng("duplex", budget)
        out = []
        sizes = [65_000, 66_000, 70_000, 140_000, 220_000, 300_000]
        shapes = ["dict", "typed", "raw"]
        for size in sizes:
            for shape in shapes:
                for drain in (8192, 32768):
                    total = size / drain + 1
                    pats = [[0.5], [total * 0.3], [total * 0.6], [0.5, total * 0.45, total * 0.9], [total * 0.2, total * 0.21],
                            [total + 40]]
                    big = {"k": "big", "shape": shape, "size": size}
                    for times in rng.sample(pats, 2 if budget == "quick" else len(pats)):
                        out.append(self.mk("2025-06-18", [SMALL_A, big, SMALL_C], drain, times))
        # two large messages in a row, an unserialisable object between them, rejections all along
        for drain in (4096, 65536):
            items = [{"k": "big", "shape": "typed", "size": 210_000, "id": 2}, {"k": "unser", "how": "object"},
                     {"k": "big", "shape": "dict", "size": 90_000, "id": 3}, SMALL_T]
            total = 300_000 / drain
            out.append(self.mk("2025-06-18", items, drain, [total * k / 7 + 0.5 for k in range(7)]))
            out.append(self.mk("2026-01-01", items, drain, [total * k / 3 + 0.25 for k in range(3)]))
        # versions with batching / never negotiated: the batches are delivered, nothing is written back
        for v in ("2025-03-26", "2024-11-05", "unset"):
            out.append(self.mk(v, [SMALL_A, {"k": "big", "shape": "dict", "size": 150_000}, SMALL_C], 8192, [0.5, 5.5, 12.5]))
        # a child that reads at once; small messages only; no traffic from the child
        out.append(self.mk("2025-06-18", [SMALL_A, {"k": "big", "shape": "raw", "size": 220_000}, SMALL_C], 0, [0.5]))
        out.append(self.mk("2025-06-18", [SMALL_A, SMALL_T, SMALL_C], 16, [0.5, 3.5, 6.5, 20.5]))
        out.append(self.mk("2025-06-18", [SMALL_A, {"k": "big", "shape": "typed", "size": 220_000}], 8192, []))
        n = 16 if budget == "quick" else 200
        for _ in range(n):
            items = []
            for _ in range(rng.randrange(1, 5)):
                r = rng.random()
                if r < 0.45:
                    items.append({"k": "big", "shape": rng.choice(shapes), "size": rng.choice([30_000, 66_000, 100_000, 131_073, 200_000]),
                                  "id": rng.randrange(1, 99)})
                elif r < 0.9:
                    items.append(rand_item(rng))
                else:
                    items.append({"k": "unser", "how": rng.choice(UNSER)})
            drain = rng.choice([1024, 8192, 30_000, 70_000])
            span = sum(it.get("size", 200) for it in items) / drain + 2
            times = sorted(round(rng.uniform(0, span), 2) + 0.005 for _ in range(rng.randrange(0, 5)))
            out.append(self.mk(rng.choice(["2025-06-18", "2025-06-18", "2025-07-01", "2025-03-26"]), items, drain, times))
        return out

    # ------------------------------------------------------------------ implementation
    def impl_batch(self, cases):
        return O.run_duplex(cases)

    # ------------------------------------------------------------------ model
    def model_line(self, case, obs):
        if "harness_error" in obs:
            return None
        items = []
        for it in case["items"]:
            e = O.expected_line(it)
            if e is None:
                items.append({"k": "unser"})
            elif "json" in e:
                items.append({"k": "value", "v": e["json"]})
            else:
                items.append({"k": "raw", "s": e["text"]})
        # the scheduler's choice is an input of the two-writer model: which of the child's lines came from
        # the reader task (complete rejection errors), in the observed order
        rej = [("json" in ln and O.is_rejection(ln["json"])) for ln in obs["lines"]]
        return {"m": "stdio_writer", "items": items, "close": case.get("close", True), "style": "compact",
                "rejs": [ln["json"] for ln, r in zip(obs["lines"], rej) if r], "sched": [not r for r in rej]}

    def model_obs(self, out, case):
        if "driver_error" in out:
            return out
        d = O.decode_lines(bytes.fromhex(out["bytes"]))
        return {"lines": [{"key": O.line_key(ln), "text_key": O.line_key(ln, raw=True)} for ln in d["lines"]],
                "tail": d["tail"][:200], "closed_after": out["closed"]}

    def compare(self, case, o, m):
        if "harness_error" in o or "driver_error" in m:
            return "error"
        if len(o["lines"]) != len(m["lines"]):
            return "number of lines"
        for i, (a, b) in enumerate(zip(o["lines"], m["lines"])):
            if a["key"] != b["key"] and a["text_key"] != b["text_key"]:
                return f"line {i}"
        if o["tail"] != m["tail"]:
            return "tail"
        if o["closed_after"] != m["closed_after"]:
            return "closed"
        return None

    # ------------------------------------------------------------------ property oracle
    def oracle(self, case, o):
        want = [e for e in (O.expected_line(it) for it in case["items"]) if e is not None]
        wkeys = [O.line_key(e, raw=("json" not in e)) for e in want]
        exp = {"outbound_lines_in_order": wkeys, "other_lines": "complete -32600 rejection errors only",
               "stdin_closed": bool(case.get("close", True))}
        if "harness_error" in o:
            return ("client-raised", f"the stdio client raised {o['harness_error']}", exp)
        if o["tail"] != "":
            return ("unterminated-line", "the bytes at the child's stdin do not end with a newline", exp)
        i = 0
        for n, ln in enumerate(o["lines"]):
            if i < len(want):
                raw = "json" not in want[i]
                if (ln["text_key"] if raw else ln["key"]) == wkeys[i] and (raw or ln["is_json"]):
                    i += 1
                    continue
            if ln["is_json"] and "json" in ln and O.is_rejection(ln["json"]):
                continue
            if not ln["is_json"]:
                return ("line-torn", "the child received a line that is neither one complete outbound message nor one "
                        "complete rejection error: a message was torn (another write landed inside it)", exp)
            return ("unexpected-line", "the child received a line that is neither the next outbound message nor a "
                    "rejection error", exp)
        if i != len(want):
            return ("message-missing", "not every serialisable outbound message reached the child as a line", exp)
        if case.get("close", True):
            if not o["closed_after"]:
                return ("stdin-not-closed", "closing the write stream did not close the child's stdin", exp)
            if o["sends_at_close"] != o["nsends"]:
                return ("closed-before-last-write", "stdin was closed before the last write", exp)
        if o["closed_before"]:
            return ("stdin-closed-early", "the child's stdin was closed before the write stream was closed", exp)
        return None

    def kind(self, case, o):
        if "harness_error" in o:
            return "duplex/error"
        rej = [("json" in ln and O.is_rejection(ln["json"])) for ln in o["lines"]]
        big = any(it["k"] == "big" and it["size"] > 65_536 for it in case["items"])
        pos = "none"
        if any(rej):
            first_out = next((i for i, r in enumerate(rej) if not r), None)
            last_out = max((i for i, r in enumerate(rej) if not r), default=None)
            inside = first_out is not None and any(r and first_out < i < last_out for i, r in enumerate(rej))
            pos = "between-messages" if inside else "at-an-end"
        return f"duplex/{'large' if big else 'small'}/{'slow-stdin' if case.get('drain') else 'fast-stdin'}/rejections-{pos}"

    def nontrivial(self, case, o):
        return bool(case["items"])

    def shrink_candidates(self, case):
        items, so = case["items"], case.get("stdout", [])
        for i in range(len(items)):
            yield dict(case, items=items[:i] + items[i + 1:])
        for j in range(0, len(so) - 1, 2):
            rest = so[:j] + so[j + 2:]
            if j + 2 < len(so) and "sleep" in so[j + 2]:  # keep absolute times of the later batches
                rest = so[:j] + [{"sleep": round(so[j]["sleep"] + so[j + 2]["sleep"], 3)}] + so[j + 3:]
            yield dict(case, stdout=rest)
        for i, it in enumerate(items):
            if it["k"] == "big":
                for size in (66_000, it["size"] // 2):
                    if 65_000 < size < it["size"]:
                        yield dict(case, items=items[:i] + [dict(it, size=size)] + items[i + 1:])
                if it["shape"] != "dict":
                    yield dict(case, items=items[:i] + [dict(it, shape="dict")] + items[i + 1:])
            elif it["k"] != "unser" and it != SMALL_A:
                yield dict(case, items=items[:i] + [SMALL_A] + items[i + 1:])


def suites():
    return [Writer("orjson"), Writer("no-orjson"), Writer("fallback"), Duplex()]
