"""C06 - stdio outbound framing: one message, one line, in order, content preserved."""
from __future__ import annotations

import json
import os
import subprocess
import sys

from ..runner import Suite
from .. import core, stdio_gen as G, stdio_out as O

MANIFEST = dict(
    text="Lean 4 theorems about an executable model of StdioClient._stdin_writer over the shared JSON model (Model/Json.lean: values, encoders of every separator / ensure_ascii style, RFC 8259 decoder) and the envelope model (Model/Rpc.lean: emit = the message with absent optional members omitted): for every sequence of outbound items (plain dict by its value, typed envelope, pre-serialised single-line string, unserialisable object) of any length and every encoder style, the bytes the child receives split at LF into exactly the encodings of the serialisable items' lines, in order, nothing left over; no line contains a raw LF or CR; the bytes are valid UTF-8 decoding back to the lines; CONTENT: the line of a dict decodes (UTF-8, then Json.dec) to exactly its value, the line of a typed envelope to exactly Rpc.emit m and, parsed by the library's parser model, to the message that was sent, and the whole byte stream split at LF and decoded line by line is the list of the accepted messages' values in order (c06_decodes_to_message, c06_stream_decodes*, using C17's dec(enc v)=v and C02's wire round trip); an unserialisable item changes neither the bytes nor the sends around it; stdin is closed exactly when the write stream is closed, after all writes; and for the TWO writers of the child's stdin (the outgoing-stream writer task and the stdout reader task's batch-rejection write-back), for every interleaving of their send() calls the byte stream splits at LF into an interleaving of exactly the accepted outbound lines in order and the complete rejection lines - no line is ever torn, every line is one whole message or one whole rejection. Correspondence: the real writer is driven through the anyio.open_process seam, the captured bytes are split and JSON-decoded and compared with the model's, with orjson present, with orjson blocked (worker process) and, in the thorough tier, under the fallback backend; a duplex suite drives both directions at once against a scripted child that is slow to read its stdin (send() suspends per accepted bytes in virtual time) while its stdout emits batch arrays at versions without batching, with outbound messages of 65 KB to 300 KB: the lines the child received must be the outbound messages in order interleaved only with complete -32600 rejection lines.",
    note="Full on the model (no partial theorem left): 'decoded value equals the message' is proved with the shared decoder for every value and style. Outside the proof and sampled by the correspondence run (which decodes every line the real writer emitted): that Pydantic's model_dump_json(exclude_none=True), orjson and stdlib json write Json.enc st of the value for some style; floats are opaque tokens (wf) and not generated. A caller-supplied string containing a raw line break is outside the property (explicit guard in the theorems, never generated).",
    technique="Lean 4 proof over a hand-written executable model + correspondence run against the real StdioClient",
    design="5/C06",
)
GEN: list = []
SUPP_GEN = ["StdioExit"]
THEOREMS = [
    "c06_encoder_no_raw_break",
    "c06_no_raw_break",
    "c06_one_line_each",
    "c06_one_send_each",
    "c06_line_count",
    "c06_utf8_roundtrip",
    "c06_decodes_to_message",
    "c06_typed_parses_back",
    "c06_item_decodes",
    "c06_stream_decodes",
    "c06_stream_decodes_to_messages",
    "c06_drop_isolated",
    "c06_sequence_is_concatenation",
    "c06_close_closes_stdin",
    "c06_two_writers_lines_intact",
    "c06_two_writers_every_schedule",
    "c06_each_line_message_or_rejection",
    "c06_two_writers_line_count",
    "c06_instances_independent",
    "c06_connections_one_after_another",
    "c06_history_irrelevant",
    "c06_stall_irrelevant",
]
# not stated by the property text: Props/C06Supp.lean (reported as INFO, never a verdict)
SUPP_THEOREMS = ["c06_exit_translated", "c06_exit_only_cancel_scope_swallowed", "c06_exit_other_class_propagates", "c06_exit_serialisation_error_propagates", "c06_exit_group", "c06_guard_ctor", "c06_guard_streams", "c06_guard_transport"]
RULE = (
    "sequences of 0..8 outbound items of the three accepted shapes (typed request / notification / response / error / "
    "legacy message, plain dict, pre-serialised single-line string) with params/results over nested JSON values whose "
    "strings contain LF, CR, CRLF, U+2028/2029, U+0085, NUL, quotes, backslashes, 2/3/4-byte characters, big integers; "
    "unserialisable objects of seven kinds at every position of directed sequences; write stream closed / left open; "
    "each sequence run with orjson, without orjson (worker) and (thorough) under the fallback backend; duplex: outbound "
    "messages of 65 KB..300 KB (dict / typed / pre-serialised) among small ones x stdin drain rates x batch arrays from the "
    "child at times spread over the whole drain window x versions without / with batching; "
    "hardening: falsy values and type twins at every position ({} and empty payloads, ids 0 / '' / 7 / '7'), constants of the "
    "anchored modules and format-hostile text as ids / methods / payloads, duck-typed models (model_dump only / "
    "model_dump_json only), objects outside the three shapes (lists, scalars, None: sent or not is not demanded, neighbours "
    "must be untouched), the same object sent 2-3 times, the legacy send_json entry point, stdio_client() and StdioTransport; "
    "duplex: lines of exactly 64 KiB -1/0/+1 and multiples with batches exactly on the drain instants under all three tie "
    "orders of the virtual loop, bursts of 99/101/250 messages against the 100-slot outgoing stream and a slow child, a child "
    "that closes its stdout and keeps reading; non-trivial = distinct (backend, sequence)"
)
TRUSTED = ["scripted process behind anyio.open_process (py/verifpy/stdio_h.py)", "stdlib json used by the harness to decode the captured lines"]
ASSUMPTIONS = [
    "a caller-supplied string is a single-line pre-serialised message (no raw LF/CR): guard of the property",
    "Pydantic's model_dump_json(exclude_none=True), orjson.dumps and json.dumps write Json.enc st (value) for some encoder style st "
    "(sampled here by decoding every emitted line; fast_json's styles are pinned by C17's correspondence)",
    "float tokens inside payloads are well-formed JSON numbers (wf, as in C17); floats are opaque and not generated",
    "one send() on the child's stdin appends its bytes to the pipe as a unit (anyio/asyncio StreamWriter.write); the two "
    "tasks interleave at send() granularity - the scripted stdin implements exactly that and suspends the caller afterwards",
]

UNSER = ["object", "dict-object", "dict-set", "dict-bytes", "tuple-key", "typed-object", "lone-surrogate",
         "deep-dict", "deep-list", "repr-raises", "self-reference", "top-mixed-keys", "top-tuple-keys", "top-int-none-keys",
         "items-raises", "iter-raises"]
# every builtin exception class, raised at every place the writer touches a foreign object (HARDEN2 class F)
UNSER_RAISES = [f"raises:{c}:{w}" for c in O.EXC_CLASSES for w in O.RAISE_WHERE]
PRELUDES = ["dumps-indent", "dumps-sort_keys", "dumps-all", "dumps-default", "dumps-fails", "dump-indent", "dump-sort_keys", "loads",
            "server-format", "batch-selftest"]


def rand_value(rng, depth=0):
    r = rng.random()
    if depth >= 3 or r < 0.35:
        return G.rand_string(rng, 3)
    if r < 0.5:
        return rng.choice([0, 1, -1, 2**31, -2**63, 2**63, 2**64 - 1, 10**30, rng.randrange(-10**6, 10**6)])
    if r < 0.6:
        return rng.choice([None, True, False])
    if r < 0.8:
        return [rand_value(rng, depth + 1) for _ in range(rng.randrange(0, 4))]
    return {(G.rand_string(rng, 2) or "k"): rand_value(rng, depth + 1) for _ in range(rng.randrange(0, 4))}


def rand_obj(rng):
    d = rand_value(rng, 1)
    if not isinstance(d, dict):
        d = {"v": d}
    return d


def rand_id(rng, digits=True):
    # digit-only string ids are excluded under the fallback backend only: their JSON type there is C09's subject
    pool = [rng.randrange(0, 10**6), 0, -5, "id-" + G.rand_string(rng, 2), "x", "\u00e9\U0001f600", "", 7, rng.choice(G.MAGIC_INTS),
            rng.choice(G.MAGIC), rng.choice(G.HOSTILE), 2**63]
    if digits:
        pool += ["7", "0", "007", "-1"]
    return rng.choice(pool)


FALSY = [0, "", False, [], {}, None]


def falsy_item(rng, digits=True):
    """falsy values and type twins at every caller-supplied position of an outbound message"""
    r = rng.randrange(0, 9)
    if r == 0:
        return {"k": "dict", "v": {}}
    if r == 1:
        return {"k": "dict", "v": {"jsonrpc": "2.0", "id": rng.choice([0, "", False, None, True, 7, "7"]), "result": rng.choice(FALSY)}}
    if r == 2:
        return {"k": "dict", "v": {"jsonrpc": "2.0", "id": 0, "method": "", "params": rng.choice([{}, [], None, 0, ""])}}
    if r == 3:
        return {"k": "dict", "v": {"jsonrpc": "2.0", "id": None, "error": {"code": rng.choice([0, -32600]), "message": "",
                                                                           "data": rng.choice(FALSY)}}}
    if r == 4:
        return {"k": "typed", "cls": "request", "f": {"id": rng.choice([0, ""]), "method": "", "params": rng.choice([{}, None])}}
    if r == 5:
        return {"k": "typed", "cls": "response", "f": {"id": rng.choice([0, ""]), "result": rng.choice([{}, [], 0, False, ""])}}
    if r == 6:
        return {"k": "typed", "cls": "error", "f": {"id": rng.choice([0, ""]), "error": {"code": 0, "message": "", "data": rng.choice(FALSY)}}}
    if r == 7:
        return {"k": "typed", "cls": "legacy", "f": {"id": rng.choice([0, ""]), "result": {}}}
    return {"k": "dict", "v": {"jsonrpc": "2.0", "id": 7, "result": {"twins": [7, "7", True, 1, "1", 0, False, "", None, [], {}]}}}


def other_item(rng):
    """objects that are neither str, dict nor model: duck-typed models and the writer's last resort"""
    r = rng.randrange(0, 4)
    v = {"jsonrpc": "2.0", "id": rng.choice([1, "d", 0]), "method": "duck/" + G.rand_string(rng, 1), "params": rng.choice([None, {"a": None}])}
    if r == 0:
        return {"k": "duck", "v": v}
    if r == 1:
        return {"k": "duckjson", "v": v}
    if r == 2:
        return {"k": "other", "v": rng.choice([[], [v], [1, "x", None], 0, 5, True, None, [[]]])}
    return {"k": "other", "v": [v, 1], "tuple": True}


def rand_item(rng, digits=True):
    r0 = rng.random()
    if r0 < 0.12:
        return falsy_item(rng, digits)
    if r0 < 0.2:
        return other_item(rng)
    k = rng.choice(["dict", "dict", "typed", "typed", "typed", "raw"])
    if k == "raw":
        d = {"jsonrpc": "2.0", "method": "raw/" + G.rand_string(rng, 2), "params": rand_obj(rng)}
        return {"k": "raw", "s": G.encode_message(rng, d)}
    shape = rng.choice(["request", "notification", "response", "error", "legacy"])
    if shape == "request":
        f = {"id": rand_id(rng, digits), "method": "m/" + G.rand_string(rng, 2), "params": rng.choice([None, rand_obj(rng)])}
    elif shape == "notification":
        f = {"method": "notifications/" + G.rand_string(rng, 2), "params": rng.choice([None, rand_obj(rng)])}
    elif shape == "response":
        f = {"id": rand_id(rng, digits), "result": rand_obj(rng)}
    elif shape == "error":
        f = {"id": rand_id(rng, digits), "error": {"code": rng.choice([-32600, -32000, 1]), "message": G.rand_string(rng) or "e",
                                            "data": rng.choice([None, rand_obj(rng)])}}
        if f["error"]["data"] is None and rng.random() < 0.5:
            del f["error"]["data"]
    else:
        which = rng.choice(["req", "notif", "resp"])
        if which == "req":
            f = {"id": rand_id(rng, digits), "method": "l/" + G.rand_string(rng, 1), "params": rng.choice([None, rand_obj(rng)])}
        elif which == "notif":
            f = {"method": "l/" + G.rand_string(rng, 1), "params": rng.choice([None, rand_obj(rng)])}
        else:
            f = {"id": rand_id(rng, digits), "result": rand_obj(rng)}
    if k == "dict":
        d = {"jsonrpc": "2.0"}
        d.update({a: b for a, b in f.items() if b is not None or rng.random() < 0.3})
        return {"k": "dict", "v": d}
    return {"k": "typed", "cls": shape, "f": f}


def no_badstr_under_formatting(cases):
    """Under the host handler that lets formatting errors propagate, an exception whose own str() raises would be raised
    INTO the library by the handler (`logger.error("... %s", exc)`): that is the handler's doing, not a framing defect,
    so this combination is not generated (recorded as an observation in DESIGN 9.5)."""
    def clean(items):
        return [dict(it, how=it["how"].replace(":BadStr:", ":RuntimeError:")) if it.get("k") == "unser" else it for it in items]

    for c in cases:
        if c.get("debug") == "format":
            c["items"] = clean(c["items"])
            if c.get("with"):
                c["with"] = [dict(w, items=clean(w["items"])) for w in c["with"]]
    return cases


def random_r(k):
    import random

    return random.Random(f"c06-falsy-{k}")


class Writer(Suite):
    def __init__(self, mode):
        self.mode = mode
        self.name = "writer/" + mode

    _ctx = None

    def cases(self, ctx, budget):
        self._ctx = ctx
        if self.mode == "fallback" and budget == "quick":
            return []  # the fallback backend (no Pydantic) is exercised in the thorough tier and in the search
        rng = ctx.sub_rng("writer", budget)  # same sequences for every backend
        out = [{"items": [], "close": True}, {"items": [], "close": False}]
        base = [
            {"k": "dict", "v": {"jsonrpc": "2.0", "id": 1, "method": "tools/call",
                                "params": {"text": "a\nb\r\nc\u2028d\u2029e\u0085f\x00g\"h\\i\U0001f600", "n": None}}},
            {"k": "typed", "cls": "response", "f": {"id": "r\u00e9", "result": {"lines": ["\n", "\r", "\n\n"], "k": {"\n": 1}}}},
            {"k": "raw", "s": '{"jsonrpc":"2.0","method":"notifications/x","params":{"s":"\\n \\u2028 \u2028"}}'},
        ]
        out.append({"items": base, "close": True})
        # an unserialisable object of every kind at every position
        for how in UNSER:
            for pos in range(len(base) + 1):
                out.append({"items": base[:pos] + [{"k": "unser", "how": how}] + base[pos:], "close": True})
            out.append({"items": [{"k": "unser", "how": how}], "close": True})
            out.append({"items": [{"k": "unser", "how": how}] * 3 + base[:1], "close": False})
        # every builtin exception class raised by the outbound object at every place the writer touches it, with messages
        # before and after it and a close (quick: one position each; thorough: every position)
        for n, how in enumerate(UNSER_RAISES):
            positions = range(len(base) + 1) if budget != "quick" else [n % (len(base) + 1)]
            for pos in positions:
                out.append({"items": base[:pos] + [{"k": "unser", "how": how}] + base[pos:], "close": True})
        # the SAME failure 2, 3, 4 times in a row and then a success; a failing item after a good one and before one
        for how in ("object", "deep-dict", "repr-raises", "raises:RuntimeError:model_dump_json", "raises:KeyError:dict-get"):
            for k in (2, 3, 4):
                out.append({"items": [base[0]] + [{"k": "unser", "how": how}] * k + [base[1], base[2]], "close": True})
            out.append({"items": [base[0], {"k": "unser", "how": how}, base[0], {"k": "unser", "how": how}, base[0]], "close": True})
        digits = self.mode != "fallback"
        # the same object sent two or three times in a row; the legacy send_json entry point; the other entry points
        for it in base:
            out.append({"items": [dict(it, repeat=3)], "close": True})
            out.append({"items": [dict(base[0], via="send_json"), dict(it, repeat=2, via="send_json"), base[2]], "close": True})
        for api in ("function", "transport"):
            out.append({"items": base + [{"k": "unser", "how": "object"}] + base, "close": True, "api": api})
            out.append({"items": [], "close": True, "api": api})
        for k in range(0, 9):
            out.append({"items": [falsy_item(random_r(k), digits), base[0], falsy_item(random_r(k + 50), digits)], "close": True})
        for v in ([], [1], 0, True, None):
            out.append({"items": [base[0], {"k": "other", "v": v}, base[2]], "close": True})
        # partial failure: the k-th write fails (transient pipe error) - the others must still arrive; the child closes
        # its stdin while messages are queued - the client must still close its end when the stream is closed
        six = base + base
        for k in range(len(six)):
            out.append({"items": six, "close": True, "fail_sends": [k]})
        out.append({"items": six, "close": True, "fail_sends": [1, 2]})
        out.append({"items": six, "close": True, "fail_sends": [0, 5]})
        for k in (0, 1, 3, 6):
            out.append({"items": six, "close": True, "breaks_at": k})
        # str / dict subclasses (the writer dispatches with isinstance)
        for how in ("str", "ordered", "defaultdict", "dict"):
            it = {"k": "subclass", "how": how, "s": base[2]["s"], "v": base[0]["v"]}
            out.append({"items": [base[0], it, dict(it, repeat=2), base[1]], "close": True})
        # error paths: closing the child's stdin fails (the pipe is gone); a send_json after the writer task has gone
        out.append({"items": base, "close": True, "aclose_raises": True})
        out.append({"items": [], "close": True, "aclose_raises": True})
        out.append({"items": base, "close": True, "late_send_json": base[0]})
        # VALUES AT THE EDGE OF THE ENCODERS' DOMAINS (the fast encoder refuses them, the stdlib one writes them): inside plain
        # dicts (result, params, as a member name), typed messages and pre-serialised strings, each between good messages
        for name, v in O.edge_values().items():
            ds = [{"k": "dict", "v": {"jsonrpc": "2.0", "id": 7, "result": v}}, {"k": "dict", "v": {"jsonrpc": "2.0", "method": "m", "params": v}},
                  {"k": "dict", "v": {"jsonrpc": "2.0", "id": 8, "error": {"code": -1, "message": "m", "data": v}}}]
            for d in ds:
                out.append({"items": [base[0], d, base[1], dict(d, repeat=2), base[2]], "close": True, "edge": name})
            out.append({"items": [ds[0], dict(ds[1], via="send_json"), base[0]], "close": True, "edge": name, "api": "transport"})
            if "key" not in name:
                ts = [{"k": "typed", "cls": "response", "f": {"id": 7, "result": v}, "edge": True},
                      {"k": "typed", "cls": "request", "f": {"id": 7, "method": "m", "params": v}, "edge": True}]
                for t in ts:
                    out.append({"items": [base[0], t, base[1], ds[0], base[2]], "close": True, "edge": name})
            raw = json.dumps({"jsonrpc": "2.0", "id": 9, "result": v}, separators=(",", ":"))  # ASCII text, escapes inside
            out.append({"items": [base[0], {"k": "raw", "s": raw}, base[2], ds[0]], "close": True, "edge": name})
        # a SECOND and a THIRD connection on the same client / transport object after a first one that ended in every way: the
        # consumer closed its write stream mid-session, left without closing it, the child closed its stdin, a write failed,
        # closing the pipe failed, the last thing sent was unserialisable
        firsts = [{"items": base[:2], "close": True}, {"items": base[:1], "close": False}, {"items": [], "close": True},
                  {"items": six, "close": True, "breaks_at": 1}, {"items": six, "close": False, "breaks_at": 0},
                  {"items": base, "close": True, "fail_sends": [1]}, {"items": base, "close": True, "aclose_raises": True},
                  {"items": base[:1] + [{"k": "unser", "how": "object"}], "close": True},
                  {"items": [{"k": "unser", "how": "deep-dict"}], "close": False}]
        for api in ("client", "transport", "function"):
            for f in firsts:
                out.append({"items": base + base[:1], "close": True, "api": api, "prior": [f]})
                out.append({"items": base[1:], "close": rng.random() < 0.5, "api": api, "prior": [f, {"items": base[:2], "close": True}]})
        n = 1500 if budget == "quick" else 8000
        for _ in range(n):
            items = [rand_item(rng, digits) for _ in range(rng.randrange(0, 9))]
            for _ in range(rng.choice([0, 0, 1, 1, 2])):
                items.insert(rng.randrange(0, len(items) + 1), {"k": "unser", "how": rng.choice(UNSER)})
            if items and rng.random() < 0.15:
                i = rng.randrange(len(items))
                items[i] = dict(items[i], repeat=rng.choice([2, 3]))
            if rng.random() < 0.2:
                items = [dict(it, via="send_json") if rng.random() < 0.5 else it for it in items]
            c = {"items": items, "close": rng.random() < 0.8}
            if rng.random() < 0.1:
                c["api"] = rng.choice(["function", "transport"])
            if rng.random() < 0.15:  # non-default connection options crossed with everything (quiet-logging environment, args)
                c["server"] = rng.choice([{"env": {"LOG_LEVEL": "ERROR"}}, {"env": {"LOGGING_LEVEL": "critical", "X": ""}},
                                          {"env": {"LOG_LEVEL": "debug"}, "args": ["--flag", ""]}, {"args": ["a", "b"]}])
            out.append(c)
        # several live connections at once with equal ids (groups of three cases run concurrently)
        for g in range(len(out) // 40):
            grp = [out[g * 40 + 20 + k] for k in range(3) if g * 40 + 20 + k < len(out)]
            if len(grp) == 3 and all("api" not in c for c in grp):
                for c in grp:
                    c["with"] = [{k: v for k, v in o.items() if k != "with"} for o in grp if o is not c]
        # a host with DEBUG logging configured
        for i, c in enumerate(out):
            if i % 3 == 1:
                c["debug"] = "format" if i % 2 else True  # half of them with a handler that formats every record
        # LAST (a defect here would be process-wide): the same process used before for other serialisations, with every
        # keyword fast_json.dumps / dump accept, by the server side, by a failing call
        for name in PRELUDES:
            out.append({"items": base + [{"k": "dict", "v": {"jsonrpc": "2.0", "id": 2, "result": {"nested": {"a": [1, {"b": None}]}, "z": 1, "a": 2}}}],
                        "close": True, "prelude": [name]})
        out.append({"items": base + [rand_item(rng, digits) for _ in range(4)], "close": True, "prelude": PRELUDES, "debug": True})
        if self.mode == "fallback":
            # the fallback models serialise with default=str, so a typed message holding an arbitrary object
            # IS serialisable there (as its repr): not an unserialisable message under that backend
            for c in out:
                c["items"] = [dict(it, how="dict-object") if it.get("how") == "typed-object" else it for it in c["items"]]
        return [dict(c, backend=self.mode) for c in no_badstr_under_formatting(out)]

    # ------------------------------------------------------------------ implementation
    def impl_batch(self, cases):
        if self.mode == "orjson":
            return O.run_cases(cases)
        mode = "no-orjson" if self.mode == "no-orjson" else "fallback"
        env = dict(os.environ)
        env["PYTHONPATH"] = str(core.ROOT / "py") + os.pathsep + env.get("PYTHONPATH", "")
        env["VERIF_REPO"] = str(core.REPO)
        env.pop("MCP_FORCE_FALLBACK", None)
        p = subprocess.run([sys.executable, "-m", "verifpy.stdio_worker", mode], input=json.dumps({"cases": cases}),
                           capture_output=True, text=True, env=env, timeout=1700)
        if p.returncode != 0:
            raise RuntimeError("stdio worker failed: " + p.stderr[-800:])
        return json.loads(p.stdout)

    # ------------------------------------------------------------------ model
    def model_line(self, case, obs):
        if "harness_error" in obs or case.get("edge"):
            return None  # (lone surrogates are outside the model's strings - Lean `Char` is a Unicode scalar value: oracle only)
        want = O.expected_lines(case["items"])
        failed = set(obs.get("failed_sends", []))
        # objects outside the three accepted shapes ("other"): whether the writer sends them is not the property's
        # business - the model is told what the implementation did with each of them; likewise which writes the
        # scripted child refused
        used, _, _ = O.align(obs["lines"], [w for k, w in enumerate(want) if k not in failed])
        used = iter(used)
        used = [False if k in failed else next(used) for k in range(len(want))]
        items, w = [], 0
        for it in case["items"]:
            e = O.expected_line(it)
            for _ in range(int(it.get("repeat", 1))):
                if e is None:
                    items.append({"k": "unser"})
                    continue
                sent = (used[w] or not e.get("optional")) and w not in failed
                w += 1
                if not sent:
                    items.append({"k": "unser"})
                elif "json" in e:
                    items.append({"k": "value", "v": e["json"]})
                else:
                    items.append({"k": "raw", "s": e["text"]})
        return {"m": "stdio_writer", "items": items, "close": case.get("close", True), "style": "compact"}

    def model_obs(self, out, case):
        if "driver_error" in out:
            return out
        d = O.decode_lines(bytes.fromhex(out["bytes"]))
        return {"lines": d["lines"], "tail": d["tail"], "cr": d["cr"], "closed_after": out["closed"]}

    @staticmethod
    def _line_key(line, raw):
        if raw:
            return "T:" + str(line.get("text"))
        if "json" in line:
            return "J:" + O.canon(line["json"])
        return "X:" + str(line.get("text", line.get("hex")))

    def compare(self, case, o, m):
        if "harness_error" in o or "driver_error" in m:
            return "error"
        if len(o["lines"]) != len(m["lines"]):
            return "number of lines"
        for i, (a, b) in enumerate(zip(o["lines"], m["lines"])):
            if self._line_key(a, False) != self._line_key(b, False) and self._line_key(a, True) != self._line_key(b, True):
                return f"line {i}"
        if o["tail"] != m["tail"]:
            return "tail"
        if o["closed_after"] != m["closed_after"]:
            return "closed"
        return None

    # ------------------------------------------------------------------ property oracle
    def oracle(self, case, o):
        if case.get("prior"):  # every connection on the object is judged as the property says, by its own items and ending
            if "harness_error" in o:
                return ("client-raised", f"the stdio client raised {o['harness_error']} while writing (connection {o.get('connection')})", None)
            n = len(case["prior"]) + 1
            for k, (spec, ob) in enumerate(zip(list(case["prior"]) + [case], o.get("earlier", []) + [o])):
                r = self._oracle_one(spec, ob)
                if r is not None:
                    return (r[0], r[1] + f" [connection {k + 1} of {n} on the same {case.get('api', 'client')} object]", r[2])
            return None
        return self._oracle_one(case, o)

    def _oracle_one(self, case, o):
        want = O.expected_lines(case["items"])
        # writes the child refused (a transient pipe error, or the child closed its stdin) cannot arrive: nothing is
        # demanded of THOSE messages, everything else must still be one intact line each, in order
        failed = set(o.get("failed_sends", []))
        want = [w for k, w in enumerate(want) if k not in failed]
        exp = {"lines": want, "stdin_closed": bool(case.get("close", True))}
        if "harness_error" in o:
            return ("client-raised", f"the stdio client raised {o['harness_error']} while writing", exp)
        if o["tail"] != "":
            return ("unterminated-line", "the bytes at the child's stdin do not end with a newline", exp)
        got = o["lines"]
        dropped_any = any(it["k"] == "unser" for it in case["items"])
        used, bad, rest_ok = O.align(got, want)
        if bad is not None or not rest_ok:
            mandatory = sum(1 for w in want if not w.get("optional"))
            if len(got) < mandatory:
                if dropped_any:
                    return ("drop-not-isolated", "an unserialisable message took other messages with it: fewer lines "
                            "reached the child than serialisable messages were sent", exp)
                return ("line-count", "the number of lines at the child's stdin is not the number of serialisable messages sent", exp)
            if len(got) > len(want):
                return ("line-count", "the number of lines at the child's stdin is not the number of serialisable messages sent", exp)
            g = got[bad] if bad is not None else {}
            nxt = next((w for w, u in zip(want, used) if not u and not w.get("optional")), None)
            if nxt is not None and "text" in nxt and "json" not in nxt:
                return ("raw-string-altered", "a line is not the pre-serialised string that was sent", exp)
            if bad is not None and "json" not in g:
                return ("line-not-json", "a line is not a UTF-8 JSON text", exp)
            return ("content-differs", "a line does not decode to the message that was sent (absent optional members "
                    "omitted), or the messages are out of order", exp)
        if o["cr"]:
            return ("raw-cr-in-line", "a raw carriage return inside a line", exp)
        if case.get("close", True):
            if not o["closed_after"]:
                return ("stdin-not-closed", "closing the write stream did not close the child's stdin", exp)
            if o["sends_at_close"] != o["sends"]:
                return ("closed-before-last-write", "stdin was closed before the last line was written", exp)
        else:
            if o["closed_after"] or o["closed_before"]:
                return ("stdin-closed-early", "the child's stdin was closed although the write stream is open", exp)
        if o["closed_before"]:
            return ("stdin-closed-early", "the child's stdin was closed before the write stream was closed", exp)
        if o.get("late") and o["late"] != "returned" and getattr(self, "_ctx", None) is not None:
            self._ctx.notes.append(f"INFORMATIONAL: send_json after the writer task has gone {o['late']}")
        return None

    def kind(self, case, o):
        ks = sorted({it["k"] for it in case["items"]})
        b = o.get("backend", {})
        tag = ("orjson" if b.get("orjson") else "stdlib-json") + ("" if b.get("pydantic", True) else "+fallback-models")
        return tag + "/" + ("+".join(ks) if ks else "empty") + ("" if case.get("close", True) else "/open") + \
            ("/after-other-use" if case.get("prelude") else "") + ("/debug-logging" if case.get("debug") else "") + \
            ("/concurrent" if case.get("with") else "")

    def nontrivial(self, case, o):
        return bool(case["items"])

    def shrink_candidates(self, case):
        items = case["items"]
        for i in range(len(items)):
            yield dict(case, items=items[:i] + items[i + 1:])
        simple = [{"k": "dict", "v": {"jsonrpc": "2.0", "method": "m"}}, {"k": "raw", "s": "{}"}]
        for i in range(len(items)):
            for s in simple:
                if items[i]["k"] != "unser" and items[i] != s:
                    yield dict(case, items=items[:i] + [s] + items[i + 1:])


BATCH_LINE = ('[{"jsonrpc":"2.0","method":"notifications/message","params":{"level":"info","data":"x"}},'
              '{"jsonrpc":"2.0","id":9,"method":"ping"}]\n')
SMALL_A = {"k": "dict", "v": {"jsonrpc": "2.0", "id": 1, "method": "ping"}}
SMALL_C = {"k": "raw", "s": '{"jsonrpc":"2.0","method":"notifications/initialized"}'}
SMALL_T = {"k": "typed", "cls": "notification", "f": {"method": "notifications/cancelled", "params": {"requestId": "r\n1"}}}


def echo_items(case):
    """what an echoing consumer puts on the write stream: one response per request the reader delivered (the batch line
    carries one request, id 9; it is delivered only at a version with batching / without a version)"""
    if not case.get("echo"):
        return []
    v = case.get("set")
    accepting = v is None or v == "" or (int(v[0:4]), int(v[5:7]), int(v[8:10])) < (2025, 6, 18)
    n = sum(1 for e in case.get("stdout", []) if "c" in e) if accepting else 0
    return [{"k": "dict", "v": {"jsonrpc": "2.0", "id": 9, "result": {"echo": "ping"}}}] * n


class Duplex(Suite):
    """Both writers of the child's stdin at once: the outgoing-stream writer task (large messages
    included) and the stdout reader task, which writes a rejection error line for every batch it
    receives at a version without batching - against a child that is slow to read its stdin."""

    name = "duplex"

    @staticmethod
    def mk(version, items, drain, times, **extra):
        """batches from the child at the given steps after the start: an integer step is a scripted loop
        event exactly on that tick (subject to the loop's tie order), any other time a plain delay"""
        stdout, prev = [], 0.0
        for t in times:
            t = round(t * 8) / 8  # binary fractions: every instant is an exact float
            if float(t).is_integer():
                stdout.append({"at": int(t)})
            else:
                stdout.append({"sleep": max(0.125, t - prev)})
            stdout.append({"c": BATCH_LINE.encode().hex()})
            prev = t
        case = {"items": items, "drain": drain, "stdout": stdout, "close": True}
        if version != "unset":
            case["set"] = version
        case.update(extra)
        return case

    def cases(self, ctx, budget):
        rng = ctx.sub_rng("duplex", budget)
        out = []
        sizes = [65_000, 66_000, 70_000, 140_000, 220_000, 300_000]
        shapes = ["dict", "typed", "raw"]
        for size in sizes:
            for shape in shapes:
                for drain in (8192, 32768):
                    total = size / drain + 1
                    pats = [[0.5], [total * 0.3], [total * 0.6], [0.5, total * 0.45, total * 0.9], [total * 0.2, total * 0.21],
                            [total + 40]]
                    big = {"k": "big", "shape": shape, "size": size}
                    for times in rng.sample(pats, 2 if budget == "quick" else len(pats)):
                        out.append(self.mk("2025-06-18", [SMALL_A, big, SMALL_C], drain, times))
        # two large messages in a row, an unserialisable object between them, rejections all along
        for drain in (4096, 65536):
            items = [{"k": "big", "shape": "typed", "size": 210_000, "id": 2}, {"k": "unser", "how": "object"},
                     {"k": "big", "shape": "dict", "size": 90_000, "id": 3}, SMALL_T]
            total = 300_000 / drain
            out.append(self.mk("2025-06-18", items, drain, [total * k / 7 + 0.5 for k in range(7)]))
            out.append(self.mk("2026-01-01", items, drain, [total * k / 3 + 0.25 for k in range(3)]))
        # versions with batching / never negotiated: the batches are delivered, nothing is written back
        for v in ("2025-03-26", "2024-11-05", "unset"):
            out.append(self.mk(v, [SMALL_A, {"k": "big", "shape": "dict", "size": 150_000}, SMALL_C], 8192, [0.5, 5.5, 12.5]))
        # a child that reads at once; small messages only; no traffic from the child
        out.append(self.mk("2025-06-18", [SMALL_A, {"k": "big", "shape": "raw", "size": 220_000}, SMALL_C], 0, [0.5]))
        out.append(self.mk("2025-06-18", [SMALL_A, SMALL_T, SMALL_C], 16, [0.5, 3.5, 6.5, 20.5]))
        out.append(self.mk("2025-06-18", [SMALL_A, {"k": "big", "shape": "typed", "size": 220_000}], 8192, []))
        # LIMITS: lines of exactly 64 KiB -1 / 0 / +1 and multiples (the pipe / write high-water mark), batches from
        # the child exactly on the instants at which a 64 KiB slice / the whole line has drained, all three tie orders
        quick = budget == "quick"
        for lb in (65535, 65536, 65537, 131072, 131073, 196609):
            big = {"k": "big", "shape": rng.choice(shapes), "line_bytes": lb}
            end = -(-lb // 8192)
            for tie in ("events", "timers", "io"):
                times = [8, 16, end] if not quick else [rng.choice([8, 16, end])]
                for t in times:
                    out.append(self.mk("2025-06-18", [SMALL_A, big, SMALL_C], 8192, [t], tie=tie))
                out.append(self.mk("2025-06-18", [big, SMALL_T], 8192, [0, 8, 16, 24, end, end + 1], tie=tie))
        # the 100-slot outgoing stream: bursts of N-1, N, N+1, 2.5 N small messages against a slow child (the producer has
        # to wait for the writer), rejections arriving all along
        for n in ([99, 101, 250] if quick else [1, 99, 100, 101, 102, 200, 201, 250, 500]):
            burst = [{"k": "dict", "v": {"jsonrpc": "2.0", "id": i, "method": "burst", "params": {"i": i}}} for i in range(n)]
            out.append(self.mk("2025-06-18", burst, 16, [k * n // 5 for k in range(6)], tie=rng.choice(["events", "timers", "io"])))
        # the other entry points; the legacy send_json; the same object several times; a child that closes its stdout
        # (half-close) and keeps reading
        big1 = {"k": "big", "shape": "typed", "size": 150_000}
        out.append(self.mk("2025-06-18", [SMALL_A, big1, SMALL_C], 8192, [4, 12], api="transport"))
        out.append(self.mk("unset", [SMALL_A, big1, SMALL_C], 8192, [4, 12], api="function"))
        out.append(self.mk("2025-06-18", [dict(SMALL_A, via="send_json"), dict(big1, via="send_json", repeat=2), SMALL_C], 8192, [4, 30]))
        out.append(self.mk("2025-06-18", [SMALL_A, big1, dict(SMALL_T, repeat=3)], 8192, [], stdout_eof=True))
        out.append(self.mk("2025-06-18", [SMALL_A, big1, SMALL_C], 8192, [2], stdout_eof=True))
        n = 16 if budget == "quick" else 200
        for _ in range(n):
            items = []
            for _ in range(rng.randrange(1, 5)):
                r = rng.random()
                if r < 0.45:
                    items.append({"k": "big", "shape": rng.choice(shapes), "size": rng.choice([30_000, 66_000, 100_000, 131_073, 200_000]),
                                  "id": rng.randrange(1, 99)})
                elif r < 0.9:
                    items.append(rand_item(rng))
                else:
                    items.append({"k": "unser", "how": rng.choice(UNSER)})
            drain = rng.choice([1024, 8192, 30_000, 70_000])
            span = sum(it.get("size", 200) for it in items) / drain + 2
            times = sorted({rng.choice([round(rng.uniform(0, span) * 8) / 8, float(rng.randrange(0, int(span) + 1))])
                            for _ in range(rng.randrange(0, 5))})
            out.append(self.mk(rng.choice(["2025-06-18", "2025-06-18", "2025-07-01", "2025-03-26"]), items, drain, times,
                               tie=rng.choice(["events", "timers", "io"])))
        # SIZE AND STALL: a child that does not read its stdin for longer than any timeout a client could have (0.5 s .. minutes
        # of virtual time) while much more than a pipe buffer is outstanding: 200 KB / 400 KB / 1 MB messages with small
        # ones before and after, rejections falling into the stall
        for stall in ((8, 60) if quick else (0.7, 3, 6, 8, 31, 61, 600)):
            for size in ((400_000,) if quick else (150_000, 400_000, 1_000_000)):
                big = {"k": "big", "shape": rng.choice(shapes), "size": size}
                out.append(self.mk("2025-06-18", [SMALL_A, big, SMALL_C, SMALL_T], rng.choice([0, 65536]), [], stall=stall))
                out.append(self.mk("2025-06-18", [SMALL_A, big, dict(big, id=8), SMALL_C], 16384,
                                   [int(1024 * stall * 0.3), int(1024 * stall * 0.9), int(1024 * stall) + 5], stall=stall,
                                   tie=rng.choice(["events", "timers", "io"])))
        out.append(self.mk("unset", [SMALL_A, {"k": "big", "shape": "typed", "size": 300_000}, SMALL_C], 0, [], stall=12, capacity=4096))
        # re-entrancy through the streams: the consumer of the read stream answers every delivered request on the write
        # stream of the same connection, while large messages are draining
        for v in ("2025-03-26", "unset", "2025-06-18"):
            out.append(self.mk(v, [SMALL_A, {"k": "big", "shape": "typed", "size": 150_000}, SMALL_C], 8192, [2, 7.5, 11, 40], echo=True))
        # the 1000th message of a session
        if not quick:
            many = [{"k": "dict", "v": {"jsonrpc": "2.0", "id": i, "method": "m", "params": {"i": i}}} for i in range(1200)]
            out.append(self.mk("2025-06-18", many, 0, [5, 50]))
        # every exception class an outbound object can raise, between two large messages, while rejections are written back
        for n, how in enumerate(UNSER_RAISES if budget != "quick" else UNSER_RAISES[::7] + ["deep-dict", "repr-raises"]):
            out.append(self.mk("2025-06-18", [SMALL_A, {"k": "big", "shape": "dict", "size": 70_000}, {"k": "unser", "how": how},
                                              {"k": "big", "shape": "typed", "size": 70_000}, SMALL_C], 8192, [3, 9.5, 15]))
        for i, c in enumerate(out):
            if i % 4 == 0:
                c["debug"] = "format" if i % 8 else True  # a host with DEBUG logging configured (formatting handler for half)
            if i % 9 == 4:
                c["server"] = {"env": {"LOG_LEVEL": "ERROR"}, "args": ["--x"]}
        out.append(self.mk("2025-06-18", [SMALL_A, {"k": "big", "shape": "dict", "size": 140_000}, SMALL_C], 8192, [4, 12], prelude=PRELUDES, debug=True))
        return no_badstr_under_formatting(out)

    # ------------------------------------------------------------------ implementation
    def impl_batch(self, cases):
        return O.run_duplex(cases)

    # ------------------------------------------------------------------ model
    def model_line(self, case, obs):
        if "harness_error" in obs:
            return None
        items = []
        for it in list(case["items"]) + echo_items(case):
            e = O.expected_line(it)
            for _ in range(int(it.get("repeat", 1))):
                if e is None:
                    items.append({"k": "unser"})
                elif "json" in e:
                    items.append({"k": "value", "v": e["json"]})
                else:
                    items.append({"k": "raw", "s": e["text"]})
        # the scheduler's choice is an input of the two-writer model: which of the child's lines came from the reader
        # task (complete rejection errors that are not the next outbound message), in the observed order
        want = [{"key": O.line_key(e, raw=("json" not in e)), "raw": "json" not in e, "optional": bool(e.get("optional"))}
                for e in O.expected_lines(list(case["items"]) + echo_items(case))]
        roles = []
        used, _, _ = O.align(obs["lines"], want, skippable=lambda ln: ln["is_json"] and "json" in ln and O.is_rejection(ln["json"]),
                line_matches=lambda ln, w: (ln["text_key"] if w["raw"] else ln["key"]) == w["key"] and (w["raw"] or ln["is_json"]),
                roles=roles)
        roles += ["unmatched"] * (len(obs["lines"]) - len(roles))
        rej = [r == "skipped" for r in roles]
        # an object outside the accepted shapes that the implementation chose not to send is not sent by the model either
        k = 0
        for n, it in enumerate(list(items)):
            if it["k"] != "unser":
                if want[k]["optional"] and not used[k]:
                    items[n] = {"k": "unser"}
                k += 1
        return {"m": "stdio_writer", "items": items, "close": case.get("close", True), "style": "compact",
                "rejs": [ln["json"] for ln, r in zip(obs["lines"], rej) if r], "sched": [not r for r in rej]}

    def model_obs(self, out, case):
        if "driver_error" in out:
            return out
        d = O.decode_lines(bytes.fromhex(out["bytes"]))
        return {"lines": [{"key": O.line_key(ln), "text_key": O.line_key(ln, raw=True)} for ln in d["lines"]],
                "tail": d["tail"][:200], "closed_after": out["closed"]}

    def compare(self, case, o, m):
        if "harness_error" in o or "driver_error" in m:
            return "error"
        if len(o["lines"]) != len(m["lines"]):
            return "number of lines"
        for i, (a, b) in enumerate(zip(o["lines"], m["lines"])):
            if a["key"] != b["key"] and a["text_key"] != b["text_key"]:
                return f"line {i}"
        if o["tail"] != m["tail"]:
            return "tail"
        if o["closed_after"] != m["closed_after"]:
            return "closed"
        return None

    # ------------------------------------------------------------------ property oracle
    def oracle(self, case, o):
        want = [{"key": O.line_key(e, raw=("json" not in e)), "raw": "json" not in e, "optional": bool(e.get("optional"))}
                for e in O.expected_lines(list(case["items"]) + echo_items(case))]
        exp = {"outbound_lines_in_order": [w["key"] + (" (optional)" if w["optional"] else "") for w in want],
               "other_lines": "complete -32600 rejection errors only", "stdin_closed": bool(case.get("close", True))}
        if "harness_error" in o:
            return ("client-raised", f"the stdio client raised {o['harness_error']}", exp)
        if o["tail"] != "":
            return ("unterminated-line", "the bytes at the child's stdin do not end with a newline", exp)

        def matches(ln, w):
            return (ln["text_key"] if w["raw"] else ln["key"]) == w["key"] and (w["raw"] or ln["is_json"])

        def is_rej(ln):
            return ln["is_json"] and "json" in ln and O.is_rejection(ln["json"])

        used, bad, rest_ok = O.align(o["lines"], want, skippable=is_rej, line_matches=matches)
        if bad is not None:
            if not o["lines"][bad]["is_json"]:
                return ("line-torn", "the child received a line that is neither one complete outbound message nor one "
                        "complete rejection error: a message was torn (another write landed inside it)", exp)
            return ("unexpected-line", "the child received a line that is neither the next outbound message nor a "
                    "rejection error", exp)
        if not rest_ok:
            return ("message-missing", "not every serialisable outbound message reached the child as a line", exp)
        if case.get("close", True):
            if not o["closed_after"]:
                return ("stdin-not-closed", "closing the write stream did not close the child's stdin", exp)
            if o["sends_at_close"] != o["nsends"]:
                return ("closed-before-last-write", "stdin was closed before the last write", exp)
        if o["closed_before"]:
            return ("stdin-closed-early", "the child's stdin was closed before the write stream was closed", exp)
        return None

    def kind(self, case, o):
        if "harness_error" in o:
            return "duplex/error"
        rej = [("json" in ln and O.is_rejection(ln["json"])) for ln in o["lines"]]
        big = any(it["k"] == "big" and it.get("size", it.get("line_bytes", 0)) > 65_000 for it in case["items"])
        pos = "none"
        if any(rej):
            first_out = next((i for i, r in enumerate(rej) if not r), None)
            last_out = max((i for i, r in enumerate(rej) if not r), default=None)
            inside = first_out is not None and any(r and first_out < i < last_out for i, r in enumerate(rej))
            pos = "between-messages" if inside else "at-an-end"
        return f"duplex/{'large' if big else 'small'}/{'slow-stdin' if case.get('drain') else 'fast-stdin'}/rejections-{pos}"

    def nontrivial(self, case, o):
        return bool(case["items"])

    def shrink_candidates(self, case):
        items, so = case["items"], case.get("stdout", [])
        for i in range(len(items)):
            yield dict(case, items=items[:i] + items[i + 1:])
        for j in range(0, len(so) - 1, 2):
            rest = so[:j] + so[j + 2:]
            if j + 2 < len(so) and "sleep" in so[j + 2]:  # keep absolute times of the later batches
                rest = so[:j] + [{"sleep": round(so[j]["sleep"] + so[j + 2]["sleep"], 3)}] + so[j + 3:]
            yield dict(case, stdout=rest)
        for i, it in enumerate(items):
            if it["k"] == "big" and "size" in it:
                for size in (66_000, it["size"] // 2):
                    if 65_000 < size < it["size"]:
                        yield dict(case, items=items[:i] + [dict(it, size=size)] + items[i + 1:])
                if it["shape"] != "dict":
                    yield dict(case, items=items[:i] + [dict(it, shape="dict")] + items[i + 1:])
            elif it["k"] != "unser" and it != SMALL_A:
                yield dict(case, items=items[:i] + [SMALL_A] + items[i + 1:])


def extra(ctx, tier):
    """line coverage of the anchored functions reached by this run (visibility only, no verdict)"""
    from .. import stdio_cov

    for n in stdio_cov.notes(['._stdin_writer', '.send_json', '.__init__', '._ensure_streams', '._send_error', '.get_streams', 'transport.']):
        if n not in ctx.notes:
            ctx.notes.append(n)


EXIT_TEXTS = [
    "", "boom", "cancel scope", "Cancel Scope", "CANCEL SCOPE", "cancel  scope", "cancelscope", "cancel_scope",
    "Attempted to exit a cancel scope that isn't the current tasks's current cancel scope",
    "Attempted to exit cancel scope in a different task than it was entered in",
    "JSON object must be str, bytes or bytearray, not dict", "the JSON object must be str, bytes or bytearray, not 'NoneType'",
    "json object must be str", "JSON OBJECT MUST BE STR", "json object must be  str", "json object must be st",
    "json object must be str ... cancel scope", "cancel scope / json object must be str", "Initialization failed",
    "%s {0} %(x)s", "\u212aancel scope", "canc\u0113l scope", "cancel scope\n", "\ncancel scope", "x" * 5000 + "cancel scope",
    "Cancel\u00a0Scope", "connection reset", "stdin_writer error", "None", "0",
]


class Guards(Suite):
    """Supplementary: the entry guards (constructor validation, use of the streams before the object was entered,
    the StdioTransport wrapper).  Divergences are informational."""

    name = "guards"
    supplementary = True
    _ctx = None

    def cases(self, ctx, budget):
        self._ctx = ctx
        out = []
        for falsy in ("", None, 0, [], False):
            out.append({"guard": "ctor", "command": False, "args": True, "falsy": falsy})
        for nonseq in ("notalist", None, 0, {"a": 1}, {"a"}, b"ab"):
            out.append({"guard": "ctor", "command": True, "args": False, "nonseq": nonseq if not isinstance(nonseq, (set, bytes)) else str(nonseq)})
        for seq in (["a"], [], ("a", "b"), ()):
            out.append({"guard": "ctor", "command": True, "args": True, "seq": list(seq), "tuple": isinstance(seq, tuple)})
        out.append({"guard": "ctor", "command": False, "args": False})
        for h in ([], ["enter"], ["enter", "exit"], ["enter", "exit", "enter"], ["enter", "exit", "enter", "exit"]):
            out.append({"guard": "streams", "history": h})
            out.append({"guard": "transport", "history": h})
        out.append({"guard": "transport", "history": ["exit"]})
        out.append({"guard": "transport", "history": ["exit", "exit"]})
        return out

    def impl_batch(self, cases):
        from .. import stdio_h

        return stdio_h.run_guard_cases(cases)

    def model_line(self, case):
        if case["guard"] == "ctor":
            return {"m": "stdio_writer", "guard": "ctor", "command": case["command"], "args": case["args"]}
        return {"m": "stdio_writer", "guard": case["guard"], "history": case["history"]}

    def compare(self, case, o, m):
        # send_json: refused by the guard before the first enter; works while entered; after an exit the outgoing stream is
        # closed (ClosedResourceError is what anyio raises for that - only BrokenResourceError is swallowed by the code)
        sj = o.get("send_json")
        if m.get("guard") == "RuntimeError":
            sj_ok = sj in (None, "RuntimeError")
        elif case.get("history") and case["history"][-1] == "enter":
            sj_ok = sj in (None, "ok")
        else:
            sj_ok = sj in (None, "ok", "other:ClosedResourceError")
        bad = o.get("guard") != m.get("guard") or not sj_ok \
            or any(x is not False for x in o.get("exit_returns", [])) or o.get("set_version", "ok") != "ok"
        return f"entry guard: code {o}, model {m}" if bad else None

    def oracle(self, case, o):
        return None

    def kind(self, case, o):
        return f"guards/{case['guard']}/{o.get('guard')}"


EXIT_RT_SUB = ["RecursionError", "NotImplementedError", "HostRuntimeError"]
EXIT_OTHER = ["ValueError", "TypeError", "OSError", "ServerError", "LookupError", "AssertionError"]
EXIT_CLASSES = ["RuntimeError", "Exception"] + EXIT_RT_SUB + EXIT_OTHER


class Exit(Suite):
    """Supplementary (not named by the property text): which exception raised inside
    `async with stdio_client(...)` / `stdio_client_with_initialize(...)` gets out - the regenerated
    filters of Gen/StdioExit.lean against the real context managers.  Divergences are informational."""

    name = "exit"
    supplementary = True
    _ctx = None

    def cases(self, ctx, budget):
        self._ctx = ctx
        rng = ctx.sub_rng("exit", budget)
        out = []
        for entry in ("client", "init"):
            out.append({"entry": entry, "exc": {"kind": "cancelled"}})
            for t in EXIT_TEXTS:
                # every text as a RuntimeError (what anyio raises), as a subclass of it, and as other classes (a caller's / a server's error)
                for cls in ["RuntimeError", rng.choice(EXIT_RT_SUB), "Exception", rng.choice(EXIT_OTHER)]:
                    out.append({"entry": entry, "exc": {"kind": "error", "cls": cls, "msg": t}})
                    out.append({"entry": entry, "exc": {"kind": "group", "members": [{"cls": cls, "msg": t}]}})
            out.append({"entry": entry, "exc": {"kind": "group", "members": [{"cancelled": True}]}})
            out.append({"entry": entry, "exc": {"kind": "group", "members": []}} if False else
                       {"entry": entry, "exc": {"kind": "group", "members": [{"cancelled": True}, {"cancelled": True}]}})
            for _ in range(40 if budget == "quick" else 600):
                ms = [({"cancelled": True} if rng.random() < 0.25 else {"cls": rng.choice(EXIT_CLASSES), "msg": rng.choice(EXIT_TEXTS)})
                      for _ in range(rng.randrange(1, 5))]
                out.append({"entry": entry, "exc": {"kind": "group", "members": ms}})
        for v in ("2025-06-18", "2024-11-05"):
            out.append({"entry": "init", "version": v, "exc": {"kind": "error", "msg": "boom"}})
            # non-default handshake options crossed with the error paths
            for init in ({"preferred_version": v}, {"supported_versions": [v]}, {"supported_versions": [v, "2025-03-26"], "preferred_version": v, "timeout": 0.5}):
                for t in ("boom", "cancel scope", "json object must be str"):
                    for cls in ("RuntimeError", "ServerError"):
                        out.append({"entry": "init", "version": v, "server": {"init": init, "env": {"LOG_LEVEL": "CRITICAL"}},
                                    "exc": {"kind": "error", "cls": cls, "msg": t}})
        for i, c in enumerate(out):
            if i % 3 == 0:
                c["debug"] = "format" if i % 2 else True
        return out

    def impl_batch(self, cases):
        from .. import stdio_h

        return stdio_h.run_exit_cases(cases)

    def model_line(self, case):
        e = case["exc"]
        if e["kind"] != "cancelled" and not all(ord(c) < 128 for m in ([e] if e["kind"] == "error" else e["members"])
                                                for c in m.get("msg", "")):
            return None  # str.lower() of non-ASCII text is outside the model (ASCII lower-casing)
        from .. import stdio_h

        def with_mro(m):  # the class names of the exception's MRO: what every `isinstance(exc, <Class>)` guard can ask
            return m if m.get("cancelled") else dict(m, mro=[c.__name__ for c in stdio_h.exit_class(m.get("cls", "Exception")).__mro__])

        if e["kind"] == "error":
            e = with_mro(e)
        elif e["kind"] == "group":
            e = dict(e, members=[with_mro(m) for m in e["members"]])
        return {"m": "stdio_exit", "entry": case["entry"], "exc": e}

    def compare(self, case, o, m):
        if "harness_error" in o or "driver_error" in m:
            return "error"
        if o["propagated"] != m["propagates"]:
            return f"exit filter: code propagated={o['propagated']}, regenerated filter says {m['propagates']}"
        return None

    def oracle(self, case, o):
        return None  # supplementary: the property text says nothing about which exceptions leave the context manager

    def kind(self, case, o):
        cls = case["exc"].get("cls", "")
        fam = "/RuntimeError" if cls in ["RuntimeError"] + EXIT_RT_SUB else "/other-class" if cls else ""
        return f"exit/{case['entry']}/{case['exc']['kind']}{fam}/" + ("propagated" if o.get("propagated") else "swallowed")


def suites():
    return [Writer("orjson"), Writer("no-orjson"), Writer("fallback"), Duplex(), Exit(), Guards()]
