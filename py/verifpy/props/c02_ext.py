"""C02 extension suites: the notification senders with predicted params, the notification handlers,
NotificationHandler, the kind predicates, the error classes, the client-side answers to server→client
requests (roots, sampling, completions) and parse_message on peer-supplied objects.

Decision rule: emitters (senders, roots answers, error objects put into an error response, sampling
results put into a response) are inside C02's text: their wire forms go through the property oracle of
c02 (`check_emitted`) and a difference from the model is a broken correspondence.  Everything else
(handlers, dispatcher, predicates, truncation, parser on foreign objects) is SUPPLEMENTARY: a
difference from the model is recorded as a note in the evidence, never as a violation or divergence.
"""
from __future__ import annotations

from .. import core
from .. import json_h as J
from .. import rpc_ext as X
from .. import rpc_h as R
from ..runner import Suite

S, cps = J.S, J.cps
IDS = [{"i": 0}, {"i": 7}, {"i": -1}, {"i": 2 ** 64 - 1}, S(""), S("7"), S(" 7 "), S("é \U0001F600")]
TEXTS = [None, S(""), S("x"), S("%s {} \n"), S("é \U0001F600\"\\")]
NUMS = [{"i": 0}, {"f": (0.0).hex()}, {"f": (0.5).hex()}, {"i": 1}, {"f": (100.0).hex()}, {"i": 2 ** 53 + 1}]
NESTED = {"o": [[cps("a"), None], [cps("b"), {"a": [None, {"o": [[cps("c"), None]]}]}], [cps("z"), {"a": [{"i": 0}, False, S("")]}]]}

REAL = {"sender", "roots", "errdata", "sampling"}  # + whatever an "edge" case emits goes through the oracle too  # kinds whose emitted messages are inside the property


def canon(t):
    return core.canon(J.unordered(t))


def tv(x):
    """observation value {"v": T} -> T (None stays None)"""
    return None if x is None else x.get("v", x)


class Extension(Suite):
    name = "extension"
    # the model side of this suite rests on Gen/Methods.lean and on theorems the property text does not state: a
    # difference from the model is an INFO line and an evidence note (runner), never a verdict.  The property oracle
    # (`oracle` below: validity / parse round trip of every message these functions emit) is a verdict as always.
    supplementary = True

    def __init__(self):
        self.tables = None
        self.info: dict = {}
        self.counts: dict = {}

    # -- tables regenerated from the source (through the driver, so that model and harness agree) --------
    def load_tables(self, ctx):
        if self.tables is None:
            try:
                self.tables = ctx.model([{"m": "rpc", "op": "methods"}])[0]
            except Exception:  # noqa: BLE001
                self.tables = None
            if not self.tables or "senders" not in self.tables:
                from .. import translate_rpc  # noqa: F401  (registers the generator)
                from .. import translate
                rep = translate.translate(["Methods"])["Methods"]
                self.tables = {"senders": [], "handlers": [], "defaults": [], "completionLimit": rep.get("completionLimit") or 100,
                               "protocolErrorDefault": -32603, "validationErrorDefault": -32602, "versionMismatchCode": -32008}
        return self.tables

    def sender_method(self, which):
        modname, fname = X.SENDERS[which]
        key = modname.replace(".", "/") + "." + fname
        for k, m in self.tables.get("senders", []):
            if k == key:
                return cps(m)
        return None

    def handler_method(self, fn):
        modname, fname = X.HANDLERS[fn]
        key = modname.replace(".", "/") + "." + fname
        for k, m in self.tables.get("handlers", []):
            if k == key:
                return cps(m)
        return None

    # -- cases ---------------------------------------------------------------------------------------------
    def cases(self, ctx, budget):
        self.load_tables(ctx)
        rng = ctx.sub_rng("c02-ext", budget)
        quick = budget == "quick"
        out = []

        def add(x, **args):
            out.append({"x": x, "args": args})

        # senders
        for tok in IDS:
            for p in NUMS:
                for total in ([None] + NUMS[:3] if quick else [None] + NUMS):
                    add("sender", which="progress", token=tok, progress=p, total=total, message=rng.choice(TEXTS))
            for msg in TEXTS:
                add("sender", which="progress", token=tok, progress=NUMS[2], total=None, message=msg)
            for reason in TEXTS:
                add("sender", which="cancelled", request_id=tok, reason=reason)
        for which in ("list_changed", "list_changed_roots", "initialized"):
            add("sender", which=which)
            if which != "initialized":  # (send_initialized_notification has no try/except: a dead stream propagates, C03's business)
                add("sender", which=which, closed=True)
        add("sender", which="progress", token=IDS[1], progress=NUMS[2], total=None, message=None, closed=True)
        add("sender", which="cancelled", request_id=IDS[1], reason=None, closed=True)

        # handlers
        methods = [m for _, m in self.tables.get("handlers", [])] + ["", "notifications/unknown", "NOTIFICATIONS/PROGRESS"]
        param_pool = ["ABSENT", None, {"o": []}, {"a": []}, S("params"),
                      {"o": [[cps("progressToken"), S("t")], [cps("progress"), {"f": (0.5).hex()}], [cps("total"), {"i": 0}], [cps("message"), S("")]]},
                      {"o": [[cps("progressToken"), {"i": 0}]]}, {"o": [[cps("progress"), None], [cps("total"), None]]},
                      {"o": [[cps("requestId"), {"i": 7}], [cps("reason"), None]]}, {"o": [[cps("requestId"), S("7")], [cps("reason"), S("")]]},
                      {"o": [[cps("level"), S("debug")], [cps("data"), NESTED], [cps("logger"), S("")]]}, {"o": [[cps("data"), {"i": 0}]]},
                      {"o": [[cps("level"), None]]}, {"o": [[cps("uri"), S("file:///x")]]}, {"o": [[cps("uri"), S("")]]}, {"o": [[cps("uri"), None]]},
                      {"o": [[cps("uri"), {"i": 0}]]}, {"o": [[cps("uri"), {"a": []}]]}, {"o": [[cps("uri"), {"a": [S("x")]}]]},
                      {"o": [[cps("uri"), {"o": []}]]}, {"o": [[cps("uri"), True]]}, {"o": [[cps("uri"), False]]}, {"o": [[cps("x"), NESTED]]}]
        for fn in X.HANDLERS:
            own = self.handler_method(fn)
            for m in ([R.s_(own)] if own else []) + methods + [None, 5]:
                for p in param_pool:
                    if m != (R.s_(own) if own else None) and rng.random() < (0.8 if quick else 0.0):
                        continue
                    members = []
                    if m is not None:
                        members.append([cps("method"), S(m) if isinstance(m, str) else {"i": m}])
                    if p != "ABSENT":
                        members.append([cps("params"), p])
                    members.append([cps("jsonrpc"), S("2.0")])
                    add("handler", fn=fn, n={"o": members})

        # NotificationHandler
        alpha = ["m1", "m2", "notifications/progress", "notifications/tools/list_changed"]
        mvals = [S(a) for a in alpha] + ["ABSENT", None, S(""), {"i": 0}, {"i": 5}, {"a": []}, {"a": [S("x")]}, {"o": []},
                                         {"o": [[cps("a"), {"i": 1}]]}, True, False, S("notifications/message")]
        for _ in range(250 if quick else 4000):
            regs = [[cps(rng.choice(alpha)), tag, rng.random() < 0.3] for tag in range(1, rng.randrange(0, 4) + 1)]
            mv = rng.choice(mvals)
            n = {"o": ([] if mv == "ABSENT" else [[cps("method"), mv]]) + [[cps("params"), rng.choice([None, {"o": []}, NESTED])]]}
            add("nh", regs=regs, defaults=rng.random() < 0.4, n=n)

        # predicates
        for of in ("request", "notification", "response", "error"):
            for i in IDS:
                for p in [None, {"o": []}, NESTED]:
                    add("predicates", of=of, id=i, method=cps("m"), params=p, result=p, code=rng.choice([0, -32603, 1]), message=cps("x"), data=p)

        # error classes
        codes = [0, 1, -1, -32603, -32000, 2 ** 31, -(2 ** 63)]
        for cls in ("JSONRPCError", "RetryableError", "NonRetryableError", "MCPError", "ProtocolError", "ValidationError"):
            for msg in [cps(""), cps("x"), cps("%s {} \n"), cps("é \U0001F600")]:
                for data in [None, {"o": []}, NESTED]:
                    add("errdata", cls=cls, message=msg, code=rng.choice(codes), data=data, id=rng.choice(IDS))
                    if cls in ("ProtocolError", "ValidationError"):
                        add("errdata", cls=cls, message=msg, code=None, data=data, id=rng.choice(IDS))
        for req in [cps(""), cps("2025-06-18"), cps("é")]:
            for sup in [[], [cps("2025-06-18")], [cps(""), cps("2024-11-05"), cps("x")]]:
                for fe in [None, {"o": []}, {"o": [[cps("data"), {"o": []}]]}, {"o": [[cps("data"), {"o": [[cps("requested"), S("r")]]}]]},
                           {"o": [[cps("data"), None]]}, {"o": [[cps("data"), {"a": []}]]},
                           {"o": [[cps("data"), {"o": [[cps("supported"), None], [cps("requested"), {"i": 0}]]}]]}]:
                    add("errdata", cls="VersionMismatchError", message=cps("-"), requested=req, supported=sup, from_error=fe, id=rng.choice(IDS))

        # roots
        root_sets = [[], [[cps("file:///a"), None]], [[cps("file:///a"), S("")], [cps("file:///é \U0001F600"), S("n\n")]],
                     [[cps("file://"), S("x")], [cps("file:///a"), S("a")], [cps("file:///a"), None]]]
        for i in IDS + [None]:
            for rs in root_sets:
                add("roots", op="handle_roots_list_request", id=i, roots=rs)
        uris = [cps("file:///a"), cps("file:///b"), cps("file:///é")]
        for _ in range(60 if quick else 1500):
            steps = []
            for _k in range(rng.randrange(1, 7)):
                r = rng.random()
                if r < 0.4:
                    steps.append(["add", rng.choice(uris), rng.choice([None, S(""), S("n")])])
                elif r < 0.6:
                    steps.append(["remove", rng.choice(uris)])
                elif r < 0.75:
                    steps.append(["clear"])
                else:
                    steps.append(["list", rng.choice(IDS)])
            add("roots", op="manager", steps=steps, stream=rng.random() < 0.85)

        # sampling
        provider = [[S("assistant"), {"o": [[cps("type"), S("text")], [cps("text"), S("hi")]]}, S("endTurn")],
                    [S("assistant"), {"o": [[cps("type"), S("text")], [cps("text"), S("")], [cps("annotations"), None]]}, None]]
        prefs_pool = ["ABSENT", None, {"o": []}, {"o": [[cps("hints"), {"a": [{"o": [[cps("name"), S("m")]]}]}]]}, {"o": [[cps("costPriority"), {"i": 0}]]}]
        for approval in (None, True, False):
            for sel in ("NONE", S("m1"), S(""), None):
                for prefs in prefs_pool:
                    for prov in [None] + provider:
                        params = [[cps("messages"), {"a": []}], [cps("maxTokens"), {"i": 0}]]
                        if prefs != "ABSENT":
                            params.append([cps("modelPreferences"), prefs])
                        a = dict(approval=approval, params={"o": params}, provider=prov, id=rng.choice(IDS), content_model=rng.random() < 0.5,
                                 prefs=None if prefs == "ABSENT" else prefs)
                        if sel != "NONE":
                            a["selected"] = sel
                        add("sampling", **a)

        # completions
        limit = int(self.tables.get("completionLimit") or 100)
        regs_r = [[cps("file:///a"), 1], [cps("res"), 2], [cps(""), 3]]
        regs_p = [[cps("p"), 4], [cps(""), 5]]
        refs = [{"o": [[cps("type"), S("ref/resource")], [cps("uri"), S("file:///a/b")]]}, {"o": [[cps("type"), S("ref/resource")], [cps("uri"), S("resx")]]},
                {"o": [[cps("type"), S("ref/resource")], [cps("uri"), S("zzz")]]}, {"o": [[cps("type"), S("ref/resource")], [cps("uri"), S("")]]},
                {"o": [[cps("type"), S("ref/resource")]]}, {"o": [[cps("type"), S("ref/prompt")], [cps("name"), S("p")]]},
                {"o": [[cps("type"), S("ref/prompt")], [cps("name"), S("q")]]}, {"o": [[cps("type"), S("ref/prompt")], [cps("name"), S("")]]},
                {"o": [[cps("type"), S("ref/prompt")]]}, {"o": [[cps("type"), S("ref/other")]]}, {"o": []}, {"o": [[cps("type"), None]]}]
        for ref in refs:
            for count in (0, 1, limit - 1, limit, limit + 1, 2 * limit + 50):
                for with_empty in (False, True):
                    add("completion", ref=ref, argument=rng.choice([{"o": [[cps("name"), S("a")], [cps("value"), S("")]]}, {"o": []},
                                                                    {"o": [[cps("name"), None]]}]),
                        count=count, resources=regs_r if with_empty else regs_r[:2], prompts=regs_p if with_empty else regs_p[:1])
        words = ["", "a", "A", "ab", "Ab", "aB", "abc", "b", "BA", "a b", "0", "_a"]
        for _ in range(150 if quick else 3000):
            add("enum", current=cps(rng.choice(words)), allowed=[cps(rng.choice(words)) for _ in range(rng.randrange(0, 6))],
                case_sensitive=rng.random() < 0.5)

        # parse_message on peer-supplied objects
        pools = {
            "jsonrpc": ["ABSENT", S("2.0"), S("2.0"), S("1.0"), None, {"i": 2}],
            "id": ["ABSENT", None, {"i": 0}, {"i": 7}, S(""), S("7"), {"a": []}, {"o": []}],
            "method": ["ABSENT", "ABSENT", None, S("m"), S(""), {"i": 5}, {"a": []}],
            "params": ["ABSENT", "ABSENT", None, {"o": []}, NESTED, {"a": []}, S("s")],
            "result": ["ABSENT", "ABSENT", None, {"o": []}, NESTED, {"a": [None]}, {"i": 0}, S("s"), False],
            "error": ["ABSENT", "ABSENT", None, {"o": []}, {"o": [[cps("code"), {"i": 1}], [cps("message"), S("m")]]},
                      {"o": [[cps("code"), S("1")], [cps("message"), S("m")]]}, {"o": [[cps("code"), {"i": 1}]]}, {"o": [[cps("message"), S("m")]]},
                      {"o": [[cps("code"), {"i": 1}], [cps("message"), {"i": 2}]]}, {"o": [[cps("code"), {"i": 0}], [cps("message"), S("")], [cps("data"), None]]},
                      S("e"), {"a": []}],
        }
        for _ in range(1500 if quick else 30000):
            members = []
            for k in ("jsonrpc", "id", "method", "params", "result", "error"):
                v = rng.choice(pools[k])
                if v != "ABSENT":
                    members.append([cps(k), v])
            if rng.random() < 0.15:
                members.append([cps("x-extra"), {"i": 1}])
            rng.shuffle(members)
            add("parse", v={"o": members})
        for v in (None, {"i": 1}, S("s")):
            add("parse", v=v)

        # two instances alive at once, used alternately with equal names
        for _ in range(40 if quick else 600):
            regs = [[[cps(rng.choice(alpha)), t + 10 * i, False] for t in range(1, rng.randrange(1, 4))] for i in (0, 1)]
            notes = [[rng.randrange(2), {"o": [[cps("method"), S(rng.choice(alpha))]]}] for _k in range(rng.randrange(2, 7))]
            add("twins", kind="nh", regs=regs, notes=notes, defaults=rng.random() < 0.3)
            steps = [[rng.randrange(2), rng.choice([["add", rng.choice(uris), None], ["remove", rng.choice(uris)], ["clear"]])] for _k in range(rng.randrange(2, 8))]
            add("twins", kind="roots", steps=steps)
        for _ in range(10 if quick else 100):
            calls = [[rng.choice([1, 2]), rng.choice(refs[:2] + refs[5:6])] for _k in range(rng.randrange(2, 6))]
            add("twins", kind="completion", calls=calls)

        # the remaining accessors / refusals of json_rpc_message.py
        req = {"o": [[cps("jsonrpc"), S("2.0")], [cps("id"), {"i": 1}], [cps("method"), S("m")]]}
        note = {"o": [[cps("jsonrpc"), S("2.0")], [cps("method"), S("m")], [cps("params"), NESTED]]}
        resp = {"o": [[cps("jsonrpc"), S("2.0")], [cps("id"), S("7")], [cps("result"), {"o": []}]]}
        resp_list = {"o": [[cps("jsonrpc"), S("2.0")], [cps("id"), {"i": 0}], [cps("result"), {"a": [None]}]]}
        err = {"o": [[cps("jsonrpc"), S("2.0")], [cps("id"), {"i": 0}], [cps("error"), {"o": [[cps("code"), {"i": 1}], [cps("message"), S("")]]}]]}
        err_null = {"o": [[cps("jsonrpc"), S("2.0")], [cps("id"), None], [cps("error"), {"o": [[cps("code"), {"i": 1}], [cps("message"), S("m")]]}]]}
        empty = {"o": []}
        for v in (req, note, resp, err, err_null, empty, {"o": [[cps("params"), {"o": []}]]}, {"o": [[cps("jsonrpc"), S("1.0")], [cps("result"), {"o": []}]]}):
            add("edge", k="to_specific", v=v)
        for v in (None, {"i": 1}, {"o": []}, S("x")):
            add("edge", k="from_specific_bad", v=v)
        for of in ("request", "notification", "response", "error"):
            for i in IDS[:4]:
                add("edge", k="dump_json_default", of=of, id=i, method=cps("m"), params=rng.choice([None, NESTED]), result=None, code=1, message=cps("x"), data=None)
        add("edge", k="wrapper_batch", id=IDS[1], method=cps("m"), params=NESTED)
        for items in ([], [req], [note], [req, note], [resp], [resp_list], [resp_list, resp_list], [resp_list, resp], [err], [req, resp_list], [empty],
                      [{"i": 1}], [req, {"o": [[cps("jsonrpc"), S("1.0")], [cps("id"), {"a": []}]]}]):
            add("edge", k="parse_batch", items=items)
        return out

    # -- implementation -------------------------------------------------------------------------------------
    def impl_batch(self, cases):
        out = []
        for i, c in enumerate(cases):
            if i % 3 == 0:  # a third of the cases as a host with logging at DEBUG
                with R.debug_logging():
                    out.append(X.run_case(c))
            else:
                out.append(X.run_case(c))
        return out

    # -- model ------------------------------------------------------------------------------------------------
    def model_line(self, case, o=None):
        x, a = case["x"], case["args"]
        base = {"m": "rpc"}
        if x == "sender":
            m = self.sender_method(a["which"])
            if m is None:
                return None
            if a["which"] == "progress":
                return {**base, "op": "emit", "ctor": "send_progress", "method": m, "token": a["token"], "progress": a.get("progress"),
                        "total": a.get("total"), "message": a.get("message")}
            if a["which"] == "cancelled":
                return {**base, "op": "emit", "ctor": "send_cancelled", "method": m, "request_id": a["request_id"], "reason": a.get("reason")}
            return {**base, "op": "emit", "ctor": "send_list_changed", "method": m}
        if x == "handler":
            m = self.handler_method(a["fn"])
            if m is None:
                return None
            return {**base, "op": "handle", "fn": a["fn"].split(":")[0], "method": m, "n": a["n"]}
        if x == "nh":
            return {**base, "op": "nh", "regs": [[r[0], r[1]] for r in a["regs"]], "defaults": bool(a.get("defaults")), "n": a["n"]}
        if x == "predicates":
            if not o or "wire" not in o:
                return None
            return {**base, "op": "predicates", "v": o["wire"]}
        if x == "errdata":
            if not o or "error" not in o or "v" not in o["error"]:
                return None
            e = {R.s_(k): v for k, v in o["error"]["v"]["o"]}
            msg = e.get("message", {}).get("s")
            if a["cls"] == "VersionMismatchError":
                code = self.tables["versionMismatchCode"]
                data = {"o": [[cps("supported"), {"a": [{"s": x_} for x_ in a["supported"]]}], [cps("requested"), {"s": a["requested"]}]]}
            else:
                code = a["code"] if a.get("code") is not None else self.tables["protocolErrorDefault" if a["cls"] == "ProtocolError" else "validationErrorDefault"]
                data = a.get("data")
                msg = a["message"]
            if msg is None:
                return None
            return {**base, "op": "emit", "ctor": "dict_error", "id": None, "code": code, "message": msg, "data": data}
        if x == "roots":
            if a["op"] == "handle_roots_list_request":
                return {**base, "op": "emit", "ctor": "roots_list_response", "id": a.get("id"), "roots": a["roots"]}
            return {**base, "op": "roots_manager", "steps": a["steps"]}
        if x == "sampling":
            line = {**base, "op": "sampling", "approval": a.get("approval"), "prefs": a.get("prefs"), "provider": a.get("provider")}
            if "selected" in a:
                line["selected"] = a["selected"]
            return line
        if x == "completion":
            ref = {R.s_(k): v for k, v in a["ref"]["o"]}
            return {**base, "op": "completion", "count": a["count"], "resources": a["resources"], "prompts": a["prompts"],
                    "ref_type": ref.get("type"), "uri": ref.get("uri"), "name": ref.get("name")}
        if x == "enum":
            return {**base, "op": "enum", "current": a["current"], "allowed": a["allowed"], "case_sensitive": a["case_sensitive"]}
        if x == "parse":
            return {**base, "op": "parse", "v": a["v"]}
        if x == "edge":
            if a["k"] == "to_specific":
                return {**base, "op": "to_specific", "v": a["v"]}
            if a["k"] == "parse_batch":
                return {**base, "op": "parse_batch", "items": a["items"]}
            return {**base, "op": "parse", "v": None}  # no model needed: the expectation is fixed (see diff)
        return None

    def model_obs(self, out, case):
        return out

    # -- comparison ---------------------------------------------------------------------------------------------
    def diff(self, case, o, m):
        """None when implementation and model agree, else a short description"""
        x, a = case["x"], case["args"]
        if "driver_error" in m:
            return "driver error: " + str(m["driver_error"])[:120]
        if "harness_raised" in o:
            return f"harness raised {o['harness_raised']}: {o.get('text')}"
        if x == "sender" and a.get("closed"):
            return None if not o["emitted"] and not o["raised"] else f"a sender on a closed stream raised {o['raised']}"
        if x == "edge":
            k = a["k"]
            if k == "to_specific":
                if "err" in m:
                    return None  # the legacy class itself rejects the object: nothing to convert
                return None if o.get("kind") == m["kind"] else f"to_specific_type gives {o.get('kind')}, the model {m['kind']}"
            if k == "parse_batch":
                want = m["out"] if m["out"].startswith("ok") else "raised"
                return None if o["out"] == want else f"parse_message(list) -> {o['out']}, the model: {m['out']}"
            if k == "from_specific_bad":
                return None if o.get("raised") else "from_specific_type accepted an object that is no message"
            if k == "dump_json_default":
                return None if o.get("same") else "model_dump_json() differs from model_dump_json(exclude_none=True)"
            if k == "wrapper_batch":
                return None if o.get("is_batch") and o.get("n") == 2 and o.get("unknown_raises") else "wrapper around a batch / a non-message misbehaves"
            return None
        if x == "sender":
            if not m.get("ok") or len(o["emitted"]) != 1:
                return f"{len(o['emitted'])} messages emitted"
            for form in ("dump", "json"):
                if canon(o["emitted"][0][form]["wire"]) != canon(m["emit"]):
                    return f"wire ({form}) differs from the model's message"
            return None
        if x == "handler":
            if "err" in m:
                return None if o["raised"] else "the model raises (params is not an object), the implementation did not"
            if o["raised"]:
                return f"the implementation raised {o['raised']}"
            if m["ok"] is None:
                return None if o["called"] is None else "the callback ran although the model ignores the notification"
            if o["called"] is None:
                return "the callback did not run"
            got = [tv(z) for z in o["called"]]
            return None if o["calls"] == 1 and canon({"a": got}) == canon({"a": m["ok"]}) else "callback arguments differ"
        if x == "nh":
            if "err" in m:
                return None if o["raised"] else "the model raises (unhashable method), the implementation did not"
            if o["raised"]:
                return f"handle raised {o['raised']}"
            t = m["ok"]
            if t is None:
                return None if not o["ran"] and not o["default_hit"] else "a handler ran for a notification the model ignores"
            if t == 0:
                return None if o["default_hit"] and not o["ran"] else "the default handler was expected"
            return None if o["ran"] == [t] else f"handler {t} expected, ran {o['ran']}"
        if x == "predicates":
            if "err" in m:
                return "the model's parser rejects an emitted message"
            names = ("is_request", "is_notification", "is_response", "is_error_response")
            for src in ("legacy", "parsed"):
                if o["parsed_cls"] != "JSONRPCMessage" and src == "parsed":
                    continue  # a specific class came back (non-dict result): it has no predicates
                for k in names:
                    if o[src].get(k) != m[k]:
                        return f"{src}.{k}() is {o[src].get(k)}, the model says {m[k]}"
            w, of = o["wrapper"], a["of"]
            want = {"is_request": of == "request", "is_notification": of == "notification", "is_response": of == "response",
                    "is_error_response": of == "error"}
            for k in names:
                if w.get(k) != want[k]:
                    return f"wrapper.{k}() is {w.get(k)} for a {of}"
            return None
        if x == "errdata":
            if o.get("skip"):
                return None
            if not m.get("ok"):
                return "the model has no error object"
            em = {R.s_(k): v for k, v in m["emit"]["o"]}
            if "v" not in o["error"] or canon(o["error"]["v"]) != canon(em["error"]):
                return "to_json_rpc_error() differs from the model's error object"
            if not o.get("same_as_create_error_data"):
                return "to_json_rpc_error() differs from create_error_data()"
            if a["cls"] == "VersionMismatchError":
                b = o["back"]
                if canon(tv(b["requested"])) != canon({"s": a["requested"]}) or canon(tv(b["supported"])) != canon({"a": [{"s": s_} for s_ in a["supported"]]}):
                    return "from_json_rpc_error(to_json_rpc_error()) does not give the exception's data back"
            return None
        if x == "roots":
            if a["op"] == "handle_roots_list_request":
                if not m.get("ok"):
                    return None if o["raised"] and not o["emitted"] else "the model's constructor raises, the implementation did not"
                if len(o["emitted"]) != 1:
                    return f"{len(o['emitted'])} messages emitted (raised {o['raised']})"
                for form in ("dump", "json"):
                    if canon(o["emitted"][0][form]["wire"]) != canon(m["emit"]):
                        return f"wire ({form}) differs from the model's response"
                return None
            want_n = m["notifications"] if a.get("stream", True) else 0
            if o.get("raised"):
                return f"RootsManager raised {o['raised']}"
            if o["notifications"] != want_n:
                return f"{o['notifications']} notifications scheduled, the model says {want_n}"
            resp = [e for e in o["emitted"][: o["responses"]]]
            if len(resp) != len(m["responses"]):
                return "number of list answers differs"
            for e, w in zip(resp, m["responses"]):
                if w is None or canon(e["dump"]["wire"]) != canon(w):
                    return "a list answer differs from the model's"
            return None
        if x == "sampling":
            if "err" in m:
                return None if o["raised"] == "ValueError" else f"the model raises ({m['err']}), the implementation: {o['raised']}"
            if o["raised"]:
                return f"the implementation raised {o['raised']}"
            return None if o["result"] and "v" in o["result"] and canon(o["result"]["v"]) == canon(m["ok"]) else "result differs"
        if x == "completion":
            if m["handler"] is None:
                return None if o["raised"] == "ValueError" else f"no handler in the model, the implementation: raised={o['raised']} ran={o['ran']}"
            if o["raised"]:
                return f"the implementation raised {o['raised']}"
            if o["ran"] != m["handler"]:
                return f"handler {o['ran']} ran, the model says {m['handler']}"
            if (o["kept"], o["total"], o["hasMore"], o["prefix"]) != (m["kept"], m["total"], m["hasMore"], True):
                return "kept / total / hasMore differ"
            return None
        if x == "enum":
            return None if o["values"] == m["values"] else "completions differ"
        if x == "parse":
            mp = m["parse"]
            if "view" not in o:
                return None if "err" in mp else f"parse_message raises {o.get('exc')}, parseMsg accepts"
            if "ok" not in mp:
                return f"parse_message accepts, parseMsg rejects ({mp.get('err')})"
            pv, mv = o["view"], mp["ok"]
            for k in ("id", "method", "params", "result", "error"):
                a_, b_ = pv[k], mv[k]
                if k == "id":
                    b_ = None if b_ is None else {"v": b_}
                elif k == "method":
                    b_ = None if b_ is None else {"v": {"s": b_}}
                if (a_ is None) != (b_ is None) or (a_ is not None and ("v" not in a_ or canon(a_["v"]) != canon(b_["v"]))):
                    return f"parse_message and parseMsg disagree on {k}"
            return None
        return None

    def compare(self, case, o, m):
        d = self.diff(case, o, m)
        x = case["x"]
        self.counts[x] = self.counts.get(x, 0) + 1
        return None if d is None else f"{x}: {d}"

    # -- property oracle: every message these functions emit ---------------------------------------------------------
    def oracle(self, case, o):
        from . import c02

        if case["x"] == "twins" and o.get("independent") is False:
            return ("instances-interfere", f"two {case['args']['kind']} instances used alternately do not behave as each alone", {"independent": True})
        if (case["x"] not in REAL and case["x"] != "edge") or "emitted" not in o:
            return None
        fake = {"emitter": f"extension:{case['x']}:{case['args'].get('which') or case['args'].get('op') or case['args'].get('cls') or ''}", "args": {}}
        for e in o["emitted"]:
            for form in ("dump", "json", "dumpjson"):
                r = c02.check_emitted(fake, e, form)
                if r is not None:
                    return r
        return None

    def kind(self, case, o):
        a = case["args"]
        sub = a.get("which") or a.get("fn") or a.get("op") or a.get("cls") or a.get("of") or ""
        tail = ""
        if case["x"] == "handler":
            tail = "/raised" if o.get("raised") else ("/called" if o.get("called") is not None else "/ignored")
        elif case["x"] in ("sampling", "completion", "nh"):
            tail = "/raised" if o.get("raised") else "/ok"
        elif case["x"] == "parse":
            tail = "/accepted" if "view" in o else "/rejected"
        return f"ext:{case['x']}{':' + str(sub) if sub else ''}{tail}"

    def shrink_candidates(self, case):
        return []


_ext = Extension()


def suites():
    return [_ext]


def extra(ctx, tier):
    if _ext.counts:
        ctx.notes.append("extension: cases compared with the model per kind: " + ", ".join(f"{k}={v}" for k, v in sorted(_ext.counts.items())))
    for k, ent in sorted(_ext.info.items()):
        ctx.notes.append(f"INFO supplementary correspondence '{k}' (not part of the property text): {ent['n']} case(s) differ from the model; first: {ent['first']}")
