"""C13, rejections while the client's own traffic is backed up.

"a batch array from the server is answered with a single -32600 error": the answer has to reach the child also when
the child has not been reading its stdin for a while - the writer task blocked in the middle of a message larger than
the pipe buffer, the 100-slot outgoing stream full behind it, the application waiting to put more on the write stream.
Once the child reads again it must find exactly one -32600 error per batch it sent at a version without batching
(and none at a version with batching), next to every message the application sent.

A case is a duplex history (harness: `stdio_h._duplex_case`)
    {"set": version (absent = never negotiated), "items": [outbound specs], "stall": seconds, "capacity": pipe bytes,
     "drain": bytes per step after the stall, "stdout": [{"at": tick} | {"sleep": steps} | {"c": hex of one read}]}
"""
from __future__ import annotations

from ..runner import Suite
from .. import stdio_out as O
from .c13_transport import mode_of, VALID, INVALID, _c

TICKS = 1024


def small(i):
    return {"k": "dict", "v": {"jsonrpc": "2.0", "id": i, "method": "tools/call", "params": {"i": i}}}


def batch_text(k):
    members = [VALID[1], INVALID[0], dict(VALID[0], id=100 + k), VALID[4]][: 1 + k % 4]
    return _c(members)


class Backpressure(Suite):
    name = "backpressure"

    @staticmethod
    def mk(version, items, stall, times, nb=None, **extra):
        """batches from the child at the given seconds after the start (binary fractions of a second)"""
        stdout, texts = [], []
        for k, t in enumerate(sorted(times)):
            stdout.append({"at": int(round(t * TICKS))})
            texts.append(batch_text(k if nb is None else nb))
            stdout.append({"c": (texts[-1] + "\n").encode().hex()})
        case = {"items": items, "drain": extra.pop("drain", 0), "stdout": stdout, "close": True, "stall": stall,
                "capacity": extra.pop("capacity", 65536), "batches": texts}
        if version != "unset":
            case["set"] = version
        case.update(extra)
        return case

    def cases(self, ctx, budget):
        rng = ctx.sub_rng("backpressure", budget)
        quick = budget == "quick"
        out = []
        big = {"k": "big", "shape": "dict", "size": 200_000}
        for v in ("2025-06-18", "2025-03-26", "2026-01-01", "unset"):
            # the outgoing stream exactly full / one short / over-full behind a message the child is slow to take; 1..3 batches
            # falling into the stall, one after it
            for n in ((99, 100, 101, 140) if not quick or v == "2025-06-18" else (101,)):
                for stall in ((4.0, 45.0) if not quick else (rng.choice([4.0, 45.0]),)):
                    items = [small(0), big] + [small(i) for i in range(1, n + 1)]
                    out.append(self.mk(v, items, stall, [stall * 0.25, stall * 0.5, stall * 0.75, stall + 2.0]))
                    out.append(self.mk(v, items, stall, [stall * 0.5], tie=rng.choice(["events", "timers", "io"]), drain=16384))
            # nothing queued at all; only small messages (no writer blocked, the stream still full of them)
            out.append(self.mk(v, [], 3.0, [1.0, 2.0]))
            out.append(self.mk(v, [small(i) for i in range(130)], 6.0, [1.0, 3.0, 5.0], capacity=2048))
        # ten batches in a row during one stall; the same through the transport object
        items = [big] + [small(i) for i in range(120)]
        out.append(self.mk("2025-06-18", items, 10.0, [1.0 + 0.5 * k for k in range(10)]))
        out.append(self.mk("2025-06-18", items, 10.0, [2.0, 4.0], api="transport"))
        for _ in range(4 if quick else 60):
            n = rng.choice([0, 1, 50, 99, 100, 101, 102, 200])
            stall = rng.choice([0.5, 2.0, 8.0, 61.0])
            items = ([big] if rng.random() < 0.7 else []) + [small(i) for i in range(n)]
            times = sorted({round(rng.uniform(0, stall * 1.2) * 8) / 8 for _ in range(rng.randrange(1, 5))})
            out.append(self.mk(rng.choice(["2025-06-18", "2025-06-18", "2025-07-01", "2025-03-26"]), items, stall, times,
                               tie=rng.choice(["events", "timers", "io"]), capacity=rng.choice([4096, 65536, 131072]),
                               drain=rng.choice([0, 8192])))
        for i, c in enumerate(out):
            if i % 3 == 1:
                c["debug"] = "format" if i % 2 else True
        return out

    # ------------------------------------------------------------------ implementation
    def impl_batch(self, cases):
        return O.run_duplex(cases)

    # ------------------------------------------------------------------ model: the reader decides the rejections (stdio_reader)
    def model_line(self, case):
        from .. import stdio_gen as G

        table, _ = G.line_table(case["batches"])
        evs = ([{"v": case["set"]}] if "set" in case else []) + [e for e in case["stdout"] if "c" in e]
        return {"m": "stdio_reader", "events": evs, "table": table, "cap": 100}

    def model_obs(self, out, case):
        if "driver_error" in out:
            return out
        return {"rejections": out["rejections"], "delivered": len(out["delivered"])}

    @staticmethod
    def _rejections(o):
        return [ln for ln in o["lines"] if ln["is_json"] and "json" in ln and O.is_rejection(ln["json"])]

    def compare(self, case, o, m):
        if "harness_error" in o or "driver_error" in m:
            return "error"
        if len(self._rejections(o)) != m["rejections"]:
            return "rejections"
        if o["delivered"] != m["delivered"]:
            return "delivered"
        return None

    # ------------------------------------------------------------------ property oracle
    def expected(self, case):
        from .. import stdio_h

        mode = mode_of(case["set"]) if "set" in case else True
        rej = deliv = 0
        for t in case["batches"]:
            v = stdio_h.parse_line(t)
            if v[0] == "batch":
                if mode:
                    deliv += len([m for m in v[1] if m is not None])
                else:
                    rej += 1
        return {"rejections": rej, "delivered": deliv}

    def oracle(self, case, o):
        want = self.expected(case)
        if "harness_error" in o:
            return ("client-raised", f"the stdio client raised {o['harness_error']}", want)
        got = len(self._rejections(o))
        if got < want["rejections"]:
            return ("batch-unanswered", f"{want['rejections']} batch(es) arrived at a version without batching while the child was "
                    f"not reading its stdin; after it read everything it had received {got} -32600 error(s)", want)
        if got > want["rejections"]:
            return ("rejection-count", "the child received more -32600 errors than batches it sent at a version without batching", want)
        if o["delivered"] != want["delivered"]:
            return ("batch-members-differ", "the number of messages on the read stream is not the number of valid members of "
                    "the batches received at a version with batching", want)
        return None

    def kind(self, case, o):
        n = len(case["items"])
        return (f"queued={'0' if n == 0 else '<100' if n < 100 else '100' if n in (100, 101, 102) else '>100'}/"
                f"{'rejects' if self.expected(case)['rejections'] else 'accepts'}")

    def nontrivial(self, case, o):
        return bool(case["batches"])

    def shrink_candidates(self, case):
        items = case["items"]
        for k in range(len(items)):
            yield dict(case, items=items[:k] + items[k + 1:])
        for k in range(len(case["batches"])):
            yield dict(case, batches=case["batches"][:k] + case["batches"][k + 1:], stdout=case["stdout"][:2 * k] + case["stdout"][2 * k + 2:])


def suites():
    return [Backpressure()]
