"""C13 — batches are accepted exactly for protocol versions older than 2025-06-18."""
from __future__ import annotations

import re

from ..runner import Suite

MANIFEST = dict(
    text="Lean 4 theorems about the decision function regenerated from the if/elif chain of supports_batching on every run: for eight digit variables the decision on 'abcd-ef-gh' is the digit-wise lexicographic test against 2025-06-18 (all 10^8 strings, no calendar restriction), for ALL integers it is the date order on (year, month, day), it is monotone, None/empty is accepted, the hand-modelled guards (split('-'), int()) pass on the padded format, and the result agrees with a model of ProtocolVersion.compare; theorems on the stdio reader model: a batch line at a version without batching is answered by exactly one rejection and delivers nothing, with batching every accepted member is delivered in order and a rejected member is dropped alone, the mode follows the last version set. Translation validation on every dddd-dd-dd string of a year window (real supports_batching, real ProtocolVersion.compare, generated Lean function); correspondence of the transport behaviour through the anyio.open_process seam.",
    note="Trusted: Lean kernel, the AST translator (validated on the date grid every run), the harness. The guards in front of the chain and ProtocolVersion.compare are hand-modelled (ASCII digits only) and tied by the grid comparison.",
    technique="Lean 4 proof over a model regenerated from source by a translator + translation validation + correspondence run",
    design="5/C13",
)
GEN = ["Versions"]
SUPP_GEN = ["BatchSelfTest"]
# not stated by the property text: Props/C13Supp.lean (reported as INFO, never a verdict)
SUPP_THEOREMS = ["c13_selftest_translated", "c13_selftest_table_agrees"]
THEOREMS = [
    "c13_translated",
    "c13_iff_before_cutoff",
    "c13_gen_iff_date_before",
    "c13_monotone",
    "c13_none_accepts",
    "c13_string_level",
    "c13_agrees_with_compare",
    "c13_monotone_strings",
    "c13_mode_follows_last_version",
    "c13_reader_after_handshake",
    "c13_reject_single_error_no_delivery",
    "c13_accept_delivers_members",
    "c13_bad_member_isolated",
    "c13_single_messages_unaffected",
    "c13_version_change_mid_connection",
]
RULE = (
    "decision: every string dddd-dd-dd (all 10^4 month/day digit pairs) of the years 2015..2035 (quick) / 1990..2199 "
    "(thorough), real supports_batching and real ProtocolVersion.compare(v, '2025-06-18') vs the Lean model (guards + "
    "generated chain, and the generated chain on the integers); plus None, '', the supported versions, cutoff "
    "neighbours, seeded well-formed strings of all years 0000..9999 and malformed strings; non-trivial = distinct string. "
    "transport: the real StdioClient behind a scripted process: every batch of 0..4 members over "
    "a 5-letter alphabet of valid / invalid members at a version without and with batching (exhaustive), every version of "
    "{unset, None, '', supported versions, cutoff neighbours} x a mixed stream whole and cut, seeded connection histories of "
    "1..4 segments with set_protocol_version between them; hardening: every other way to ask the question (should_reject_batch "
    "on falsy / non-list data, BatchProcessor constructor / update / can_process_batch / create_batch_rejection_error with falsy "
    "ids, both deprecated aliases, ProtocolVersion.is_older / is_newer / reversed compare, the client's getters after each set, "
    "StdioTransport.set_protocol_version), format-hostile and magic version strings (soft), falsy / twin-id / nested / hostile "
    "batch members, the same batch three times, 230-member batches with a late consumer, per-request streams, closed "
    "notification / read receivers, the child's stdin closed before a batch arrives; processor: BatchProcessor."
    "process_message_data over version sequences x data shapes x handler behaviours (returns / None / raises); "
    "non-trivial = distinct history"
)
TRUSTED = ["Gen/Versions.lean regenerated from batching.py (if/elif chain of supports_batching) and versioning.py (SUPPORTED_VERSIONS)"]
ASSUMPTIONS = [
    "version strings are ASCII (Python's int() and \\d also accept non-ASCII decimal digits; outside the property's quantifier)",
    "the cutoff 2025-06-18 is the one named by the property (pinned in Model/Batching.lean and in the oracle)",
]

CUTOFF = "2025-06-18"
CUTOFF_T = (2025, 6, 18)
WELL = re.compile(r"[0-9]{4}-[0-9]{2}-[0-9]{2}\Z")


def year_strings(y: int):
    ys = "%04d" % y
    return [f"{ys}-{k // 100:02d}-{k % 100:02d}" for k in range(10000)]


def expected_supports(v: str) -> bool:
    """independent reading of the property: strictly before 2025-06-18 in date order"""
    return (int(v[0:4]), int(v[5:7]), int(v[8:10])) < CUTOFF_T


def _cmp_char(PV, v):
    if not isinstance(v, str):
        return "E"
    try:
        c = PV.compare(v, CUTOFF)
    except ValueError:
        return "E"
    return "<" if c < 0 else ("=" if c == 0 else ">")


FALSY_DATA = [[], {}, 0, "", None, False, (), [[]], [0], [{}], [None], {"jsonrpc": "2.0", "method": "m"}, "[]", [1, 2]]


def _safe(f):
    try:
        return f()
    except Exception as ex:  # noqa
        return "raised:" + type(ex).__name__


def _api_obs(v):
    """every other public way to ask the same question (batching.py, versioning.py, both deprecated aliases)"""
    import warnings

    from chuk_mcp.protocol.features import batching as B
    from chuk_mcp.protocol.types.versioning import ProtocolVersion as PV
    from . import c13 as _self  # noqa

    o = {}
    if isinstance(v, str) and v:
        o["is_older"] = _safe(lambda: PV.is_older(v, CUTOFF))
        o["is_newer"] = _safe(lambda: PV.is_newer(v, CUTOFF))
        o["rev"] = _safe(lambda: PV.compare(CUTOFF, v))
    o["reject"] = [_safe(lambda d=d: B.should_reject_batch(v, d)) for d in FALSY_DATA]
    o["ctor"] = _safe(lambda: B.BatchProcessor(v).batching_enabled)

    def upd():
        p = B.BatchProcessor("2025-06-18" if v != "2025-06-18" else "2024-11-05")
        p.update_protocol_version(v)
        return [p.batching_enabled, p.protocol_version == v, [p.can_process_batch(d) for d in FALSY_DATA]]
    o["update"] = _safe(upd)
    with warnings.catch_warnings():
        warnings.simplefilter("ignore")
        o["legacy"] = [_safe(lambda: B._supports_batch_processing(v))]
        try:
            import sys
            from ..stdio_h import stdio_module
            o["legacy"].append(_safe(lambda: stdio_module()._supports_batch_processing(v)))
        except Exception:  # noqa
            pass
    o["err"] = _safe(lambda: [B.BatchProcessor(v).create_batch_rejection_error(i) for i in (None, 0, "", "x", 7)])
    return o


class Decision(Suite):
    name = "decision"
    _ctx = None

    def cases(self, ctx, budget):
        self._ctx = ctx
        from chuk_mcp.protocol.types.versioning import SUPPORTED_VERSIONS

        years = range(2015, 2036) if budget == "quick" else range(1990, 2200)
        out = [{"v": None}, {"v": ""}, {"selftest": 1}]
        # a "version" of every JSON type (None / '' are in the property; the others are recorded, nothing is demanded)
        out += [{"v": t, "typed": True} for t in (True, False, 0, 7, 20250618, 1.5, [], ["2025-06-18"], {}, {"v": "2025-06-18"})]
        out += [{"v": v} for v in SUPPORTED_VERSIONS]
        out += [{"v": v} for v in (
            "2025-06-17", "2025-06-18", "2025-06-19", "2025-05-31", "2025-07-01", "2025-05-99", "2025-06-00",
            "2024-12-31", "2026-01-01", "2024-99-99", "2026-00-00", "2025-00-00", "2025-99-99", "0000-00-00",
            "9999-99-99", "2025-07-00", "2025-06-20", "2025-10-01", "2025-02-30",
        )]
        out += [{"year": y} for y in years]
        ctx.exhaustive_parts.append(
            f"decision: all 10^4 strings yyyy-dd-dd of every year {years[0]}..{years[-1]} ({len(years) * 10000} strings)")
        rng = ctx.sub_rng("decision", budget)
        n = 3000 if budget == "quick" else 60000
        for _ in range(n):
            y = rng.choice([rng.randrange(0, 10000), rng.randrange(1900, 2300), 2025])
            out.append({"v": "%04d-%02d-%02d" % (y, rng.randrange(0, 100), rng.randrange(0, 100))})
        # malformed / unpadded / decorated (hand-modelled guards; outside the property: soft comparison)
        mal = [
            "2025", "2025-06", "2025-06-18-01", "2025-6-18", "2025-06-8", "25-06-18", "2025-6-1", "02025-06-18",
            "2025-006-018", "a-b-c", "2025-06-1x", "2025-0x6-18", "--", "-", "---", "2025--18", " 2025-06-18",
            "2025-06-18 ", "2025-06-18\n", "2025- 06-18", "2025-+6-18", "+2025-06-18", "2025-06-+19", "2_025-06-18",
            "2025-0_6-18", "2025-06-1_8", "2025-06-_18", "2025-06-18_", "2025-06-1__8", "2025/06/18", "2025.06.18",
            "20250618", "2025-06-18T00", "draft", "latest", "1-1-1", "3000-1-1", "2025-7-1", "2025-06-018",
            "%s", "%d-%d-%d", "{}", "{0}-{1}-{2}", "2025-06-18%s", "2025-%s-18", "0", "None", "null", "False", "2.0", "latest-06-18",
            "2025-06-18" * 3, "9" * 50 + "-06-18", "2025-06-18\u2028", "\u0085", "2025\u201306\u201318", "２０２５-０６-１８"[:10],
            "2025-13", "\t2025-06-17", "2025-\x0b06-\x0c17", "2025-06-17\r\n", "0-0-0", "2025-06-", "-06-18",
        ]
        out += [{"v": v} for v in mal]
        alphabet = "0123456789-- +_x\n"
        for _ in range(300 if budget == "quick" else 5000):
            ln = rng.randrange(0, 13)
            out.append({"v": "".join(rng.choice(alphabet) for _ in range(ln))})
        return out

    # ---------------------------------------------------------------- implementation
    def impl_batch(self, cases):
        from .. import stdio_cov

        stdio_cov.start()
        from chuk_mcp.protocol.features.batching import supports_batching
        from chuk_mcp.protocol.types.versioning import ProtocolVersion as PV, SUPPORTED_VERSIONS

        out = []
        from ..stdio_h import debug_logging

        for n, c in enumerate(cases):
            restore = debug_logging(n % 8 == 3) if n % 4 == 3 else None  # a host with DEBUG logging: the f-string / warning branches are live
            try:
                out.append(self._impl_one(c, supports_batching, PV, SUPPORTED_VERSIONS))
            finally:
                if restore is not None:
                    restore()
        return out

    def _impl_one(self, c, supports_batching, PV, SUPPORTED_VERSIONS):
        out = []
        for c in [c]:
            if "selftest" in c:  # the module's own printed self-test (its table is regenerated as Gen/BatchSelfTest.lean)
                import contextlib, io
                from chuk_mcp.protocol.features import batching as B

                buf = io.StringIO()
                try:
                    with contextlib.redirect_stdout(buf):
                        B.test_version_batching_scenarios()
                    txt = buf.getvalue()
                    out.append({"selftest": {"ok": txt.count("\u2705"), "bad": txt.count("\u274c")}})
                except Exception as ex:  # noqa
                    out.append({"selftest": {"raised": type(ex).__name__}})
                continue
            if "year" in c:
                vs = year_strings(c["year"])
                out.append({
                    "supports": "".join("1" if supports_batching(v) else "0" for v in vs),
                    "compare": "".join(_cmp_char(PV, v) for v in vs),
                })
                if self._ctx is not None:
                    self._ctx.evaluations += len(vs) - 1
                    self._ctx.impl_runs += len(vs) - 1
            else:
                v = c["v"]
                try:
                    s = bool(supports_batching(v))
                except Exception as ex:  # noqa
                    s = "raised:" + type(ex).__name__
                out.append({"supports": s, "compare": _cmp_char(PV, v), "supported": v in SUPPORTED_VERSIONS,
                            "api": _api_obs(v)})
        return out[0]

    # ---------------------------------------------------------------- model
    def model_line(self, case):
        if "selftest" in case:
            return None
        if "year" in case:
            return {"m": "versions", "year": case["year"]}
        v = case["v"]
        if case.get("typed") or (v is not None and not v.isascii()):
            return None
        return {"m": "versions", "v": v}

    def compare(self, case, o, m):
        if "year" in case:
            for k in ("supports", "compare"):
                if o[k] != m[k]:
                    return k
            if o["supports"] != m["gen"]:
                return "generated chain on integers"
            return None
        v = case["v"]
        strict = v is None or v == "" or WELL.match(v)
        if o["supports"] != m["supports"] or o["compare"] != m["compare"]:
            if strict:
                return "decision"
            if self._ctx is not None and len(self._ctx.notes) < 5:
                self._ctx.notes.append(
                    f"hand-modelled guard differs from the code on malformed version {v!r} (outside the property): "
                    f"code {o}, model {m}")
            return None
        if o["supported"] != m["supported"]:
            return "supported list"
        return None

    # ---------------------------------------------------------------- property oracle
    def _check_one(self, v, supports, cmpc):
        if v is None or v == "":
            if supports is not True:
                return ("none-not-accepted", f"supports_batching({v!r}) is {supports}: no negotiated version must accept batches",
                        {"v": v, "supports": True})
            return None
        if not WELL.match(v):
            return None  # the property says nothing about malformed version strings
        want = expected_supports(v)
        if supports is not want:
            return ("decision", f"supports_batching({v!r}) is {supports} but {v} is "
                    f"{'older than' if want else 'not older than'} {CUTOFF}", {"v": v, "supports": want})
        if (cmpc == "<") != (supports is True):
            return ("disagrees-with-compare", f"supports_batching({v!r}) is {supports} but ProtocolVersion.compare({v!r}, "
                    f"{CUTOFF!r}) says {cmpc!r}", {"v": v, "compare": "<" if supports else "= or >"})
        return None

    def _check_api(self, v, supports, api):
        """the other entry points must give the same answer (None / '' / well-formed versions only)"""
        if supports not in (True, False) or not api:
            return None
        is_list = [isinstance(d, list) for d in FALSY_DATA]
        want_reject = [(not supports) and l for l in is_list]
        if api.get("reject") != want_reject:
            return ("api-disagrees", f"should_reject_batch({v!r}, data) disagrees with supports_batching({v!r}) = {supports} "
                    "(a batch is a JSON array, nothing else)", {"v": v, "should_reject_batch": want_reject})
        if api.get("ctor") is not supports:
            return ("api-disagrees", f"BatchProcessor({v!r}).batching_enabled is {api.get('ctor')}", {"v": v, "batching_enabled": supports})
        want_upd = [supports, True, [supports or not l for l in is_list]]
        if api.get("update") != want_upd:
            return ("api-disagrees", f"BatchProcessor.update_protocol_version({v!r}) leaves a state that disagrees with "
                    f"supports_batching = {supports}", {"v": v, "update": want_upd})
        if any(x is not supports for x in api.get("legacy", [])):
            return ("api-disagrees", f"_supports_batch_processing({v!r}) disagrees with supports_batching", {"v": v})
        if "is_older" in api and WELL.match(v or ""):
            if api["is_older"] is not supports:
                return ("disagrees-with-compare", f"supports_batching({v!r}) is {supports} but ProtocolVersion.is_older({v!r}, "
                        f"{CUTOFF!r}) is {api['is_older']}", {"v": v, "is_older": supports})
            newer = expected_supports(v) is False and v != CUTOFF
            if api["is_newer"] is not newer or api["rev"] != (0 if v == CUTOFF else (1 if supports else -1)):
                return ("version-order", f"ProtocolVersion.is_newer / compare are not the date order around {v!r}", {"v": v})
        err = api.get("err")
        if isinstance(err, list):
            for i, e in zip((None, 0, "", "x", 7), err):
                if not (isinstance(e, dict) and isinstance(e.get("error"), dict) and e["error"].get("code") == -32600
                        and "id" in e and e["id"] == i and type(e["id"]) is type(i)):
                    return ("rejection-code", "create_batch_rejection_error does not build a -32600 error carrying the given id", {"id": i})
        return None

    def oracle(self, case, o):
        if "selftest" in case:
            st = o["selftest"]
            if st.get("bad") and self._ctx is not None:
                self._ctx.notes.append(f"INFORMATIONAL: the module's own self-test prints {st['bad']} failing row(s)")
            return None
        if "year" in case:
            vs = year_strings(case["year"])
            for i, v in enumerate(vs):
                r = self._check_one(v, o["supports"][i] == "1", o["compare"][i])
                if r is not None:
                    return r
            return None
        if case.get("typed"):
            return None
        return self._check_one(case["v"], o["supports"], o["compare"]) or (
            self._check_api(case["v"], o["supports"], o.get("api")) if (case["v"] is None or case["v"] == "" or WELL.match(case["v"])) else None)

    def kind(self, case, o):
        if "selftest" in case:
            return "selftest"
        if "year" in case:
            y = case["year"]
            return "year/" + ("before" if y < 2025 else "cutoff-year" if y == 2025 else "after")
        v = case["v"]
        if case.get("typed"):
            return "non-string-version/" + type(v).__name__
        if v is None or v == "":
            return "none"
        if WELL.match(v):
            return "wellformed/" + ("accept" if o["supports"] is True else "reject")
        return "malformed/" + ("accept" if o["supports"] is True else "reject" if o["supports"] is False else "raises")

    def nontrivial(self, case, o):
        return True

    def shrink_candidates(self, case):
        if "selftest" in case:
            return
        if "year" in case:
            o = self.impl_batch([case])[0]
            for i, v in enumerate(year_strings(case["year"])):
                if self._check_one(v, o["supports"][i] == "1", o["compare"][i]) is not None:
                    yield {"v": v}
                    return


def extra(ctx, tier):
    """line coverage of the anchored functions reached by this run (visibility only, no verdict)"""
    from .. import stdio_cov

    for n in stdio_cov.notes(['batching.', 'versioning.', '._process', '._send_error', '.set_', '.get_', '.is_']):
        if n not in ctx.notes:
            ctx.notes.append(n)


def suites():
    from . import c13_transport, c13_processor
    return [Decision()] + c13_transport.suites() + c13_processor.suites()
