"""C04 — a library server never acknowledges a protocol version it does not support."""
from __future__ import annotations

import datetime

from .. import version_h as V
from ..core import canon
from ..runner import Suite

MANIFEST = dict(
    text="Lean 4 theorems about a model of the initialize handler taking the supported list as a parameter (any non-empty list, any requested value: supported, unsupported or malformed string, non-string, absent): the answer is always a member of the list, the requested version is echoed iff it is supported, the recorded session carries the answered version; and about the composition with the client model of C03: every handshake ends agreed on a version in both lists or with a version-mismatch error, no third outcome. The theorems are instantiated with SUPPORTED_VERSIONS and the handler's literal default regenerated from source on every run. Correspondence: every calendar date 1925-2124, malformed strings, non-strings and absent forms through the real ProtocolHandler.handle_message and session_manager.get_session; the real send_initialize against the real handler over an in-memory pipe for every client list of length <=3 over 3 real + 3 invented versions x every preferred version.",
    note="Trusted: Lean kernel, the AST translator for the two constants, the correspondence harness. The handler's control flow is hand-modelled (repaired form: fixes/C04-never-echo-unsupported-version.diff) and tied by the correspondence run; Pydantic envelope validation is sampled.",
    technique="Lean 4 proof over a parametric model + constants regenerated from source + dense differential correspondence run",
    design="5/C04",
)
GEN = ["Versions"]
# supplementary (the pure utilities of versioning.py: not stated by the property text; INFO only, see Props/C04Supp.lean)
SUPP_GEN = ["VersionLib"]
SUPP_THEOREMS = [
    "c04_versionlib_translated",
    "c04_negotiate_first_common",
    "c04_negotiate_raises_iff_disjoint",
    "c04_compatible_iff",
    "c04_compare_spec",
    "c04_compare_total_order",
    "c04_compare_is_date_order",
    "c04_compare_matches_c13_model",
    "c04_parse_iff_valid",
    "c04_current_minimum_bounds",
    "c04_version_info_flags",
]
THEOREMS = [
    "c04_translated",
    "c04_answer_supported",
    "c04_echo_iff",
    "c04_nonstring_gets_latest",
    "c04_session_records_answer",
    "c04_session_records_answer_seq",
    "c04_default_supported",
    "c04_library_answer_supported",
    "c04_handshake_sound",
    "c04_handshake_total",
    "c04_handshake_common",
    "c04_library_handshake",
    "c04_code_is_instance",
    "c04_any_choice",
    "c04_session_records_answer_seq_any_choice",
    "c04_session_records_answer_any_ids",
    "c04_earlier_answers_unaffected",
    "c04_handlers_independent",
    "c04_handshake_sound_any_choice",
]
RULE = (
    "server: requested protocolVersion in {each supported version, every calendar date 1925-01-01..2124-12-31, seeded dddd-dd-dd strings "
    "(3 k quick / 500 k thorough), mutations of the supported versions, malformed strings, non-strings of "
    "every JSON type, absent in 4 shapes}, and sequences of 2-3 initialize requests on one handler (answers and session records read right after "
    "each step AND again after the whole sequence; answers only serialised after the sequence; requests handed over concurrently "
    "from a task group; 2-3 handlers alive at once with equal message ids; the same unacceptable value 2-4 times in a row; a session "
    "store raising every exception class; handler variants) with and without a carried "
    "(live or stale) session id, through the real handle_message, compared with serverAnswer on the regenerated constants; "
    "handshake: the real send_initialize against the real handler over an in-memory pipe (messages cross as JSON text) for every client "
    "list of length<=3 over 3 real + 3 invented versions x 9 preferred, compared with the composed model; "
    "non-trivial = distinct requested value / distinct (client list, preferred)"
)
TRUSTED = ["Gen/Versions.lean regenerated from versioning.py (SUPPORTED_VERSIONS) and protocol_handler.py (default literal)"]
ASSUMPTIONS = [
    "an initialize request reaches the handler as the object the library's own parse_message builds from the JSON text",
    "the server's supported list is the library's SUPPORTED_VERSIONS (the handler has no per-instance list)",
]

MALFORMED_STRINGS = [
    " ", "2025-06-18 ", " 2025-06-18", "2025-06-18\n", "\t2025-03-26", "2025-6-18", "2025-06-1", "25-06-18",
    "2025/06/18", "2025.06.18", "20250618", "2025-06-18T00:00:00Z", "2025-06-18-draft", "v2025-06-18",
    "2025-06-18\u0000", "2025–06–18", "２０２５-０６-１８", "2025-06-1٨",
    "2025-13-45", "0000-00-00", "9999-99-99", "2025-02-30", "latest", "current", "null", "None", "true", "1", "1.0",
    "2.0", "garbage", "DRAFT-2025-v2", "2025-06-18,2025-03-26", "[\"2025-06-18\"]", "2025-06-18" * 40, "é", "-", "--",
    "2025-06-18\r", "2025-06-18;", "2O25-06-18",
]
NON_STRINGS = [0, 1, -1, 123, 20250618, 2025.0618, 1.5, True, False, None, [], ["2025-06-18"], [2025, 6, 18], {},
               {"version": "2025-06-18"}, {"protocolVersion": "2025-06-18"}, 2**70, -(2**63),
               0.0, -0.0, 1.0, 7, 7.0, [""], [0], {"": ""}, [[]], 1e300]
TWIN_STRINGS = ["0", "1", "7", "7.0", "1.0", "0.0", "True", "true", "False", "false", "null", "None", "[]", "{}", "NaN"]
SYNTAX_TEXT = [  # text that looks like the syntax being produced or parsed (JSON, JSON-RPC, the date pattern, format strings)
    '{"protocolVersion":"2025-06-18"}', '"2025-06-18"', "'2025-06-18'", '2025-06-18","protocolVersion":"1999-01-01', "[NaN]", ":Infinity,",
    "values=[1.0, NaN]", '["2025-06-18"]', '{"jsonrpc":"2.0","id":1,"result":{"protocolVersion":"2025-06-18"}}', "2025-06-18}", "{2025-06-18",
    "^\\d{4}-\\d{2}-\\d{2}$", "\\d{4}-\\d{2}-\\d{2}", "^2025-06-18$", "2025-06-18|2024-11-05", ".*", "2025-..-18", "%Y-%m-%d", "${version}", "{version}",
    "2025-06-18, 2025-03-26 and 2024-11-05", "2025-06-18 and 2024-11-05", "data: 2025-06-18", "event: message", "id: 1", "retry: 0", ":", ": x",
    "Content-Length: 10", "2025-06-18\\n", "\\u0032025-06-18", "protocolVersion", "protocolVersion: 2025-06-18", "null", "undefined",
]
ABSENT_SHAPES = ["no-member", "empty-params", "null-params", "no-params", "lookalikes"]


def all_dates(y0=1925, y1=2124):
    d = datetime.date(y0, 1, 1)
    end = datetime.date(y1, 12, 31)
    one = datetime.timedelta(days=1)
    while d <= end:
        yield d
        d += one


def mutations(rng, versions, n):
    alphabet = "0123456789-"
    out = []
    for _ in range(n):
        s = list(rng.choice(versions))
        for _ in range(rng.choice([1, 1, 1, 2])):
            op = rng.choice("sid")
            i = rng.randrange(len(s) + (1 if op == "i" else 0)) if s else 0
            if op == "s" and s:
                s[i] = rng.choice(alphabet)
            elif op == "i":
                s.insert(i, rng.choice(alphabet + " aZ"))
            elif op == "d" and s:
                del s[i]
        out.append("".join(s))
    return out


def describe(req):
    if req["k"] == "str":
        return repr(req["s"])
    if req["k"] == "json":
        return "the non-string " + canon(req["v"])
    return "no protocolVersion (" + req.get("shape", "no-member") + ")"


class Server(Suite):
    """Requested value -> answered version + recorded session, real handler vs `serverAnswer`."""

    name = "server-answer"

    def cases(self, ctx, budget):
        sup = V.server_supported()
        out = [{"req": {"k": "str", "s": s}} for s in sup]
        out += [{"req": {"k": "absent", "shape": sh}} for sh in ABSENT_SHAPES]
        out += [{"req": {"k": "json", "v": v}} for v in NON_STRINGS]
        out += [{"req": {"k": "str", "s": s}} for s in V.INVENTED + [V.OUTSIDE] + MALFORMED_STRINGS + [""]]
        # hardening sweep: type twins as strings, format-hostile text, every constant of the anchored source (as a string, and the
        # integers also as numbers and as digit strings)
        strs, ints = V.harvest_constants()
        out += [{"req": {"k": "str", "s": s}} for s in TWIN_STRINGS + V.HOSTILE_TEXT + strs + [str(i) for i in ints] if s != ""]
        out += [{"req": {"k": "json", "v": i}} for i in ints]
        # the dressing of the request around the version member: ids of every shape (falsy, twins, hostile, none = sent as a
        # notification), clientInfo falsy / absent / hostile, member order, extra and look-alike members
        dress = [{"k": "str", "s": sup[-1]}, {"k": "str", "s": "1999-12-31"}, {"k": "str", "s": ""}, {"k": "json", "v": 0},
                 {"k": "json", "v": None}, {"k": "absent", "shape": "no-member"}]
        for r in dress:
            for i in range(len(V.REQUEST_IDS)):
                out.append({"req": dict(r, id=i)})
            for ci in V.CLIENT_INFO:
                out.append({"req": dict(r, ci=ci)})
            if r["k"] != "absent":
                for layout in ("version-first", "extras"):
                    out.append({"req": dict(r, layout=layout)})
        # text that looks like syntax, as a requested version and as the client's name
        out += [{"req": {"k": "str", "s": s}} for s in SYNTAX_TEXT]
        # option x error path: every handler variant (capabilities, a non-empty method registry, hostile serverInfo) x every request kind
        for hv in V.HANDLER_VARIANTS[1:]:
            for r in dress + [{"k": "str", "s": s_} for s_ in sup[:2] + SYNTAX_TEXT[:6] + V.HOSTILE_TEXT[:6]] + [{"k": "json", "v": v} for v in NON_STRINGS[:12]] \
                    + [{"k": "absent", "shape": sh} for sh in ABSENT_SHAPES]:
                out.append({"req": r, "hv": hv})
        # two server objects in one process, the request goes to the one built FIRST (every pairing of handler classes / variants)
        for hv in V.HANDLER_VARIANTS:
            for newer in V.HANDLER_VARIANTS:
                for r in dress:
                    out.append({"req": r, "hv": hv, "newer": newer})
        rng = ctx.sub_rng("c04-server", budget)
        out += [{"req": {"k": "str", "s": s}} for s in mutations(rng, sup, 300 if budget == "quick" else 5000)]
        out += self.sequences(sup)
        out += self.sequences2(sup, budget)
        out += [{"req": {"k": "str", "s": d.isoformat()}} for d in all_dates()]
        ctx.exhaustive_parts.append("server-answer: every calendar date 1925-01-01..2124-12-31")
        ctx.exhaustive_parts.append(
            "server-answer: every sequence of 2 initialize requests over {each supported version, an unsupported date, a non-string, "
            "absent} x carried session id {none, the previous one, a stale one}, and every sequence of 3 x 5 carry patterns, on one handler")
        n = {"quick": 3000, "search": 50000}.get(budget, 500000)
        for _ in range(n):  # dddd-dd-dd strings that need not be calendar dates
            out.append({"req": {"k": "str", "s": "%04d-%02d-%02d" % (rng.randrange(10000), rng.randrange(100), rng.randrange(100))}})
        out = V.assign_debug(out, self.static_kind, ctx=ctx, name=self.name)
        return out + self.other_backend(out, budget, ctx)

    def other_backend(self, cases, budget, ctx):
        """The same requests against the library started WITHOUT Pydantic (MCP_FORCE_FALLBACK=1, its own switch) in a worker process:
        every non-date single request, a dense sample of the dates, a third of the sequences."""
        from ..core import sha
        import re as _re

        datelike = _re.compile(r"^\d{4}-\d{2}-\d{2}$")
        sup = set(V.server_supported())
        out = []
        for c in cases:
            h = int(sha(c), 16)
            if "steps" in c:
                if len(c["steps"]) <= 5 and h % (3 if budget == "quick" else 1) == 0:
                    out.append(dict(c, backend="fallback"))
            else:
                r = c["req"]
                plain_date = r["k"] == "str" and datelike.match(r["s"]) and r["s"] not in sup and len(r) == 2 and not c.get("hv")
                if not plain_date or h % (40 if budget == "quick" else 8) == 0:
                    out.append(dict(c, backend="fallback"))
        ctx.notes.append(f"{self.name}: {len(out)} of the cases also run in a worker process with MCP_FORCE_FALLBACK=1 (the library without Pydantic)")
        return out

    @staticmethod
    def static_kind(case):
        """scenario kind computable before running (for the DEBUG-logging share)"""
        if "steps" in case:
            return ("seq", len(case["steps"]) if len(case["steps"]) <= 4 else "long", tuple(dict.fromkeys(str(s_.get("carry")) for s_ in case["steps"])),
                    case.get("read"), bool(case.get("concurrent")), case.get("handlers"), case.get("hv"), tuple(case.get("hvs") or ()), bool(case.get("store_raises")),
                    bool(case.get("dump_raises")), case.get("idgen"), tuple(sorted({str(s_.get("nested")) for s_ in case["steps"]})), any(s_.get("mutate") for s_ in case["steps"]),
                    case.get("backend"),
                    tuple(sorted({b for s_ in case["steps"] for b in (s_.get("between") or [])})))
        r = case["req"]
        return ("one", r["k"], r.get("shape"), r.get("id"), r.get("ci"), r.get("layout"), case.get("hv"), case.get("newer"),
                type(r.get("v")).__name__ if r["k"] == "json" else None)

    @staticmethod
    def sequences2(sup, budget):
        """Hardening sweep 2: several handlers alive at once, the same failure repeated, a faulty session store, carried ids of other
        types, handler variants — all on sequences."""
        good = [{"k": "str", "s": s_} for s_ in reversed(sup)]
        bad = [{"k": "str", "s": "1999-12-31"}, {"k": "str", "s": ""}, {"k": "str", "s": "garbage"}, {"k": "str", "s": sup[0] + "\n"},
               {"k": "json", "v": 0}, {"k": "json", "v": None}, {"k": "json", "v": []}, {"k": "json", "v": {}}, {"k": "json", "v": True},
               {"k": "absent", "shape": "no-member"}, {"k": "str", "s": '{"protocolVersion":"2025-06-18"}'}]
        reqs = good[:2] + bad[:1] + bad[4:5]
        out = []
        # D. the SAME unacceptable value 2, 3, 4 times in a row (also after / before a good one), then a supported one
        for b in bad:
            for k in (2, 3, 4):
                for g in good[:2]:
                    for carry in (None, "prev"):
                        for read in ("both", "late"):
                            if k == 4 and (carry or read == "late") and budget == "quick":
                                continue
                            steps = [{"req": b, "carry": (carry if i else None)} for i in range(k)] + [{"req": g, "carry": carry}]
                            out.append({"steps": steps, "read": read})
                out.append({"steps": [{"req": good[0], "carry": None}] + [{"req": b, "carry": None} for _ in range(k)] + [{"req": good[1], "carry": None}]})
        for b in bad[:6]:
            for b2 in bad[:6]:
                if b is not b2:  # two different unacceptable values alternating
                    out.append({"steps": [{"req": x, "carry": None} for x in (b, b2, b, b2, good[0])]})
        # B. two and three handlers alive in one process, used alternately with the SAME message ids; a session id of the other handler
        for a in reqs:
            for b in reqs:
                for c in reqs:
                    out.append({"handlers": 2, "steps": [{"req": a, "h": 0}, {"req": b, "h": 1}, {"req": c, "h": 0, "carry": "prev"},
                                                         {"req": a, "h": 1, "carry": "other-handler"}]})
                out.append({"handlers": 2, "steps": [{"req": a, "h": 0}, {"req": b, "h": 1}, {"req": b, "h": 0}, {"req": a, "h": 1}], "read": "late"})
                out.append({"handlers": 3, "steps": [{"req": a, "h": 2}, {"req": b, "h": 0}, {"req": a, "h": 1}, {"req": b, "h": 2}, {"req": b, "h": 1, "carry": "other-handler"}]})
        for hvs in (["plain", "mcpserver"], ["mcpserver", "plain"], ["mcpserver", "mcpserver"], ["registry", "plain", "mcpserver"], ["plain", "plain", "plain"]):
            for a in reqs:
                for b in reqs:
                    # every handler built first; then the requests, oldest handler first and last
                    steps = [{"req": a, "h": 0}, {"req": b, "h": len(hvs) - 1}, {"req": b, "h": 0, "carry": "prev"}, {"req": a, "h": 1}]
                    out.append({"handlers": len(hvs), "hvs": hvs, "steps": steps})
                    out.append({"handlers": len(hvs), "hvs": hvs, "steps": steps[:2], "read": "late"})
        for b in bad:  # the same unacceptable value once per handler (state must not be shared between handlers)
            out.append({"handlers": 2, "steps": [{"req": b, "h": 0}, {"req": b, "h": 1}, {"req": b, "h": 0}, {"req": good[0], "h": 1}]})
        # E. carried session ids of other types; C. handler variants x sequences incl. a registered method that raises in between
        for a in reqs:
            for b in reqs:
                for carry in ("int", "true"):
                    out.append({"steps": [{"req": a, "carry": None}, {"req": b, "carry": carry}]})
                for hv in V.HANDLER_VARIANTS[1:]:
                    out.append({"hv": hv, "steps": [{"req": a, "carry": None}, {"req": b, "carry": "prev"}, {"req": a, "carry": None}], "read": "late"})
                out.append({"hv": "registry", "steps": [{"req": a, "carry": None}, {"req": b, "carry": "prev", "between": ["raising-method", "tools-list"]},
                                                        {"req": a, "carry": None, "between": ["raising-method"]}]})
        # H. the environment between two handshakes: the global random generator re-seeded with the same seed (a tool that wants
        #    reproducible output), the wall clock jumping forwards by hours / years or backwards
        for a in reqs:
            for b in reqs:
                for env in (["reseed:5"], ["reseed:0"], ["clock:86400"], ["clock:-86400"], ["clock:1000000000"], ["reseed:5", "clock:-3600"]):
                    out.append({"steps": [{"req": a, "carry": None, "between": env}, {"req": b, "carry": None, "between": env}]})
                out.append({"steps": [{"req": a, "carry": None, "between": ["reseed:9"]}, {"req": b, "carry": None},
                                      {"req": a, "carry": None, "between": ["reseed:9"]}, {"req": b, "carry": None}], "read": "late"})
                out.append({"handlers": 2, "steps": [{"req": a, "h": 0, "between": ["reseed:3"]}, {"req": b, "h": 1, "between": ["reseed:3"]},
                                                     {"req": b, "h": 0, "between": ["reseed:3"]}]})
        # J. re-entrancy: the initialize arrives through a registered method that calls handle_message on the same handler and then
        #    returns / raises;  M. a consumer rewrites the response object it was given;  K. building the result fails after the
        #    session was created (first 1-2 times), then the next request
        for a in reqs:
            for b in reqs:
                for then in ("return", "raise"):
                    out.append({"steps": [{"req": a, "carry": None, "nested": then, "cls": "Unprintable"}, {"req": b, "carry": "prev"},
                                          {"req": a, "carry": None, "nested": then}]})
                out.append({"steps": [{"req": a, "carry": None, "mutate": True}, {"req": b, "carry": None, "mutate": True}, {"req": a, "carry": "prev"}]})
                out.append({"steps": [{"req": a, "carry": None, "mutate": True}, {"req": b, "carry": None}], "read": "late"})
        for cls in ("ValueError", "KeyError", "Unprintable"):
            for times in (1, 2):
                for a in (good[0], bad[0], bad[4]):
                    out.append({"dump_raises": {"cls": cls, "times": times},
                                "steps": [{"req": a, "carry": None}, {"req": a, "carry": None}, {"req": good[1], "carry": None}]})
        # session managers whose generate_session_id() (the documented extension point) repeats an id while the session is live:
        # a constant id, one id per k creations, a short cycle, ids that become sticky - with requests negotiating DIFFERENT versions
        seq_reqs = good + bad[:2] + bad[4:5] + bad[9:10]
        for idgen in V.ID_GENERATORS:
            for a in seq_reqs:
                for b in seq_reqs:
                    out.append({"idgen": idgen, "steps": [{"req": a, "carry": None}, {"req": b, "carry": None}, {"req": a, "carry": None}]})
                    if idgen in ("constant", "cycle-2"):
                        out.append({"idgen": idgen, "steps": [{"req": a, "carry": None}, {"req": b, "carry": "prev"}, {"req": b, "carry": None},
                                                              {"req": a, "carry": "first"}], "read": "late"})
            for hv in ("mcpserver", "registry"):
                out.append({"idgen": idgen, "hv": hv, "steps": [{"req": good[0], "carry": None}, {"req": good[1], "carry": None},
                                                                {"req": bad[0], "carry": None}, {"req": good[2 % len(good)], "carry": None}]})
            out.append({"idgen": idgen, "handlers": 2, "steps": [{"req": good[0], "h": 0}, {"req": good[1], "h": 1}, {"req": good[1], "h": 0},
                                                                 {"req": good[0], "h": 1}]})
        # F. the session store raises (every exception class, also one without a text) for the first 1-2 initializes, then works
        for cls in V.EXC_CLASSES:
            for times in (1, 2):
                for a in (good[0], bad[0], bad[4]):
                    out.append({"store_raises": {"cls": cls, "times": times},
                                "steps": [{"req": a, "carry": None}, {"req": a, "carry": None}, {"req": good[1], "carry": None}, {"req": a, "carry": "prev"}]})
        return out

    @staticmethod
    def sequences(sup):
        """2-3 initialize requests on one handler; cheapest witnesses (two supported versions, session carried) first"""
        reqs = [{"k": "str", "s": s} for s in reversed(sup)] + [{"k": "str", "s": "1999-12-31"}, {"k": "json", "v": 0},
                                                                  {"k": "absent", "shape": "no-member"}]
        out = []
        for carry in ("prev", None, "bogus", "empty", "deleted", "cleared"):
            for a in reqs:
                for b in reqs:
                    out.append({"steps": [{"req": a, "carry": None}, {"req": b, "carry": carry}]})
        for between in (["unknown-method"], ["initialized"], ["unknown-notification"], ["ping", "initialized", "ping"], []):
            for a in reqs[:4]:
                for b in reqs[:4]:
                    out.append({"steps": [{"req": a, "carry": None}, {"req": b, "carry": "prev", "between": between}]})
                    out.append({"steps": [{"req": a, "carry": None, "between": between}, {"req": b, "carry": None, "between": between}]})
        for a in reqs:  # the very same message object delivered twice, then a different request
            for carry in (None, "prev"):
                out.append({"steps": [{"req": a, "carry": None}, {"req": a, "carry": carry, "same_object": True},
                                      {"req": reqs[0] if a is not reqs[0] else reqs[1], "carry": carry}]})
        # answers that are only serialised after LATER requests were handled (a server loop that handles what is pending and then
        # flushes; several connections on one handler): every ordered pair and triple of request kinds, read late only / read
        # twice; and the same requests handed over concurrently from a task group
        for a in reqs:
            for b in reqs:
                out.append({"steps": [{"req": a, "carry": None}, {"req": b, "carry": None}], "read": "late"})
                out.append({"steps": [{"req": a, "carry": None}, {"req": b, "carry": None}], "concurrent": True})
                out.append({"steps": [{"req": a, "carry": None}, {"req": b, "carry": "prev"}], "read": "late"})
                for c in reqs:
                    out.append({"steps": [{"req": a, "carry": None}, {"req": b, "carry": None}, {"req": c, "carry": None}], "read": "late"})
                    if a is reqs[0] or c is reqs[1]:
                        out.append({"steps": [{"req": a, "carry": None}, {"req": b, "carry": None}, {"req": c, "carry": None}],
                                    "concurrent": True})
        # a long-lived handler: 150 initialize requests cycling through the request kinds, every second one carrying the previous id
        out.append({"steps": [{"req": reqs[i % len(reqs)], "carry": ("prev" if i % 2 else None)} for i in range(150)]})
        out.append({"steps": [{"req": reqs[i % len(reqs)], "carry": None} for i in range(150)], "read": "late"})
        out.append({"steps": [{"req": reqs[(i * 5) % len(reqs)], "carry": None} for i in range(100)], "concurrent": True})
        for pattern in (("prev", "prev"), ("first", "first"), (None, "prev"), ("prev", None), ("bogus", "prev")):
            for a in reqs:
                for b in reqs:
                    for c in reqs:
                        out.append({"steps": [{"req": a, "carry": None}, {"req": b, "carry": pattern[0]},
                                              {"req": c, "carry": pattern[1]}]})
        return out

    def impl_batch(self, cases):
        single = [c for c in cases if "steps" not in c]
        seqs = [c for c in cases if "steps" in c]
        so = iter(V.run_split("run_server", single) if single else [])
        qo = iter(V.run_split("run_server_seq", seqs) if seqs else [])
        obs = [next(qo) if "steps" in c else next(so) for c in cases]
        self._last = {id(c): o for c, o in zip(cases, obs)}
        return obs

    @staticmethod
    def choice(o):
        """the version the handler under test fell back to, handed to the model as its free choice (serverAnswerG): the model then
        demands an echo for a supported request and accepts any SUPPORTED version otherwise"""
        a = (o or {}).get("answered")
        return a if isinstance(a, str) else None

    @staticmethod
    def model_req(r):
        if r["k"] == "str":
            return {"k": "str", "s": r["s"]}
        if r["k"] == "json":
            return {"k": "other"}
        return {"k": "absent"}

    def model_line(self, case):
        if "steps" in case:
            # the carried id as a store position (the model ignores it, as the code does)
            pos = {"prev": lambda i: i - 1, "first": lambda i: 0, "bogus": lambda i: 999, "empty": lambda i: 998,
                   "deleted": lambda i: i - 1, "cleared": lambda i: i - 1}
            obs = (getattr(self, "_last", {}).get(id(case)) or {}).get("steps") or []
            pos.update({"int": lambda i: 7, "true": lambda i: 1, "other-handler": lambda i: 997})
            skip = (case.get("store_raises") or case.get("dump_raises") or {}).get("times", 0)  # initializes turned into errors: not modelled
            return {"m": "version", "op": "serverseq",
                    "steps": [{"req": self.model_req(st["req"]), "carry": pos[st["carry"]](i) if st.get("carry") else None,
                               "choice": self.choice(obs[i]) if i < len(obs) else None, "h": st.get("h", 0)}
                              for i, st in enumerate(case["steps"])][skip:]}
        if case["req"].get("id") is not None and V.REQUEST_IDS[case["req"]["id"]] is None:
            return None  # initialize sent as a notification: there is no answer to compare (oracle only: the session, if any)
        return {"m": "version", "op": "server", "req": self.model_req(case["req"]),
                "choice": self.choice(getattr(self, "_last", {}).get(id(case)))}

    def compare(self, case, o, m):
        if "steps" in case:
            skip = (case.get("store_raises") or case.get("dump_raises") or {}).get("times", 0)
            for so in o["steps"][:skip]:
                if so.get("kind") != "error" or (case.get("store_raises") and (so.get("has_session") or so.get("late", {}).get("has_session"))):
                    return "a failing session store / result builder did not turn the initialize into an error"
            if len(o["steps"]) - skip != len(m["steps"]):
                return "step count differs"
            for so, sm in zip(o["steps"][skip:], m["steps"]):
                if so.get("session_superseded"):
                    d = None if (so.get("kind") == "result" and so.get("answered") == sm["answered"]) else "answered version differs"
                else:
                    d = self.compare({"req": None}, so, sm)
                if d:
                    return d
                late = so.get("late")
                if late is not None:  # the same answer / record when looked at after the whole sequence
                    if late.get("kind") != "result" or late.get("answered") != sm["answered"]:
                        return "answered version differs when serialised after later requests"
                    if late.get("has_session") and not late.get("sid_reissued") and late.get("session") != sm["recorded"]:
                        return "recorded version differs when looked up after later requests"
                    if "session_object" in late and not late.get("sid_reissued") and late["session_object"] != sm["recorded"]:
                        return "session record object differs after later requests"
            return None
        if o.get("kind") != "result" or not o.get("has_session"):
            return "no result / no session"
        if o.get("answered") != m["answered"] or type(o.get("answered")) is not str:
            return "answered version differs"
        if o.get("session") != m["recorded"] or type(o.get("session")) is not str:
            return "recorded version differs"
        return None

    def oracle(self, case, o):
        if "steps" in case:
            n = len(case["steps"])
            for i, (st, so) in enumerate(zip(case["steps"], o["steps"])):
                v = self.oracle({"req": st["req"]}, so)
                late = so.get("late")
                if v is None and late is not None and i < n - 1:
                    # whenever it is serialised, the response must carry a supported version = what that session recorded
                    lo = {"kind": late.get("kind"), "answered": late.get("answered"), "has_session": False}
                    if late.get("has_session") and not late.get("sid_reissued"):
                        lo.update(has_session=True, session=late.get("session"))
                    elif "session_object" in late and not late.get("sid_reissued"):
                        lo.update(has_session=True, session=late.get("session_object"))
                    v = self.oracle({"req": st["req"]}, lo)
                    if v is None and "session_object" in late and not late.get("sid_reissued") and isinstance(late.get("answered"), str) \
                            and canon(late["session_object"]) != canon(late["answered"]):
                        v = ("session-version-differs", f"initialize requesting {describe(st['req'])}: answered {late['answered']!r} but the "
                             f"session record handed out for it says {canon(late['session_object'])}", {"session": late["answered"]})
                    if v is not None:
                        later = ", ".join(describe(s_["req"]) for s_ in case["steps"][i + 1:])
                        how = "handed over concurrently" if case.get("concurrent") else "handled"
                        v = (v[0] + "-after-later-requests",
                             f"initialize no. {i + 1} of {n} on one handler, looked at after the later requests ({later}) were {how}: " + v[1], v[2])
                        return v
                if v is not None:
                    key, what, exp = v
                    if so.get("read_late_only"):
                        what += " (every answer of the sequence was serialised only after the last request had been handled)"
                    if i > 0:
                        carried = {None: "no session id", "prev": "the session id of the previous initialize",
                                   "first": "the session id of the first initialize", "bogus": "a session id never issued",
                                   "empty": "an empty session id", "deleted": "the id of the previous session, deleted meanwhile",
                                   "cleared": "the id of the previous session, after all sessions were cleared", "int": "the session id 7",
                                   "true": "the session id true", "other-handler": "a session id issued by another handler"}[so.get("carried")]
                        key += "-on-reinitialize"
                        if case.get("handlers"):
                            what = f"[{case['handlers']} handlers alive in one process; this request went to handler {st.get('h', 0)}] " + what
                        what = (f"initialize no. {i + 1} on one handler (earlier requests: "
                                f"{', '.join(describe(s['req']) for s in case['steps'][:i])}; carrying {carried}): " + what)
                    return (key, what, exp)
            return None
        sup = V.server_supported()
        r = case["req"]
        what_req = describe(r)
        if o.get("kind") == "result":
            a = o.get("answered")
            ok = isinstance(a, str) and a in sup
            if not ok:
                echoed = (r["k"] == "str" and a == r["s"] and type(a) is str) or (r["k"] == "json" and canon(a) == canon(r["v"]))
                key = "answered-unsupported-version"
                if echoed:
                    key = "acknowledged-unsupported-version" if r["k"] == "str" else "acknowledged-non-string-version"
                return (key, f"initialize requesting {what_req} was answered with protocolVersion {canon(a)}, "
                        f"which the server does not support ({sup})", {"answered": "a member of " + canon(sup)})
            if r["k"] == "str" and r["s"] in sup and a != r["s"]:
                return ("supported-version-not-acknowledged", f"initialize requesting the supported version {r['s']!r} was answered "
                        f"with {a!r}", {"answered": r["s"]})
            if o.get("sid_returned") and not o.get("has_session"):
                where = " (another server object of this process holds a session under that id)" if o.get("session_elsewhere") else ""
                who = (f"; the answer names server {o.get('server_name')!r}, the request went to {o.get('expected_server_name')!r}"
                       if o.get("expected_server_name") and o.get("server_name") != o.get("expected_server_name") else "")
                return ("answered-session-not-recorded", f"initialize requesting {what_req}: answered {a!r} and handed out a session id, but the "
                        f"server the request went to records no session under it{where}{who}", {"session": a})
            if o.get("has_session") and canon(o.get("session")) != canon(a):
                return ("session-version-differs", f"initialize requesting {what_req}: answered {a!r} but the session records "
                        f"{canon(o.get('session'))}", {"session": a})
        elif o.get("has_session"):
            s = o.get("session")
            if not (isinstance(s, str) and s in sup):
                return ("session-unsupported-version", f"initialize requesting {what_req} got no result but a session recording "
                        f"{canon(s)} was created", {"session": "a member of " + canon(sup)})
        return None

    def kind(self, case, o):
        if "steps" in case:
            reuse = "reused" if any(s.get("reused_carried") for s in o["steps"]) else "fresh"
            n = len(case["steps"])
            extra = "".join(sorted({"/between:" + "+".join(s["between"]) for s in case["steps"] if s.get("between")}
                                   | {"/same-object" for s in case["steps"] if s.get("same_object")}))
            extra += ("/%d-handlers" % case["handlers"] if case.get("handlers") else "") + ("/" + "+".join(case["hvs"]) if case.get("hvs") else "") + ("/" + case["hv"] if case.get("hv") else "") \
                + ("/store-raises:" + case["store_raises"]["cls"] if case.get("store_raises") else "") \
                + ("/result-builder-raises" if case.get("dump_raises") else "") + ("/ids:" + case["idgen"] if case.get("idgen") else "") + ("/nested" if any(s.get("nested") for s in case["steps"]) else "") \
                + ("/consumer-rewrites-response" if any(s.get("mutate") for s in case["steps"]) else "") \
                + ("/" + case["backend"] if case.get("backend") else "")
            mode = "/concurrent" if case.get("concurrent") else ("/answers-read-after-the-sequence" if case.get("read") == "late" else "")
            return "sequence/%s/%s/%s%s%s" % (n if n <= 3 else "long", "+".join(dict.fromkeys(str(s.get("carry")) for s in case["steps"][1:])),
                                              reuse, extra, mode)
        r = case["req"]
        dress = "".join(["/id:" + type(V.REQUEST_IDS[r["id"]]).__name__ + ("-falsy" if not V.REQUEST_IDS[r["id"]] else "") if r.get("id") is not None else "",
                         "/clientInfo:" + r["ci"] if r.get("ci") else "", "/layout:" + r["layout"] if r.get("layout") else ""])
        if case.get("hv"):
            dress += "/handler:" + case["hv"]
        if case.get("newer"):
            dress += "/newer-object:" + case["newer"]
        if case.get("backend"):
            dress += "/" + case["backend"]
        if dress:
            return "dressed/" + r["k"] + dress + "/" + str(o.get("kind"))
        if r["k"] == "absent":
            return "absent/" + r.get("shape", "")
        if r["k"] == "json":
            return "non-string/" + type(r["v"]).__name__
        s = r["s"]
        if s in V.server_supported():
            return "string/supported"
        try:
            datetime.date.fromisoformat(s)
            if len(s) == 10:
                return "string/calendar-date-unsupported"
        except ValueError:
            pass
        if len(s) == 10 and s[4] == s[7] == "-" and (s[:4] + s[5:7] + s[8:]).isdigit() and s.isascii():
            return "string/dddd-dd-dd-not-a-date"
        return "string/malformed"

    def shrink_candidates(self, case):
        # requested strings are not shrunk: the generated ones are short and a date-shaped witness says
        # more than a one-character one; the case list is ordered so that the first witness is simple
        if "steps" in case:
            steps = case["steps"]
            if len(steps) > 2:
                for i in range(len(steps)):
                    rest = steps[:i] + steps[i + 1:]
                    yield dict(case, steps=[dict(rest[0], carry=None)] + rest[1:])
            return
        r = case["req"]
        if r["k"] == "json" and canon(r["v"]) != "0":
            yield {"req": {"k": "json", "v": 0}}


class Handshake(Suite):
    """Real send_initialize against the real handler over an in-memory pipe, for every client list of
    C03 x every preferred version; compared with `handshake` on the regenerated server constants."""

    name = "handshake"

    def cases(self, ctx, budget):
        from .c03 import PREFS, all_lists

        lists = list(all_lists(3)) + [None]
        ctx.exhaustive_parts.append(
            "handshake: every client list of length<=3 (with repetition) over the 6-version universe, and no list, x 9 preferred versions")
        out = [{"sup": sup, "pref": pref} for sup in lists for pref in PREFS]  # shortest lists, absent preference first
        # the same over rendezvous / one-slot pipes (backpressure in both directions), and with constants of the source as versions
        strs, _ = V.harvest_constants()
        magic = [[s_] for s_ in strs if "ersion" in s_ or s_[:2] == "20"] + [["unknown"], ["None"], ["%s"], ["{}"], [" "], ["0"]]
        for buf in (0, 1):
            out += [{"sup": sup, "pref": pref, "buf": buf} for sup in lists if sup is None or len(sup) <= 2 for pref in (None, "2024-11-05", "")]
        out += [{"sup": sup + tail, "pref": pref, "buf": (None, 0)[i % 2]} for i, sup in enumerate(magic)
                for tail in ([], ["2025-03-26"]) for pref in (None, sup[0])]
        # the caller's list as every sequence type the library accepts (tuple, deque, UserList, a Sequence subclass)
        for kind in V.SEQUENCE_KINDS[1:]:
            out += [{"sup": sup, "pref": pref, "sup_kind": kind} for sup in lists if sup is not None and len(sup) <= 2 for pref in (None, sup[-1], V.OUTSIDE)]
        # several clients on ONE handler whose server loop handles every pending initialize before it serialises any answer
        clients = [{"sup": [v], "pref": None} for v in V.REAL] + [{"sup": ["2024-11-05"], "pref": None, "sup_kind": "tuple"},
                                                                    {"sup": ["2024-10-07", "2025-03-26"], "pref": None, "sup_kind": "deque"}] + [
            {"sup": None, "pref": None}, {"sup": None, "pref": "2024-11-05"}, {"sup": ["2026-01-01"], "pref": None},
            {"sup": ["2026-01-01", "2024-11-05"], "pref": None}, {"sup": ["1999-12-31", "2025-03-26"], "pref": "2025-03-26"}]
        for a in clients:
            for b in clients:
                out.append({"clients": [a, b]})
        rng = ctx.sub_rng("c04-multi", budget)
        for _ in range(60 if budget == "quick" else 600):
            out.append({"clients": [rng.choice(clients) for _ in range(3)]})
        out = [dict(c) for c in out]
        out = V.assign_debug(out, lambda c: ("multi", len(c["clients"])) if "clients" in c else ("one", c.get("buf"), c["sup"] is None, c["pref"] is None, c.get("sup_kind")), ctx=ctx, name=self.name)
        # the same with BOTH sides started without Pydantic (MCP_FORCE_FALLBACK=1) in a worker process
        fb = [dict(c, backend="fallback") for c in out if "clients" in c or c["sup"] is None or len(c["sup"]) <= (1 if budget == "quick" else 2)]
        ctx.notes.append(f"{self.name}: {len(fb)} of the cases also run in a worker process with MCP_FORCE_FALLBACK=1")
        return out + fb

    def impl_batch(self, cases):
        obs = V.run_split("run_handshake", cases)
        self._last = {id(c): o for c, o in zip(cases, obs)}
        return obs

    def model_line(self, case):
        if "clients" in case:
            obs = (getattr(self, "_last", {}).get(id(case)) or {}).get("clients") or []
            return {"m": "version", "op": "handshakes", "clients": [
                {"sup": cl["sup"], "pref": cl["pref"],
                 "choice": obs[i].get("answered") if i < len(obs) and isinstance(obs[i].get("answered"), str) else None}
                for i, cl in enumerate(case["clients"])]}
        a = (getattr(self, "_last", {}).get(id(case)) or {}).get("answered")
        return {"m": "version", "op": "handshake", "sup": case["sup"], "pref": case["pref"],
                "choice": a if isinstance(a, str) else None}  # the server's free choice, see Server.choice

    def compare(self, case, o, m):
        if "clients" in case:
            for cl, co, cm in zip(case["clients"], o["clients"], m["clients"]):
                d = self.compare(cl, co, cm)
                if d:
                    return d
            return None
        if o.get("outcome") != m.get("outcome"):
            return "outcome differs"
        if o["outcome"] == "ok" and o.get("v") != m.get("v"):
            return "agreed version differs"
        if canon(o.get("trace")) != canon(m.get("trace")):
            return "transcript differs"
        if canon(o.get("session")) != canon(m.get("session")) or o.get("sessions") != 1:
            return "session differs"
        return None

    def oracle(self, case, o):
        if "clients" in case:
            for i, (cl, co) in enumerate(zip(case["clients"], o["clients"])):
                v = self.oracle(cl, co)
                if v is None:
                    # the server part of the property, seen from the wire: a proposal the server supports is acknowledged as such
                    ssup_ = V.server_supported()
                    csup_ = cl["sup"] if cl["sup"] is not None else ssup_
                    prop = cl["pref"] if (cl["pref"] and cl["pref"] in csup_) else csup_[0]
                    if prop in ssup_ and "answered" in co and co.get("answered") != prop:
                        v = ("handshake-supported-version-not-acknowledged", f"client offering {csup_} proposed {prop!r}, which the server "
                             f"supports, but the answer on the wire says {canon(co.get('answered'))} (client outcome: {co.get('outcome')})",
                             {"answered": prop})
                if v is not None:
                    others = [canon(c_) for j, c_ in enumerate(case["clients"]) if j != i]
                    return (v[0] + "-with-other-clients", f"client {i + 1} of {len(case['clients'])} on one handler whose loop handles every pending "
                            f"initialize before serialising any answer (other clients: {', '.join(others)}): " + v[1], v[2])
            return None
        ssup = V.server_supported()
        csup = case["sup"] if case["sup"] is not None else ssup
        if o.get("outcome") == "ok":
            v = o.get("v")
            if not (isinstance(v, str) and v in ssup):
                return ("handshake-agreed-on-unsupported-version",
                        f"client offering {csup} (preferred {case['pref']!r}) and the library server agreed on {canon(v)}, which the "
                        f"server does not support ({ssup})", {"outcome": "mismatch, or ok with a version of both lists"})
            if v not in csup:
                return ("handshake-agreed-on-unoffered-version", f"client offering {csup} ended agreed on {v!r}",
                        {"outcome": "mismatch"})
            if o.get("sessions") and canon(o.get("session")) != canon(v):
                return ("session-version-differs", f"handshake agreed on {v!r} but the server's session records {canon(o.get('session'))}",
                        {"session": v})
            return None
        if o.get("outcome") != "mismatch":
            return ("handshake-third-outcome", f"client offering {csup} (preferred {case['pref']!r}) against the library server ended in "
                    f"{o.get('outcome')} {o.get('exc', '')} {o.get('server')}", {"outcome": "ok or mismatch"})
        return None

    def kind(self, case, o):
        if "clients" in case:
            return "handshake/%d-clients-one-handler/%s%s" % (len(case["clients"]), "+".join(sorted(str(c_.get("outcome")) for c_ in o["clients"])),
                                                             "/" + case["backend"] if case.get("backend") else "")
        ssup = set(V.server_supported())
        csup = case["sup"] if case["sup"] is not None else list(ssup)
        common = "common" if ssup & set(csup) else "disjoint"
        return f"handshake/{common}/{o.get('outcome')}" + ("/" + case["backend"] if case.get("backend") else "") \
            + ("/list-as-" + case["sup_kind"] if case.get("sup_kind") else "")

    def shrink_candidates(self, case):
        sup = case["sup"]
        if sup is not None and len(sup) > 1:
            for i in range(len(sup)):
                yield dict(case, sup=sup[:i] + sup[i + 1:])
        if case["pref"] is not None:
            yield dict(case, pref=None)


class Informational(Suite):
    """A supplementary correspondence (obligations not implied by the property text): the runner records a difference between the
    real function and the model as an evidence note and an INFO line, never as a broken obligation of the property."""

    supplementary = True

    def cases(self, ctx, budget):
        self._ctx = ctx
        return self.gen(ctx, budget)

    def differs(self, case, o, m):  # -> None | str
        return None if canon(o) == canon(m) else "observations differ"

    def compare(self, case, o, m):
        return self.differs(case, o, m)


class VersionLibrary(Informational):
    """The pure utilities of protocol/types/versioning.py (negotiate_version, validate_version_compatibility, compare / is_newer /
    is_older, validate_format, parse_version, is_supported, get_*_supported, get_version_info, format_version_list): the real
    functions against their REGENERATED Lean counterparts (Gen/VersionLib.lean) on a grid of versions (well-formed, malformed,
    Unicode digits of several scripts, whitespace twins, empty) and of lists (empty, duplicates, disjoint, common at every position)."""

    name = "version-library"

    def gen(self, ctx, budget):
        rng = ctx.sub_rng("c04-versionlib", budget)
        quick = budget == "quick"
        strs, _ = V.harvest_constants()
        pool = V.version_pool(MALFORMED_STRINGS[:20] + [s_ for s_ in strs if "20" in s_ or "ersion" in s_][:15] + V.HOSTILE_TEXT[:18])
        out = [{"op": "consts"}]
        try:  # which functions the translator could regenerate from the current source (the others use the reference definition)
            import re as _re
            from ..core import LEAN
            m_ = _re.search(r"def notRegenerated : List String := \[(.*)\]", (LEAN / "Verif" / "Gen" / "VersionLib.lean").read_text())
            if m_ and m_.group(1).strip():
                ctx.notes.append("version-library: source outside the translator's subset, reference definition used for: " + m_.group(1))
        except Exception:
            pass
        # single versions: the pool, every calendar date of 2024..2026 (thorough: 1995..2034), seeded dddd-dd-dd in several scripts
        ones = list(pool)
        for d in all_dates(2024 if quick else 1995, 2026 if quick else 2034):
            ones.append(d.isoformat())
        zeros = [0x30, 0x660, 0xFF10, 0x966, 0x1D7CE]
        for _ in range(300 if quick else 5000):
            z = [rng.choice(zeros) for _ in range(8)] if rng.random() < 0.3 else [rng.choice(zeros)] * 8
            ds = [rng.randrange(10) for _ in range(8)]
            cs = [chr(zz + dd) for zz, dd in zip(z, ds)]
            ones.append("".join(cs[:4]) + "-" + "".join(cs[4:6]) + "-" + "".join(cs[6:]) + rng.choice(["", "", "", "\n", " ", "\n\n"]))
        out += [{"op": "one", "v": v} for v in dict.fromkeys(ones)]
        # pairs: everything in the pool against a core, the core against itself both ways
        core = V.REAL + ["2025-06-17", "2025-06-19", "1999-12-31", "2026-01-01", "2025-06-18\n", "٢٠٢٥-٠٦-١٨", "２０２４-１１-０５", "2025-6-18", "", "draft"]
        pairs = [(a, b) for a in pool for b in core] + [(b, a) for a in pool for b in core]
        import re
        wf = [v for v in pool + ones[len(pool)::97] if re.match(r"^\d{4}-\d{2}-\d{2}$", v)]  # well-formed by the documented pattern
        pairs += [(a, b) for a in wf for b in wf]
        if not quick:
            pairs += [(a, b) for a in pool for b in pool]
        out += [{"op": "pair", "a": a, "b": b} for a, b in dict.fromkeys(pairs)]
        # negotiation: every pair of lists of length<=2 (quick) / <=3 (thorough) over a small universe with duplicates, plus seeded longer ones
        uni = ["2025-06-18", "2025-03-26", "2024-11-05", "1999-12-31", "2025-06-18\n", ""]
        import itertools
        n = 2 if quick else 3
        lists = [list(t) for k in range(n + 1) for t in itertools.product(uni[:5] if quick else uni, repeat=k)]
        if quick:
            lists = [l for l in lists if len(l) < 2 or True]
        for c in lists:
            for s_ in lists:
                out.append({"op": "negotiate", "c": c, "s": s_})
        for _ in range(500 if quick else 20000):
            out.append({"op": "negotiate", "c": [rng.choice(pool) for _ in range(rng.randrange(0, 6))],
                        "s": [rng.choice(pool) for _ in range(rng.randrange(0, 6))]})
        for k in range(0, 5):
            for _ in range(6 if quick else 60):
                out.append({"op": "format", "vs": [rng.choice(pool) for _ in range(k)]})
        ctx.exhaustive_parts.append(
            "version-library: every pair of client/server lists of length<=%d over %d versions (duplicates and empty lists included); "
            "every calendar date of %s; a pool of %d well-formed / malformed / Unicode-digit / whitespace versions against a core of %d, "
            "both ways" % (n, len(uni[:5] if quick else uni), "2024..2026" if quick else "1995..2034", len(pool), len(core)))
        return V.assign_debug(out, lambda c: c["op"], ctx=ctx, name=self.name)

    def impl_batch(self, cases):
        return V.run_versionlib(cases)

    def model_line(self, case):
        return dict({k: v for k, v in case.items() if k != "debug"}, m="versionlib")

    def differs(self, case, o, m):
        op = case["op"]
        if op == "consts":
            for k in ("latest", "minimum", "all"):
                if canon(o[k]) != canon(m[k]):
                    return k
            if o["module_current"] != m["latest"] or o["module_minimum"] != m["minimum"] or o["module_list"] != m["all"]:
                return "module constants"
            if not o["copy_is_independent"]:
                return "get_all_supported hands out the module's own list"
            return None
        if op == "one":
            for k in ("valid", "supported", "parse", "info"):
                if canon(o[k]) != canon(m[k]):
                    return k
            return None
        if op == "negotiate" and o.get("mutated"):
            return "argument list modified"
        keys = {"pair": ("compatible", "compare", "newer", "older"), "negotiate": ("r",), "format": ("r",)}[op]
        for k in keys:
            if canon(o[k]) != canon(m[k]):
                return k
        return None

    def kind(self, case, o):
        op = case["op"]
        if op == "one":
            return "versionlib/one/" + ("valid" if o["valid"] is True else "invalid") + ("/supported" if o["supported"] is True else "")
        if op == "pair":
            return "versionlib/compare/" + str(o["compare"])
        if op == "negotiate":
            return "versionlib/negotiate/" + ("raises" if o["r"] == V.RAISES else "agreed") + ("/empty-list" if not case["c"] or not case["s"] else "")
        return "versionlib/" + op


def suites():
    return [Server(), Handshake(), VersionLibrary()]
