"""Generators and shared case plumbing for the stdio reader checks (C05, C13 transport part).

A *stream case* is
    {"items": [{"text": <line text, no raw LF>, "term": "\n" | "\r\n"}, ...],
     "cuts":  [byte positions 0 < p < len(stream), strictly increasing],
     "tail":  <optional junk fragment after the last terminator>}
"""
from __future__ import annotations

import json

# payload fragments by character class (the property's quantifier)
ASCII = ["a", "x y", "Az09", "~", " "]
TWO = ["\u00e9", "e\u0301", "\u00df", "\u0085", "\u00a0", "\u07ff", "\u00c5", "A\u030a", "\u212b"]  # incl. NFC / NFD / compatibility twins
THREE = ["\u20ac", "\u4e2d", "\u2028", "\u2029", "\ufeff", "\u0800", "\uffff", "\ud7ff", "\ue000"]
FOUR = ["\U0001f600", "\U0010ffff", "\U00010000", "\U0001d11e"]
ESCAPED = ["\n", "\r", "\r\n", "\t", '"', "\\", "\\n", "\x0b", "\x0c", "\x1c", "\x00", "\x7f"]
# strings and integers harvested from the anchored modules (stdio_client.py, batching.py, versioning.py,
# json_rpc_message.py): fed into every open string / integer position
MAGIC = [
    "cancel scope", "json object must be str", "response", "Unknown error", "jsonrpc", "2.0", "1.0", "method", "id", "error",
    "result", "params", "message", "code", "data", "protocol_version", "batching_enabled", "batching_supported",
    "upgrade_required", "supports_batch_function", "2025-06-18", "2025-03-26", "2024-11-05", "notifications/initialized",
    "notifications/cancelled", "notifications/progress", "initialize", "ping", "LOG_LEVEL", "LOGGING_LEVEL", "ERROR",
    "CRITICAL", "()", "utf-8", "Invalid Request", "SKIP_JSONRPC_VALIDATION", "true", "_meta", "progressToken", "None", "null",
]
MAGIC_INTS = [0, 1, -1, 7, 99, 100, 101, 120, 200, 1024, 65536, -32600, -32603, -32700, -32601, 2025, 20250618]
# text that breaks naive logging / formatting / embedding
HOSTILE = ["%", "%s %d", "%(x)s", "%.120s", "{}", "{0}", "{x!r}", "{", "}", "'", "\\", "\"", "%%", "\u0000", "$HOME", "`x`"]
# text that looks like the syntax being produced / parsed: JSON tokens and delimiters, JSON inside JSON, line framing
SYNTAX = ["[NaN]", ":Infinity,", "values=[1.0, NaN]", "NaN", "-Infinity", '{"jsonrpc":"2.0","id":1,"result":{}}', "[]", "{}", "[{}]",
          "\\n", "\\u000a", '",', '"}', '":', "null", "true", "-0", "1e5", "// c", "/* c */", '\n{"jsonrpc":"2.0","method":"x"}\n',
          "\r\n\r\n", "Content-Length: 5", "data: {}", "event: message", ",", ":", "[", "]", "\\", '\\"', "\\u2028", "'", "\t"]
CLASSES = [ASCII, TWO, THREE, FOUR, ESCAPED, MAGIC, HOSTILE, SYNTAX]

JUNK = [
    "", " ", "\t", "   \t ", "not json", "{", "}", "}{", '{"a":}', "5", '"str"', "null", "true",
    '{"jsonrpc":"2.0","id":1}', '{"jsonrpc":"2.0","id":1.5,"method":"m"}', '{"jsonrpc":"2.0","id":[1],"result":{}}',
    '{"jsonrpc":"2.0","id":2,"result":{},"error":{"code":1,"message":"m"}}',
    "\u00e9\u20ac\U0001f600", "\u2028", "\u2029", "\u0085", "\x0b\x0c", "\x1c\x1d\x1e\x1f", "junk\u0085more", "junk\u2028more",
    "0", '""', "false", "{}", "[]", "[{}]", "[0]", "%s", "%s %d %(x)s", "{0}", "{}{}", "x" * 119, "x" * 120, "x" * 121,
    "y" * 199, "y" * 200, "y" * 201, "\x00", "\x00{}", '\ufeff{"jsonrpc":"2.0","method":"bom"}', "\r", "\r\r", " \r", "None", "NaN",
    "Infinity", "-0", "1e999", "'single'", '{"jsonrpc":"2.0","method":"m",}', '{"jsonrpc":"2.0","method":"m"}{"jsonrpc":"2.0","method":"n"}',
    "NaN", "[NaN]", '{"a":NaN}', '{"jsonrpc":"2.0","id":NaN,"method":"m"}', '{"jsonrpc":"2.0","method":"m","params":{"v":Infinity}}',
    "-Infinity", '{"jsonrpc":"2.0","method":"m"} // c', "data: {}", ": keep-alive", "event: message", "id: 1", "retry: 5",
    # declared structure vs content: null next to its alternative, duplicated members, unusual order, BOM
    '{"jsonrpc":"2.0","id":1,"result":{"a":1},"error":null}', '{"jsonrpc":"2.0","id":1,"error":{"code":1,"message":"m"},"result":null}',
    '{"jsonrpc":"2.0","id":1,"result":null}', '{"jsonrpc":"2.0","id":1,"error":null}', '{"jsonrpc":"2.0","id":null,"method":"m","params":null}',
    '{"jsonrpc":"2.0","id":1,"id":2,"result":{}}', '{"jsonrpc":"2.0","method":"a","method":"b"}', '{"result":{},"id":1,"jsonrpc":"2.0","jsonrpc":"2.0"}',
    '{"id":1,"result":{"k":1,"k":2},"jsonrpc":"2.0"}', '\ufeff{"jsonrpc":"2.0","id":1,"result":{}}', '{"jsonrpc":"2.0","id":1,"result":{}}\ufeff',
    '{"jsonrpc":"2.0","method":"e\u0301"}', '{"jsonrpc":"2.0","method":"\u00e9"}', '{"JSONRPC":"2.0","ID":1,"RESULT":{}}', '{"Jsonrpc":"2.0","Method":"m"}',
    "junk\rmore", "\rjunk", '{"jsonrpc":"2.0","method":"half', 'half","id":3}', "\ufeff", "NaN{", "<html>", "Content-Length: 12",
]


def rand_string(rng, maxparts=4):
    n = rng.randrange(0, maxparts + 1)
    return "".join(rng.choice(rng.choice(CLASSES)) for _ in range(n))


def rand_message(rng):
    """a JSON-RPC object the library's parser accepts, with strings from every character class"""
    kind = rng.choice(["req", "notif", "resp", "err", "resp-scalar", "falsy", "twin"])
    idv = rng.choice([rng.randrange(0, 1000), rand_string(rng, 2) or "id", 0, -1, "7", 7, "", "0", rng.choice(MAGIC_INTS),
                      rng.choice(MAGIC), 2**63, "7.0"])
    if kind == "falsy":  # falsy values at every caller-/peer-supplied position
        d = rng.choice([
            {"jsonrpc": "2.0", "id": 0, "result": {}}, {"jsonrpc": "2.0", "id": "", "result": {}},
            {"jsonrpc": "2.0", "id": 0, "result": []}, {"jsonrpc": "2.0", "id": 0, "result": 0},
            {"jsonrpc": "2.0", "id": "", "result": False}, {"jsonrpc": "2.0", "id": 0, "result": ""},
            {"jsonrpc": "2.0", "id": 0, "method": "", "params": {}}, {"jsonrpc": "2.0", "method": "", "params": {}},
            {"jsonrpc": "2.0", "id": "", "error": {"code": 0, "message": ""}},
            {"jsonrpc": "2.0", "id": 0, "error": {"code": 0, "message": "", "data": rng.choice([0, "", False, [], {}, None])}},
            {"jsonrpc": "2.0", "id": 0, "method": "m", "params": {"": "", "z": 0, "f": False, "l": [], "o": {}}},
            {}, {"jsonrpc": "2.0"}, {"id": 0}, {"method": ""},
        ])
        return d
    if kind == "twin":  # values Python equates or coerces, as ids and payloads
        t = rng.choice([7, "7", 7.0, True, 0, False, "0", "", 1, "1", 1.0, "true", "True", None])
        d = rng.choice([
            {"jsonrpc": "2.0", "id": t, "result": {"v": t}}, {"jsonrpc": "2.0", "id": t, "method": "m", "params": {"t": t}},
            {"jsonrpc": "2.0", "id": 7, "result": {"twin": [7, "7", 7.0, True, 1, "1", 0, False, "", None]}},
        ])
        return d
    if kind == "req":
        d = {"jsonrpc": "2.0", "id": idv, "method": "m/" + rand_string(rng, 2)}
        if rng.random() < 0.7:
            d["params"] = {rand_string(rng, 2) or "k": rand_string(rng), "n": None, "l": [rand_string(rng, 2), 1, None],
                           rng.choice(SYNTAX): rng.choice(SYNTAX)}
    elif kind == "notif":
        d = {"jsonrpc": "2.0", "method": "notifications/" + rand_string(rng, 2)}
        if rng.random() < 0.7:
            d["params"] = {"v": rand_string(rng), "nested": {"x": [rand_string(rng, 1)]}}
    elif kind == "resp":
        d = {"jsonrpc": "2.0", "id": idv, "result": {"text": rand_string(rng), "k": {"z": None}}}
    elif kind == "resp-scalar":
        d = {"jsonrpc": "2.0", "id": idv, "result": rng.choice([rand_string(rng) or "s", 5, True, [1, "x"]])}
    else:
        d = {"jsonrpc": "2.0", "id": idv, "error": {"code": rng.choice([-32000, -32601, 7]), "message": rand_string(rng) or "e"}}
        if rng.random() < 0.4:
            d["error"]["data"] = {"d": rand_string(rng)}
    r = rng.random()
    if r < 0.15:  # members the envelope does not know
        d[rng.choice(["extra", "_meta", "x-" + rand_string(rng, 1), "protocol_version", "result_"])] = rng.choice(
            [None, 0, "", {"k": rand_string(rng, 2)}, [1]])
    elif r < 0.3:  # members in an unusual order
        ks = list(d)
        rng.shuffle(ks)
        d = {k: d[k] for k in ks}
    return d


def encode_message(rng, d):
    """any of the serialisers a child may use; always a single line"""
    style = rng.choice(["compact-utf8", "compact-utf8", "ascii-spaced", "utf8-spaced", "padded"])
    if style == "compact-utf8":
        return json.dumps(d, ensure_ascii=False, separators=(",", ":"))
    if style == "ascii-spaced":
        return json.dumps(d)
    if style == "utf8-spaced":
        return json.dumps(d, ensure_ascii=False)
    return rng.choice([" ", "\t", "  "]) + json.dumps(d, ensure_ascii=False, separators=(",", ":")) + rng.choice([" ", "", "\t "])


def rand_items(rng, nmin=1, nmax=6, junk_p=0.3):
    items = []
    for _ in range(rng.randrange(nmin, nmax + 1)):
        if rng.random() < junk_p:
            text = rng.choice(JUNK)
        else:
            text = encode_message(rng, rand_message(rng))
        assert "\n" not in text
        items.append({"text": text, "term": rng.choice(["\n", "\n", "\r\n"])})
        if rng.random() < 0.12:  # the same line again (duplicated message)
            items.append(dict(items[-1]))
    return items


def stream_bytes(case) -> bytes:
    s = "".join(it["text"] + it["term"] for it in case["items"]) + case.get("tail", "")
    return s.encode("utf-8")


def chunks_of(case):
    b = stream_bytes(case)
    pos = [0] + list(case.get("cuts", [])) + [len(b)]
    return [b[pos[i]:pos[i + 1]] for i in range(len(pos) - 1) if pos[i + 1] > pos[i] or len(b) == 0]


def cut_classes(case):
    """which delicate places the cuts hit: inside a multi-byte character / between CR and LF"""
    b = stream_bytes(case)
    inside_char = any(0x80 <= b[p] < 0xC0 for p in case.get("cuts", []) if 0 < p < len(b))
    inside_crlf = any(b[p - 1] == 13 and b[p] == 10 for p in case.get("cuts", []) if 0 < p < len(b))
    return inside_char, inside_crlf


def line_table(texts):
    """Verdicts of the library's real parser on the stripped texts, in the reader driver's format.
    Returns (table, msgs): msgs[i] = (canonical dump, is_notification) of message id i."""
    from . import stdio_h

    table, msgs, index = [], [], {}

    def mid(dump, notif):
        key = json.dumps([dump, notif], sort_keys=True)
        if key not in index:
            index[key] = len(msgs)
            msgs.append((dump, notif))
        return index[key]

    def entry(t):
        e = {"id": mid(t[0], t[1]), "notif": t[1]}
        if len(t) > 2 and t[2] is not None:
            e["key"] = t[2]
        return e

    seen = set()
    for t in texts:
        key = t.strip()
        if key == "" or key in seen:
            continue
        seen.add(key)
        v = stdio_h.parse_line(key)
        if v[0] == "single":
            table.append(dict(entry(v[1:]), line=key, k="single"))
        elif v[0] == "batch":
            table.append({"line": key, "k": "batch", "items": [
                None if it is None else entry(it) for it in v[1]]})
    return table, msgs


def shrink_stream(case):
    """smaller variants: drop an item, drop a cut, drop the tail, simplify an item's text"""
    items, cuts = case["items"], list(case.get("cuts", []))
    lens = [len((it["text"] + it["term"]).encode("utf-8")) for it in items]
    starts = [sum(lens[:i]) for i in range(len(items))]
    if case.get("tail"):
        c = dict(case)
        c.pop("tail")
        yield c
    for i in range(len(items)):
        s, e = starts[i], starts[i] + lens[i]
        total = sum(lens) - lens[i]
        ncuts = sorted({p if p <= s else p - lens[i] for p in cuts if not (s < p < e)})
        ncuts = [p for p in ncuts if 0 < p < total]
        c = dict(case, items=items[:i] + items[i + 1:], cuts=ncuts)
        yield c
    for j in range(len(cuts)):
        yield dict(case, cuts=cuts[:j] + cuts[j + 1:])
    simple = ['{"jsonrpc":"2.0","id":1,"result":{}}', '{"jsonrpc":"2.0","method":"\u00e9"}', '{"jsonrpc":"2.0","method":"\u20ac"}',
              '{"jsonrpc":"2.0","method":"\U0001f600"}', "x"]
    for i in range(len(items)):
        for t in simple:
            if len(t.encode()) < lens[i] - len(items[i]["term"]):
                new = len((t + items[i]["term"]).encode("utf-8"))
                s, e = starts[i], starts[i] + lens[i]
                inside = [p for p in cuts if s < p < e]
                offsets = range(1, new) if len(inside) == 1 else [None]
                for off in offsets:
                    ncuts = []
                    for p in cuts:
                        if p <= s:
                            ncuts.append(p)
                        elif p < e:
                            ncuts.append(s + (off if off is not None else min(p - s, new - 1)))
                        else:
                            ncuts.append(p - lens[i] + new)
                    total = sum(lens) - lens[i] + new
                    ncuts = sorted({p for p in ncuts if 0 < p < total})
                    yield dict(case, items=items[:i] + [dict(items[i], text=t)] + items[i + 1:], cuts=ncuts)
    for i in range(len(items)):
        if items[i]["term"] == "\r\n":
            s = starts[i] + lens[i]
            ncuts = sorted({p if p < s else p - 1 for p in cuts})
            total = sum(lens) - 1
            ncuts = [p for p in ncuts if 0 < p < total]
            yield dict(case, items=items[:i] + [dict(items[i], term="\n")] + items[i + 1:], cuts=ncuts)


TYPE_VALUES = [None, True, False, 0, 7, -1, 1.5, 7.0, "", "7", "m", [], [1], {}, {"a": 1}]


def type_matrix_lines():
    """every JSON type (and `missing`) at every peer-supplied position of a message: id, method, params, result,
    error, error.code, error.message, error.data, jsonrpc.  Which of them is a well-formed message is the library's
    parser's decision (the oracle asks it)."""
    base = {
        "id": {"jsonrpc": "2.0", "id": 1, "method": "m", "params": {}},
        "method": {"jsonrpc": "2.0", "id": 1, "method": "m"},
        "params": {"jsonrpc": "2.0", "id": 1, "method": "m", "params": {}},
        "result": {"jsonrpc": "2.0", "id": 1, "result": {}},
        "error": {"jsonrpc": "2.0", "id": 1, "error": {"code": 1, "message": "m"}},
        "jsonrpc": {"jsonrpc": "2.0", "method": "m"},
    }
    out = []
    for pos, d in base.items():
        for v in TYPE_VALUES:
            out.append(json.dumps(dict(d, **{pos: v})))
        out.append(json.dumps({k: x for k, x in d.items() if k != pos}))  # missing
    for f in ("code", "message", "data"):
        for v in TYPE_VALUES:
            out.append(json.dumps({"jsonrpc": "2.0", "id": 1, "error": dict({"code": 1, "message": "m"}, **{f: v})}))
        out.append(json.dumps({"jsonrpc": "2.0", "id": 1, "error": {k: x for k, x in {"code": 1, "message": "m"}.items() if k != f}}))
    for v in TYPE_VALUES:  # response ids of every type (per-request routing keys them by str(id))
        out.append(json.dumps({"jsonrpc": "2.0", "id": v, "result": {"r": 1}}))
    return out


def notif_ok(got, offered, floor=100):
    """The notification stream is a bounded buffer nobody has to read: what it holds must be a prefix of
    the id-less messages offered, and at least the first `floor` of them (the documented capacity) - a
    larger buffer is not a violation."""
    from . import core

    if got is None:
        return True
    if len(got) > len(offered) or len(got) < min(floor, len(offered)):
        return False
    return core.canon(got) == core.canon(offered[:len(got)])
