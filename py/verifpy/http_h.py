"""Harness for C11: run a sequence of POSTs through the real `http_client()` with
`httpx.AsyncClient` replaced by a subclass that injects `httpx.MockTransport(handler)`; the
handler answers each POST with the scripted behaviour.  Observed: the read-stream transcript
(kind, id with JSON type, payload of every delivered message) and the `Mcp-Session-Id` header
of every POST.  A final "fence" request (answered 200/JSON) marks the end of the serial sender
loop's work; waiting for it costs no wall-clock (virtual-time loop) when the loop is dead.

Also: the thorough-tier run against a real local socket server (raw HTTP/1.1 bytes)."""
from __future__ import annotations

import asyncio
import copy
import sys

from . import http_gen as G
from . import vloop

FENCE_ID = "verif-fence"
URL = "http://verif.test/mcp"


def _transport_module():
    import chuk_mcp.transports.http.transport  # noqa: F401
    return sys.modules["chuk_mcp.transports.http.transport"]


def canon_delivered(m):
    """canonical (kind, id, payload) of a message object taken from the read stream"""
    if isinstance(m, dict):
        return G.classify(m)
    if isinstance(m, list):
        return {"kind": "list", "id": None, "payload": [canon_delivered(x) for x in m]}
    d = {k: getattr(m, k, None) for k in ("id", "method", "params", "result", "error")}
    return G.classify(d)


def build_response(b):
    import httpx
    raw = G.body_bytes(b["body"])
    headers = []
    ct = G.ct_header(b)
    if ct is not None:
        headers.append(("content-type", ct))
    if b.get("sess") is not None:
        headers.append((b.get("hname") or "mcp-session-id", b["sess"]))
    return httpx.Response(b["status"], headers=headers, content=raw)


def raise_exc(kind, msg=None):
    import httpx
    if kind == "connect":
        raise httpx.ConnectError("All connection attempts failed" if msg is None else msg)
    if kind == "read_timeout":
        raise httpx.ReadTimeout("timed out" if msg is None else msg)
    if kind == "protocol":
        raise httpx.RemoteProtocolError("Server disconnected without sending a response." if msg is None else msg)
    if kind == "asyncio_timeout":
        raise asyncio.TimeoutError() if msg is None else asyncio.TimeoutError(msg)
    if kind == "connect_timeout":
        raise httpx.ConnectTimeout("timed out" if msg is None else msg)
    if kind == "badstr":
        raise BadStr()
    if kind.startswith("py:"):
        import builtins
        cls = getattr(builtins, kind[3:])
        if cls is OSError:
            raise OSError(5, "Input/output error" if msg is None else msg)
        if cls is UnicodeDecodeError:
            raise UnicodeDecodeError("utf-8", b"\xff", 0, 1, "invalid start byte")
        raise cls() if msg is None else cls(msg)
    raise ValueError(kind)


class BadStr(Exception):
    """an exception whose text cannot be produced"""

    def __str__(self):
        raise RuntimeError("str() of this exception fails")

    __repr__ = __str__


GARBAGE = ["not a message", 12345, ("tuple",), None]


def outgoing(req, k, fence=False):
    """the object a caller puts on the write stream; `params.k` tells the scripted server which
    request it is answering (so behaviours follow requests, whatever the order of the POSTs)"""
    from chuk_mcp.protocol.messages.json_rpc_message import JSONRPCMessage
    if fence:
        return JSONRPCMessage(jsonrpc="2.0", id=FENCE_ID, method="ping", params={"k": k})
    if req.get("garbage") is not None:
        return GARBAGE[req["garbage"] % len(GARBAGE)]
    rid = G.idval(req["id"])
    method = req["method"] if req.get("method") is not None else ("tools/list" if req["id"] is not None else "notifications/initialized")
    shape = req.get("shape")
    if shape in ("specific", "wrapper"):
        # the library's other message classes: the specific request / notification types and the compatibility wrapper
        from chuk_mcp.protocol.messages import json_rpc_message as J
        m = J.JSONRPCRequest(jsonrpc="2.0", id=rid, method=method, params={"k": k}) if req["id"] is not None \
            else J.JSONRPCNotification(jsonrpc="2.0", method=method, params={"k": k})
        return J.JSONRPCMessageWrapper(m) if shape == "wrapper" else m
    if shape == "odict":
        import collections

        class MsgDict(collections.OrderedDict):
            """a dict subclass"""

        d = MsgDict(jsonrpc="2.0", method=method, params={"k": k})
        if req["id"] is not None:
            d["id"] = rid
        return d
    if req.get("dict"):
        d = {"jsonrpc": "2.0", "method": method, "params": {"k": k}}
        if req["id"] is not None:
            d["id"] = rid
        return d
    if req["id"] is None:
        return JSONRPCMessage(jsonrpc="2.0", method=method, params={"k": k})
    return JSONRPCMessage(jsonrpc="2.0", id=rid, method=method, params={"cursor": "", "k": k})


def fence_behaviour():
    return G.response_b(200, "json", {"form": "json", "msgs": [{"jsonrpc": "2.0", "id": FENCE_ID, "result": {"fence": True}}]})


def send_order(case):
    """indices of the requests that are POSTed, in the order they enter the write stream"""
    idx = [k for k, r in enumerate(case["reqs"]) if r.get("garbage") is None]
    return sorted(idx, key=lambda k: (case["reqs"][k].get("delay", 0), k))


def make_params(case, url=None):
    from chuk_mcp.transports.http import StreamableHTTPParameters
    cfg = case.get("cfg") or {}
    kw = {}
    if cfg.get("headers") is not None:
        kw["headers"] = dict(cfg["headers"])
    if cfg.get("bearer") is not None:
        kw["bearer_token"] = cfg["bearer"]
    if cfg.get("mcr") is not None:
        kw["max_concurrent_requests"] = cfg["mcr"]
    # options the transport stores: they must not change what an answer is turned into
    for name in ("enable_streaming", "max_retries", "retry_delay", "user_agent"):
        if cfg.get(name) is not None:
            kw[name] = cfg[name]
    return StreamableHTTPParameters(url=url or URL, timeout=cfg.get("timeout", 5.0), session_id=case.get("session0"), **kw)


def connection_case(case, label):
    """the case as connection `label` sees it: the server issues every connection its own session ids"""
    if not label:
        return case
    c = copy.deepcopy(case)
    for r in c["reqs"]:
        b = r.get("b")
        if b is not None and b.get("sess") is not None:
            b["sess"] = b["sess"] + "-" + label
    return c


def _params_snapshot(params):
    return {"headers": [[k, v] for k, v in (params.headers or {}).items()], "session_id": params.session_id}


async def _one_round(case, params, make_client_patch, start_delay=0, koff=0):
    import contextlib
    import json
    import anyio
    from chuk_mcp.transports.http import http_client

    @contextlib.asynccontextmanager
    async def connect():
        if case.get("direct"):
            # the transport used directly (alternate API: get_streams / wait_for_response / stats)
            T = _transport_module()
            async with T.StreamableHTTPTransport(params) as t:
                yield (await t.get_streams()), t
        else:
            async with http_client(params) as streams:
                yield streams, None

    loop = asyncio.get_running_loop()
    reqs = case["reqs"]
    posts = []
    seq = {"n": 0}

    async def vsleep(ticks):
        if ticks <= 0:
            return
        fut = loop.create_future()
        loop.at(loop.ticks + ticks, lambda: fut.done() or fut.set_result(None))
        await fut

    async def handler(request):
        import httpx
        seq["n"] += 1
        try:
            k = json.loads(request.content)["params"]["k"]
            if k >= 0:
                k -= koff
            elif k <= -1000:
                k = -1            # the fence of a connection that shares its server with others
        except Exception:
            k = None
        rec = {"k": k, "sess": request.headers.get("mcp-session-id"), "a": seq["n"], "d": None,
               "wire": [[a, b_] for a, b_ in request.headers.multi_items()]}
        posts.append(rec)
        if k == -1:
            b = fence_behaviour()
        elif isinstance(k, int) and 0 <= k < len(reqs):
            b = reqs[k]["b"]
        else:
            b = G.response_b(500, "other", {"form": "text", "text": "unscripted"})
        try:
            await vsleep(b.get("lat", 0))
            if "exc" in b:
                raise_exc(b["exc"], b.get("msg"))
            return build_response(b)
        finally:
            seq["n"] += 1
            rec["d"] = seq["n"]

    out = []
    fence = False
    leave = case.get("leave_at")
    waiters = []
    extra = {}
    keep = {}
    with make_client_patch(handler):
        if case.get("direct"):
            # alternate API, before start: get_streams() must refuse
            T = _transport_module()
            try:
                await T.StreamableHTTPTransport(params).get_streams()
                extra["unstarted"] = "returned"
            except RuntimeError:
                extra["unstarted"] = "RuntimeError"
        async with connect() as ((rd, wr), transport):
            keep["rd"] = rd
            if transport is not None:
                transport.set_protocol_version("2025-06-18")   # a no-op in this transport: headers must not change

            async def waiter(k):
                # legacy API: a caller waiting on the transport's future for the same id; whatever it gets
                # (a result, a timeout, a cancellation at exit) must not disturb the read stream
                try:
                    got = await transport.wait_for_response(
                        str(G.idval(reqs[k]["id"])), timeout=None if reqs[k]["wait"] < 0 else reqs[k]["wait"] / vloop.TICKS_PER_S)
                    if isinstance(got, dict):
                        out.append(canon_delivered(got))
                    waiters.append([k, "result"])
                except (asyncio.TimeoutError, TimeoutError):
                    waiters.append([k, "timeout"])
                except asyncio.CancelledError:
                    waiters.append([k, "cancelled"])

            async def send_one(k):
                await vsleep(reqs[k].get("delay", 0) + start_delay)
                if transport is not None and reqs[k].get("wait") and reqs[k].get("id") is not None:
                    asyncio.ensure_future(waiter(k))
                await wr.send(outgoing(reqs[k], k + koff))

            async def send_all():
                async with anyio.create_task_group() as tg:
                    for k in range(len(reqs)):
                        tg.start_soon(send_one, k)
                if leave is None and case.get("close_rd_after") is None:
                    await wr.send(outgoing(None, -1 if not koff else -1000 - koff, fence=True))
                    if case.get("close_wr"):
                        await wr.aclose()          # the caller is done sending: what is queued still has to go out

            async with anyio.create_task_group() as tg:
                tg.start_soon(send_all)
                await vsleep(case.get("read_delay", 0))
                patience = 600 + max([r.get("delay", 0) for r in reqs] + [0]) / vloop.TICKS_PER_S
                with anyio.move_on_after(patience if leave is None else leave / vloop.TICKS_PER_S):
                    async for m in rd:
                        c = copy.deepcopy(canon_delivered(m))
                        out.append(c)
                        # a consumer that annotates what it received in place (middleware adding _meta):
                        # nothing delivered later may alias it
                        for part in (getattr(m, "result", None), getattr(m, "error", None), getattr(m, "params", None)):
                            if isinstance(part, dict):
                                part["_meta"] = {"seen": len(out)}
                        if case.get("close_rd_after") is not None and len(out) >= case["close_rd_after"]:
                            await rd.aclose()      # the caller stops listening while POSTs are outstanding
                            await vsleep(4096)
                            break
                        if c["id"] == {"s": FENCE_ID} and c["kind"] in ("result", "error"):
                            # the server's own answer to the last request, or something the transport made up for it
                            fence = True if c["kind"] == "result" and c["payload"] == {"fence": True} else "synthesised"
                            break
                tg.cancel_scope.cancel()
            if transport is not None:
                stats = transport.get_connection_stats()
                extra["session_end"] = [transport.get_session_id(), stats.get("session_id")]
        # after the context: what was routed before the close is still readable, then end-of-stream
        eos = None
        if leave is not None:
            import anyio as _a
            while True:
                try:
                    out.append(canon_delivered(keep["rd"].receive_nowait()))
                except _a.EndOfStream:
                    eos = True
                    break
                except (_a.WouldBlock, _a.ClosedResourceError):
                    eos = False
                    break
            await asyncio.sleep(0)
    return {"eos": eos, "waiters": sorted(waiters), "extra": extra, "wire": [p["wire"] for p in posts],
            "transcript": out, "hdrs": [p["sess"] for p in posts], "order": [p["k"] for p in posts],
            "events": [[p["k"], p["a"], p["d"]] for p in posts], "posts": len(posts), "fence": fence}


def _debug_logging():
    """as a host application with logging configured at DEBUG (records go to a NullHandler);
    returns the function that restores the previous state"""
    import logging
    root = logging.getLogger()
    prev_disable, prev_level, prev_handlers = root.manager.disable, root.level, list(root.handlers)
    class Formatting(logging.Handler):
        """what a host's handler does: format the record (a NullHandler never does)"""

        def emit(self, record):
            try:
                self.format(record)
            except Exception:
                pass

    h = Formatting()
    h.setFormatter(logging.Formatter("%(asctime)s %(name)s %(levelname)s %(message)s"))
    root.handlers[:] = [h]
    root.setLevel(logging.DEBUG)
    logging.disable(logging.NOTSET)

    def restore():
        logging.disable(prev_disable)
        root.setLevel(prev_level)
        root.handlers[:] = prev_handlers
    return restore


async def _drive(case, make_client_patch):
    import contextlib
    import os
    import anyio
    cfg = case.get("cfg") or {}
    old = os.environ.get("MCP_BEARER_TOKEN")
    if cfg.get("env_bearer") is not None:
        os.environ["MCP_BEARER_TOKEN"] = cfg["env_bearer"]
    else:
        os.environ.pop("MCP_BEARER_TOKEN", None)
    restore = _debug_logging() if case.get("debug") else None
    try:
        n = case.get("instances", 1)
        if n <= 1:
            params = make_params(case)
            cfg_headers = [[k, v] for k, v in (params.headers or {}).items()]
            before = _params_snapshot(params)
            obs = await _one_round(case, params, make_client_patch)
            obs["cfg_headers"] = cfg_headers
            if case.get("reuse"):
                # the same parameters object used for a second connection (a reconnect); the server issues it other ids
                obs["round2"] = await _one_round(connection_case(case, "r2"), params, make_client_patch)
                obs["round2"]["label"] = "r2"
            obs["params_changed"] = _params_snapshot(params) != before
            return obs
        if case.get("share_params"):
            # several connections built from ONE parameters object, alive at the same time, one scripted server:
            # the connections are told apart by the request numbers they use
            params = make_params(case)
            before = _params_snapshot(params)
            handlers = {}

            async def dispatch1(request):
                import json as _json
                try:
                    k = _json.loads(request.content)["params"]["k"]
                    j = (k // 1000) if k >= 0 else (0 if k > -1000 else (-k - 1000) // 1000)
                except Exception:
                    j = 0
                return await handlers[j](request)

            def register_j(j):
                @contextlib.contextmanager
                def register(handler):
                    handlers[j] = handler
                    yield
                return register

            results = [None] * n

            async def one1(j):
                lab = f"c{j}" if j else ""
                results[j] = await _one_round(connection_case(case, lab), params, register_j(j), start_delay=2 * j, koff=1000 * j)
                results[j]["label"] = lab

            with make_client_patch(dispatch1):
                async with anyio.create_task_group() as tg:
                    for j in range(n):
                        tg.start_soon(one1, j)
            obs = results[0]
            obs["others"] = results[1:]
            obs["params_changed"] = _params_snapshot(params) != before
            return obs
        # several transports alive in one process, used concurrently with EQUAL ids: one scripted
        # server per instance (told apart by host name), one patch for all
        handlers = {}

        async def dispatch(request):
            return await handlers[request.url.host](request)

        def register_for(host):
            @contextlib.contextmanager
            def register(handler):
                handlers[host] = handler
                yield
            return register

        results = [None] * n

        async def one(j):
            host = f"verif{j}.test"
            results[j] = await _one_round(case, make_params(case, url=f"http://{host}/mcp"), register_for(host), start_delay=j)

        with make_client_patch(dispatch):
            async with anyio.create_task_group() as tg:
                for j in range(n):
                    tg.start_soon(one, j)
        obs = results[0]
        obs["others"] = results[1:]
        return obs
    finally:
        if restore is not None:
            restore()
        if old is None:
            os.environ.pop("MCP_BEARER_TOKEN", None)
        else:
            os.environ["MCP_BEARER_TOKEN"] = old


class _MockPatch:
    """httpx.AsyncClient -> subclass with MockTransport(handler), in the httpx module and in the
    transport module's namespace (whichever way the code refers to it)."""

    def __init__(self, handler):
        self.handler = handler

    def __enter__(self):
        import httpx
        T = _transport_module()
        handler = self.handler
        orig = httpx.AsyncClient

        class Client(orig):
            def __init__(self, *a, **k):
                k.pop("transport", None)
                k.pop("mounts", None)
                super().__init__(*a, transport=httpx.MockTransport(handler), **k)

        self._orig = orig
        self._saved = []
        httpx.AsyncClient = Client
        for name, val in list(vars(T).items()):
            if val is orig:
                self._saved.append(name)
                setattr(T, name, Client)
        return self

    def __exit__(self, *exc):
        import httpx
        T = _transport_module()
        httpx.AsyncClient = self._orig
        for name in self._saved:
            setattr(T, name, self._orig)
        return False


def run_case(case):
    import contextlib
    import io
    try:
        with contextlib.redirect_stderr(io.StringIO()):   # the transport prints tracebacks for some failures
            return vloop.run(_drive, case, _MockPatch, tie=case.get("tie", "events"))
    except BaseException as ex:  # the context manager itself failed
        if isinstance(ex, (KeyboardInterrupt, SystemExit)):
            raise
        return {"transcript": [], "hdrs": [], "posts": 0, "fence": False, "crash": type(ex).__name__}


def run_cases(cases):
    return [run_case(c) for c in cases]


# ----------------------------------------------------------------------------- model side

def completed_before_leave(case):
    """indices (in send order) of the requests whose POST completes before the caller leaves the
    context: the sender is serial, so POST j starts when POST j-1 is complete"""
    t, out = 0, []
    for k in send_order(case):
        r = case["reqs"][k]
        t = max(t, r.get("delay", 0)) + r["b"].get("lat", 0)
        if t >= case["leave_at"]:
            break
        out.append(k)
    return out


def model_line(case):
    if case.get("close_rd_after") is not None or case.get("twins"):
        return None
    if case.get("leave_at") is not None:
        reqs = [{"id": case["reqs"][k]["id"], "b": G.model_behaviour(case["reqs"][k]["b"])} for k in completed_before_leave(case)]
        return {"m": "http", "op": "run", "session0": case.get("session0"), "reqs": reqs}
    reqs = [{"id": case["reqs"][k]["id"], "b": G.model_behaviour(case["reqs"][k]["b"])} for k in send_order(case)]
    reqs.append({"id": {"s": FENCE_ID}, "b": G.model_behaviour(fence_behaviour())})
    return {"m": "http", "op": "run", "session0": case.get("session0"), "reqs": reqs}


def render_line(body):
    def ch(c):
        return {"sp": c["sp"], "before": list(c.get("before") or [])}
    evs = [{"name": e.get("name"), "data": e["data"], "nc": ch(e.get("nc") or G.DFLT), "dc": [ch(c) for c in e.get("dc") or []],
            "after": list(e.get("after") or [])}
           for e in body["events"]]
    return {"m": "http", "op": "render", "events": evs, "eols": list(body.get("eols") or []), "tail": body.get("tail", "full")}


def comparable_impl(obs):
    """what is compared with the model: every delivered message that has an id or a method
    (id-less terminal/junk messages are not observables the property names), and the headers"""
    tr = [m for m in obs["transcript"] if m["id"] is not None or m["kind"] in ("request", "notification")]
    return {"transcript": tr, "hdrs": obs["hdrs"], "fence": obs["fence"], "order": obs.get("order")}


def comparable_model(out):
    tr = []
    for o in out["outs"]:
        if "pass" in o:
            m = o["pass"]
            if m["id"] is None and m["kind"] not in ("request", "notification"):
                continue
            tr.append({"kind": m["kind"], "id": m["id"], "payload": m["payload"]})
        elif o["synth"] is not None:
            tr.append({"synth": o["synth"]})
    return {"transcript": tr, "hdrs": out["hdrs"], "fence": True}


def determined_headers(case):
    """positions k (POST index, the fence included) whose session header the property fixes:
    a session id was issued on an accepted response before POST k, and no error-status answer
    has offered another one since; with the value the property demands"""
    out = {}
    # a session id configured through the parameters (the documented reconnect option) plays the part of the last
    # issued one until the server issues another (an empty string configures nothing)
    last, clean = (case.get("session0") or None), True
    behaviours = [case["reqs"][k]["b"] for k in send_order(case)] + [None]
    for k, b in enumerate(behaviours):
        if last is not None and clean:
            out[k] = last
        if b is None or "exc" in b or b.get("sess") is None:
            continue
        if b["status"] < 400:
            last, clean = b["sess"], True
        else:
            clean = False
    return out


def _norm(v):
    """numbers compare by value: 0.0 (Python) and 0 (the model's JSON number) are the same payload"""
    if isinstance(v, float) and v.is_integer():
        return int(v)
    if isinstance(v, list):
        return [_norm(x) for x in v]
    if isinstance(v, dict):
        return {k: _norm(x) for k, x in v.items()}
    return v


def same(case, impl, model):
    """position-wise: a passed-through message must be equal; a synthesised one must be a
    terminal (result or error, whatever its payload) with the same typed id; session headers
    are compared where the property determines them"""
    from .core import canon
    if case.get("leave_at") is not None:
        # closed with requests outstanding: the completed prefix is delivered as always; the POST in flight was
        # sent (its headers are on record) but nothing is delivered for it
        done = completed_before_leave(case)
        n = len(done)
        if impl["fence"] or impl["order"][:n] != done or len(impl["hdrs"]) not in (n, n + 1):
            return False
        impl = dict(impl, hdrs=impl["hdrs"][:n], fence=True)
    elif impl.get("order") is not None and impl["order"] != send_order(case) + [-1]:
        return False  # POSTs leave in the order the messages entered the write stream
    if impl["fence"] != model["fence"] or len(impl["hdrs"]) != len(model["hdrs"]):
        return False
    for k in determined_headers(case):
        if k < len(impl["hdrs"]) and impl["hdrs"][k] != model["hdrs"][k]:
            return False
    a, b = impl["transcript"], model["transcript"]
    if len(a) != len(b):
        return False
    for x, y in zip(a, b):
        if "synth" in y:
            if not (x["kind"] in ("result", "error") and x["id"] == y["synth"]):
                return False
        elif canon(_norm(x)) != canon(_norm(y)):
            return False
    return True


# ----------------------------------------------------------------------------- real socket

def http_bytes(b):
    """raw HTTP/1.1 answer for a behaviour (real-socket run)"""
    raw = G.body_bytes(b["body"])
    reason = {200: "OK", 202: "Accepted", 204: "No Content", 301: "Moved Permanently", 404: "Not Found", 500: "Internal Server Error"}
    status = b["status"]
    head = [f"HTTP/1.1 {status} {reason.get(status, 'X')}"]
    ct = G.ct_header(b)
    if ct is not None:
        head.append(f"Content-Type: {ct}")
    if b.get("sess") is not None:
        head.append(f"Mcp-Session-Id: {b['sess']}")
    if status == 204:
        raw = b""
    else:
        head.append(f"Content-Length: {len(raw)}")
    head.append("Connection: close")
    return ("\r\n".join(head) + "\r\n\r\n").encode() + raw


async def _drive_socket(case):
    """same observation as `_drive`, against a real TCP server on 127.0.0.1 (real event loop)"""
    import anyio
    from chuk_mcp.transports.http import http_client, StreamableHTTPParameters

    script = [r["b"] for r in case["reqs"]] + [fence_behaviour()]
    posts = []
    state = {"k": 0}

    async def serve(reader, writer):
        try:
            head = await reader.readuntil(b"\r\n\r\n")
            lines = head.decode("latin-1").split("\r\n")
            hdrs = {}
            for l in lines[1:]:
                if ":" in l:
                    k, v = l.split(":", 1)
                    hdrs[k.strip().lower()] = v.strip()
            n = int(hdrs.get("content-length", "0"))
            if n:
                await reader.readexactly(n)
            k = state["k"]
            state["k"] += 1
            posts.append({"sess": hdrs.get("mcp-session-id")})
            b = script[k] if k < len(script) else G.response_b(500, "other", {"form": "empty"})
            if "exc" in b:
                if b["exc"] == "protocol":
                    writer.write(b"HTTP/1.1 200 OK\r\nContent-Le")
                    await writer.drain()
                # connect / timeouts: simply drop the connection without an answer
            else:
                writer.write(http_bytes(b))
                await writer.drain()
        except Exception:
            pass
        finally:
            try:
                writer.close()
            except Exception:
                pass

    server = await asyncio.start_server(serve, "127.0.0.1", 0)
    port = server.sockets[0].getsockname()[1]
    out = []
    fence = False
    try:
        params = StreamableHTTPParameters(url=f"http://127.0.0.1:{port}/mcp", timeout=2.0, session_id=case.get("session0"))
        async with http_client(params) as (rd, wr):
            for k, r in enumerate(case["reqs"]):
                await wr.send(outgoing(r, k))
            await wr.send(outgoing(None, -1, fence=True))
            with anyio.move_on_after(8):
                async for m in rd:
                    c = canon_delivered(m)
                    out.append(c)
                    if c["id"] == {"s": FENCE_ID} and c["kind"] in ("result", "error"):
                        fence = True
                        break
    finally:
        server.close()
        await server.wait_closed()
    return {"transcript": out, "hdrs": [p["sess"] for p in posts], "posts": len(posts), "fence": fence}


def run_case_socket(case):
    import anyio
    try:
        return anyio.run(_drive_socket, case)
    except Exception as ex:
        return {"transcript": [], "hdrs": [], "posts": 0, "fence": False, "crash": type(ex).__name__}


# ----------------------------------------------------------------------------- streaming branch

def run_stream(chunks, rid=7, fail=False):
    """Drive the streaming branch of `_process_sse_response` (unreachable with an httpx response,
    which always has `.text`): a response object without `.text` whose `aiter_text` yields the
    given chunks.  Returns the messages routed to the read stream, or {"skipped": why} when the
    transport has no such method any more."""
    import anyio

    class Stub:
        headers = {}
        status_code = 200

        def __init__(self, chunks):
            self._chunks = chunks

        async def aiter_text(self, chunk_size=None):
            for c in self._chunks:
                yield c
            if fail:
                import httpx
                raise httpx.ReadError("connection lost in the middle of the stream")

    async def main():
        T = _transport_module()
        from chuk_mcp.transports.http import StreamableHTTPParameters
        out = []
        async with T.StreamableHTTPTransport(StreamableHTTPParameters(url=URL)) as t:
            fn = getattr(t, "_process_sse_response", None)
            if fn is None:
                return {"skipped": "no _process_sse_response"}
            rd, _ = await t.get_streams()
            await fn(Stub(list(chunks)), rid)
            while True:
                try:
                    out.append(canon_delivered(rd.receive_nowait()))
                except (anyio.WouldBlock, anyio.EndOfStream):
                    break
        return {"transcript": out}

    try:
        return vloop.run(main)
    except Exception as ex:
        return {"skipped": f"{type(ex).__name__}"}


# ----------------------------------------------------------------------------- pristine processes

class Zygote:
    """A process forked before any case has run.  `run(case)` makes it fork a child that runs the one
    case and reports the observation: the case is judged in a process no earlier case has touched
    (class attributes, module-level caches, ... of the code under test are as after import).  Used
    to confirm violations and to shrink them, so that every replay is a self-contained failing input."""

    def __init__(self):
        import json
        import os
        import atexit
        c2z_r, c2z_w = os.pipe()
        z2c_r, z2c_w = os.pipe()
        pid = os.fork()
        if pid == 0:
            try:
                os.close(c2z_w)
                os.close(z2c_r)
                import logging
                logging.disable(logging.CRITICAL)
                try:
                    _transport_module()
                except Exception:
                    pass
                rf = os.fdopen(c2z_r, "r", encoding="utf-8")
                for line in rf:
                    kid = os.fork()
                    if kid == 0:
                        try:
                            res = run_case(json.loads(line))
                        except BaseException as ex:  # noqa
                            res = {"transcript": [], "hdrs": [], "posts": 0, "fence": False, "crash": type(ex).__name__}
                        data = (json.dumps(res, default=str) + "\n").encode()
                        while data:
                            n = os.write(z2c_w, data)
                            data = data[n:]
                        os._exit(0)
                    _, status = os.waitpid(kid, 0)
                    if status != 0:
                        os.write(z2c_w, (json.dumps({"transcript": [], "hdrs": [], "posts": 0, "fence": False, "crash": f"child exit {status}"}) + "\n").encode())
            finally:
                os._exit(0)
        os.close(c2z_r)
        os.close(z2c_w)
        self._w = os.fdopen(c2z_w, "w", encoding="utf-8")
        self._r = os.fdopen(z2c_r, "r", encoding="utf-8")
        self._pid = pid
        atexit.register(self.close)

    def run(self, case):
        import json
        self._w.write(json.dumps(case) + "\n")
        self._w.flush()
        line = self._r.readline()
        if not line:
            return {"transcript": [], "hdrs": [], "posts": 0, "fence": False, "crash": "zygote died"}
        return json.loads(line)

    def close(self):
        import os
        try:
            self._w.close()
            os.waitpid(self._pid, 0)
        except Exception:
            pass


_ZYGOTE = None


def start_zygote():
    global _ZYGOTE
    if _ZYGOTE is None:
        _ZYGOTE = Zygote()


def run_pristine(case):
    if _ZYGOTE is None:
        return run_case(case)
    return _ZYGOTE.run(case)
