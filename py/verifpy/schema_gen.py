"""Type-directed generators of SPEC-VALID wire objects for every discovered model class.

Everything is derived from the introspected schema (`schema_introspect`), nothing is listed per
class except the valid shapes the documented hook invariants require (root URIs start with
file://, at most 100 completion values, a JSON-RPC error object has an integer `code` and a string
`message`, a legacy envelope is a request / notification / response / error).

Validity rules of the generator (= the property's "spec-valid"):
 * a member typed T carries the JSON type T denotes (never a coercible stand-in: no "5" for an
   int, no 5 for a str — F-C09c inputs are NOT produced), numeric bounds of `Field(ge=, le=)` hold;
 * tags (`Literal[...]` members: type / jsonrpc / method) and required members are present;
 * an optional member is present with a value or absent, never `null`; unknown members are not `null`
   (`null` does occur inside free-form `Any` / `Dict[str, Any]` payloads);
 * unknown members: random names, the required member names of sibling union variants, and
   the Python attribute names of aliased members (modes `attr-both` / `attr-only`, see the property
   modules).  In a union that is NOT discriminated by Literal tags (TextResourceContents |
   BlobResourceContents) a sibling-named unknown member carries a string or an object, never a
   number/bool: `{"uri","blob","text": 5}` is taken for a text resource by the fallback through its
   int->str leaf coercion, which is F-C09c (outside the property), not a union-order defect.
"""
from __future__ import annotations

import ast
import itertools
import random
import re
from pathlib import Path

STRS = [
    "", "a", "x y", "123", "-7", "0", "true", "false", "1", "null", "héllo ✓", "file:///tmp/a", "text", "2.0", "A" * 40,
    # every declared str member must come back EXACTLY: leading / trailing whitespace, newlines, tabs
    # (tool output ending in a newline, indented code), look-alikes of other JSON types, edge characters
    " lead", "trail ", " both ", "line\n", "\n", "\tdef f():\n    return 1\n", "  ", " 7 ", "7\n", "\r\n",
    "\u00a0nbsp\u00a0", "x\u2028", "\u2028", "\u3000wide", "\x0bvt\x0c",
    "\U0001F600 non-BMP \U0001D518", "1.0", "1e3", "-0", "None", "True", "NaN", "[]", "{}", "\"q\"", "\\",
    "L" * 3000,
    # format-hostile text (anything that is logged, %-formatted, str.format-ed or embedded)
    # text that looks like the syntax being produced or parsed (JSON, SSE, Python reprs)
    "NaN", "[NaN]", ":Infinity,", "values=[1.0, NaN]", "data: x", "event: message", "id: 1", "retry: 5", ": comment",
    "{\"a\": 1}", "[1, 2]", "\"quoted\"", "null,", "}\n{", "\\u0000", "<class 'str'>",
    # BOM, NFC / NFD twins, case twins
    "\ufeffbom", "\ufeff", "\u00e9", "e\u0301", "Content-Type", "content-type", "\u212a",
    "%", "%s %d", "%(x)s", "{}", "{0}", "{x}", "}{", "\u2029", "\u0085", "'", "\"", "\\n", "${HOME}", "\x00", "\x7f",
]
# strings whose ends (or whole content) a "tolerant" validator would alter
EDGE_STRS = [" lead", "trail ", "line\n", "\tindented\n    code\n", " 7 ", "\u00a0nbsp\u00a0", "x\u2028", "", "  ", "\r\n",
             "1", "true", "null", "\U0001F600", "\u3000wide"]
# what a member of a type the translator does not know most plausibly carries on the wire
WIRE_SCALARS = ["2025-01-01T00:00:00Z", "2025-01-12T15:00:58+02:00", "2025-06-18", "15:00:58", "P1D", "1736694058", "3.14",
                "550e8400-e29b-41d4-a716-446655440000", "https://example.com/x", "dGVzdA=="]
INTS = [0, 1, 0, 1, -1, 2, 7, 42, 100, 2**31, 2**53 + 1, -(2**63), 10**20]
# falsy value(s) of each leaf kind / container, and type twins that Python equates (only where the
# declared type admits them: 7.0 for an int or float member, "7"/"true"/"0"/"" for a str member)
FALSY = {"str": [""], "int": [0, 0.0], "float": [0, 0.0], "bool": [False], "any": [0, "", False, [], {}, 0.0]}
TWINS = {"str": ["7", "7.0", "true", "0", "False", "None"], "int": [7, 7.0, 1, 1.0], "float": [7, 7.0, 1, 1.0],
         "bool": [True, False], "any": [7, "7", 7.0, True, 1, "1", 0, False, "", None, [None], {"k": None}]}
FLOATS = [0.5, 0.25, 1.5, -2.75, 1e-3, 3.0, 1.0, 0.0, 0, 1, 7, 1e100, 2.5e-7]
EXTRA_NAMES = ["x", "extra", "note", "_custom", "X-Y", "data2", "annotations2", "kind", "self", " pad ", "tab\t", "", "\U0001F600"]
ANY_KEYS = ["a", "b", "type", "text", "meta", "_meta", "schema", "schema_", "progressToken", "n", " k ", "", "nl\n", "data:", "{\"k\"}", "NaN", "a.b", "0", "\u00e9", "e\u0301", "\ufeffa", "A", "a"]


# ---------------------------------------------------------------------------- constants from the source
def harvest_constants(path: Path):
    """string / int constants of one source file (dict keys and values, comparisons, `in (...)`
    tuples, Literal[...] arguments, defaults, map tables): candidate "magic" values a hook or validator
    may treat specially.  Docstrings, f-string pieces and anything with whitespace are left out."""
    try:
        tree = ast.parse(path.read_text())
    except (OSError, SyntaxError):
        return [], [], []
    skip = set()
    for n in ast.walk(tree):
        if isinstance(n, ast.Expr) and isinstance(n.value, ast.Constant):
            skip.add(id(n.value))
        if isinstance(n, ast.JoinedStr):
            for v in ast.walk(n):
                skip.add(id(v))
    strs, ints = set(), set()
    for n in ast.walk(tree):
        if isinstance(n, ast.Constant) and id(n) not in skip:
            if isinstance(n.value, str) and 0 < len(n.value) <= 32 and not re.search(r"\s", n.value):
                strs.add(n.value)
            elif isinstance(n.value, int) and not isinstance(n.value, bool) and abs(n.value) < 2 ** 63:
                ints.add(n.value)
    imports = []
    for n in tree.body:
        if isinstance(n, ast.ImportFrom):
            imports.append((n.module or "", n.level))
    return sorted(strs), sorted(ints), imports


def case_variants(s: str):
    """simple spelling variants: snake_case <-> camelCase / PascalCase / kebab-case, upper, lower"""
    out = [s, s.lower(), s.upper()]
    snake = re.sub(r"(?<=[a-z0-9])([A-Z])", r"_\1", s).replace("-", "_").lower()
    out += [snake, snake.upper(), snake.replace("_", "-")]
    parts = [p for p in re.split(r"[_\-/.]+", s) if p]
    if len(parts) > 1:
        out.append(parts[0].lower() + "".join(p[:1].upper() + p[1:] for p in parts[1:]))
        out.append("".join(p[:1].upper() + p[1:] for p in parts))
    seen, res = set(), []
    for v in out:
        if v and v not in seen:
            seen.add(v)
            res.append(v)
    return res


def magic_values(classes: dict, src_root: Path) -> dict:
    """{class id: {"strs": [...], "imported": [...], "ints": [...]}} — constants of the module that defines
    the class (with spelling variants, and variants of the class's own Literal values) and, separately,
    of the package modules that module imports from"""
    cache = {}

    def mod(name):
        if name not in cache:
            p = src_root / (name.replace(".", "/") + ".py")
            if not p.exists():
                p = src_root / name.replace(".", "/") / "__init__.py"
            cache[name] = harvest_constants(p)
        return cache[name]

    out = {}
    for cid, c in classes.items():
        strs, ints, imports = mod(c["module"])
        lits = []

        def find_lits(t):
            if t["k"] == "lit":
                lits.extend(t["vals"])
            for k in ("t", "kt"):
                if isinstance(t.get(k), dict):
                    find_lits(t[k])
            for m in t.get("ts", []):
                find_lits(m)

        for f in c["fields"]:
            find_lits(f["ty"])
        primary, seen = [], set()
        for s0 in list(lits) + list(strs):
            for v in case_variants(s0):
                if v not in seen:
                    seen.add(v)
                    primary.append(v)
        imported = []
        pkg = c["module"].split(".")
        for m, level in imports:
            if level:
                base = pkg[:-level]
                name = ".".join(base + ([m] if m else []))
            else:
                name = m
            if not name.startswith("chuk_mcp"):
                continue
            for s0 in mod(name)[0]:
                if s0 not in seen:
                    seen.add(s0)
                    imported.append(s0)
        near = sorted({i + d for i in ints for d in (-1, 0, 1)})
        out[cid] = {"strs": primary, "imported": imported, "ints": near}
    return out


def any_value(rng: random.Random, depth=0, allow_null=True):
    k = rng.randrange(9 if depth < 2 else 6)
    if k == 0:
        return rng.choice(STRS)
    if k == 1:
        return rng.choice(INTS)
    if k == 2:
        return rng.choice([True, False])
    if k == 3:
        return rng.choice(FLOATS)
    if k == 4:
        return None if allow_null else rng.choice(STRS)
    if k == 5:
        return rng.choice(["s", 3, False])
    if k in (6, 7):
        return {kk: any_value(rng, depth + 1) for kk in rng.sample(ANY_KEYS, rng.randrange(0, 4))}
    return [any_value(rng, depth + 1) for _ in range(rng.randrange(0, 4))]


def any_object(rng, depth=0):
    return {kk: any_value(rng, depth + 1) for kk in rng.sample(ANY_KEYS, rng.randrange(0, 4))}


class Gen:
    def __init__(self, classes: dict, classes_pyd: dict | None = None):
        self.cl = classes
        self.pyd = classes_pyd or classes
        # required member names of the sibling variants of every union of model classes
        self.siblings: dict[str, set] = {}
        # classes that occur in a union whose members are NOT told apart by Literal tags
        self.untagged: set = set()
        for c in classes.values():
            for f in c["fields"]:
                self._collect_unions(f["ty"])

    # ---- schema helpers
    def _collect_unions(self, t):
        if t["k"] == "union":
            refs = [m["cls"] for m in t["ts"] if m["k"] == "ref"]
            tagsets = [{f["name"] for f in self.cl[r]["fields"] if self.is_tag(f)} for r in refs]
            if refs and not set.intersection(*tagsets):
                self.untagged.update(refs)
            for r in refs:
                own = {self.wire(f) for f in self.cl[r]["fields"]}
                for s in refs:
                    if s != r:
                        names = {self.wire(f) for f in self.cl[s]["fields"] if self.on_wire_required(s, f)}
                        self.siblings.setdefault(r, set()).update(names - own)
        for k in ("t", "kt"):
            if isinstance(t.get(k), dict):
                self._collect_unions(t[k])
        for m in t.get("ts", []):
            self._collect_unions(m)

    @staticmethod
    def wire(f):
        return f["alias"] or f["name"]

    @staticmethod
    def is_tag(f):
        return f["ty"]["k"] == "lit"

    def on_wire_required(self, cid, f):
        """a member every spec-valid object carries: required under BOTH backends' tables, or a tag"""
        pf = next((x for x in self.pyd.get(cid, {"fields": []})["fields"] if x["name"] == f["name"]), f)
        return (f["required"] and pf["required"]) or self.is_tag(f)

    def optional_fields(self, cid):
        return [f for f in self.cl[cid]["fields"] if not self.on_wire_required(cid, f)]

    def aliased(self, cid):
        return [f for f in self.cl[cid]["fields"] if f["alias"] and f["alias"] != f["name"]]

    # ---- values
    def value(self, t, rng, depth, ctx):
        k = t["k"]
        if k == "str":
            return rng.choice(STRS)
        if k == "int":
            return rng.choice(INTS)
        if k == "bool":
            return rng.choice([True, False])
        if k == "float":
            lo, hi = ctx.get("ge"), ctx.get("le")
            if lo is not None or hi is not None:
                lo = 0.0 if lo is None else lo
                hi = lo + 1.0 if hi is None else hi
                return rng.choice([lo, hi, (lo + hi) / 2, lo + (hi - lo) / 4, int(lo), int(hi)])
            return rng.choice(FLOATS)
        if k == "any":
            return any_value(rng, depth + 1, allow_null=False) if not ctx.get("object") else any_object(rng, depth)
        if k == "lit":
            return rng.choice(t["vals"])
        if k == "opt":
            return self.value(t["t"], rng, depth, ctx)
        if k == "list":
            n = rng.randrange(0, 4) if depth < 3 else 0
            return [self.value(t["t"], rng, depth + 1, {"inlist": True, **{k2: v for k2, v in ctx.items() if k2 in ("ge", "le", "sib")}}) for _ in range(n)]
        if k == "dict":
            if t["t"]["k"] == "any":
                return any_object(rng, depth)
            keys = rng.sample(ANY_KEYS, rng.randrange(0, 3))
            return {kk: self.value(t["t"], rng, depth + 1, {}) for kk in keys}
        if k == "union":
            m = rng.choice(t["ts"])
            return self.value(m, rng, depth, ctx)
        if k == "ref":
            return self.obj(t["cls"], rng, depth=depth + 1, extras=ctx.get("sib", "random"))
        if k == "unknown":
            # a declared type outside the translator's subset (datetime, Decimal, an enum, …): what spec-valid
            # traffic can carry in a JSON member — a string (ISO 8601 date-times among them), a number, a
            # bool, an object, an array; never null at member level
            return rng.choice(WIRE_SCALARS + [rng.choice(STRS), rng.choice(INTS), rng.choice(FLOATS), True, False,
                                              any_object(rng, depth + 1), [any_value(rng, depth + 1) for _ in range(rng.randrange(0, 3))]])
        raise ValueError(k)

    def field_value(self, cid, f, rng, depth, extras):
        name = f["name"]
        # valid shapes demanded by the hook-enforced invariants
        if cid == "Root" and name == "uri":
            return "file://" + rng.choice(["/", "/tmp/a", "/home/u/pröj", "/x%20y", "", "/with space ", "/trail\n", "/\U0001F600"])
        if cid == "JSONRPCError" and name == "error" or (cid == "JSONRPCMessage" and name == "error"):
            e = {"code": rng.choice([-32700, -32600, -32601, -32603, 1, 0]), "message": rng.choice(STRS)}
            if rng.random() < 0.4:
                e["data"] = any_value(rng, 1)
            return e
        if name == "result" and cid in ("JSONRPCResponse", "JSONRPCMessage"):
            return any_object(rng, 0)
        ctx = dict(f.get("constraints") or {})
        ctx["sib"] = extras if extras in ("sibling",) else "random"
        return self.value(f["ty"], rng, depth, ctx)

    def obj(self, cid, rng, *, present=None, extras="random", depth=0, n_extras=None):
        """a spec-valid wire object of class `cid`.
        present: set of optional field names to include (None = random subset)
        extras: none | random | sibling (names required by sibling union variants) | attr-name"""
        c = self.cl[cid]
        out = {}
        opt_names = {f["name"] for f in self.optional_fields(cid)}
        for f in c["fields"]:
            if f["name"] in opt_names:
                inc = (f["name"] in present) if present is not None else (rng.random() < (0.5 if depth < 3 else 0.2))
                if getattr(self, "force_all", False) and depth < 4:
                    inc = True  # every optional member at every nesting level
                if not inc:
                    continue
            out[self.wire(f)] = self.field_value(cid, f, rng, depth, extras)
        if cid == "JSONRPCMessage":
            out = self._legacy_envelope(out, rng)
        declared = {self.wire(f) for f in c["fields"]} | {f["name"] for f in c["fields"]}
        if extras == "random":
            k = rng.randrange(0, 3) if n_extras is None else n_extras
            for nm in rng.sample(EXTRA_NAMES, k):
                if nm not in declared:
                    out[nm] = any_value(rng, depth + 1, allow_null=False)
        elif extras == "sibling":
            pool = sorted(self.siblings.get(cid, set()) - declared)
            for nm in (rng.sample(pool, min(len(pool), rng.randrange(1, 3))) if pool else []):
                # In an untagged union a sibling-named member whose value the fallback's leaf coercion
                # would accept (5 for a str member: F-C09c, outside the property) is not produced.
                vals = ["caption", "x", "123", {"k": 1}] + ([] if cid in self.untagged else [5, True])
                out[nm] = rng.choice(vals)
        items = list(out.items())
        if rng.random() < 0.5:
            rng.shuffle(items)
        return dict(items)

    def _legacy_envelope(self, out, rng):
        """the unified legacy class accepts exactly the four envelope kinds"""
        kind = rng.choice(["request", "notification", "response", "error"])
        o = {"jsonrpc": "2.0"}
        if kind in ("request", "notification"):
            o["method"] = out.get("method", "tools/list")
            if "params" in out:
                o["params"] = out["params"]
            if kind == "request":
                o["id"] = out.get("id", 1)
        elif kind == "response":
            o["id"] = out.get("id", 1)
            o["result"] = out.get("result", {})
        else:
            o["id"] = out.get("id", 1)
            o["error"] = out.get("error", {"code": -32600, "message": "m"})
        return o

    # ---- case enumeration
    def subsets(self, cid, rng, budget):
        names = [f["name"] for f in self.optional_fields(cid)]
        if len(names) <= 4:
            for r in range(len(names) + 1):
                for s in itertools.combinations(names, r):
                    yield set(s)
        else:
            yield set()
            yield set(names)
            for nm in names:
                yield {nm}
                yield set(names) - {nm}
            for _ in range(8 if budget == "quick" else 40):
                yield {nm for nm in names if rng.random() < 0.5}

    def union_paths(self, cid):
        """[(field, member class ids)] for fields of `cid` whose type contains a union of model classes"""
        out = []

        def find(t):
            if t["k"] == "union":
                refs = [m["cls"] for m in t["ts"] if m["k"] == "ref"]
                if len(refs) > 1:
                    return refs
            for k in ("t",):
                if isinstance(t.get(k), dict):
                    r = find(t[k])
                    if r:
                        return r
            return None

        for f in self.cl[cid]["fields"]:
            r = find(f["ty"])
            if r:
                out.append((f, r))
        return out

    def with_str(self, t, sval, leaf="str"):
        """the smallest value of type `t` that carries `sval` at a `str` (or `leaf`) position reachable
        without entering another model class (None when `t` has no such position)"""
        k = t["k"]
        if k == leaf or (k == "unknown" and leaf in ("str", "any")):
            return sval
        if leaf == "empty" and k in ("list", "dict"):
            return [] if k == "list" else {}
        if k == "opt":
            return self.with_str(t["t"], sval, leaf)
        if k == "list":
            v = self.with_str(t["t"], sval, leaf)
            return None if v is None else [v, v]
        if k == "dict":
            v = self.with_str(t["t"], sval, leaf)
            return None if v is None else {"k": v, " k ": v}
        if k == "union":
            for m in t["ts"]:
                if m["k"] != "lit":
                    v = self.with_str(m, sval, leaf)
                    if v is not None:
                        return v
        return None

    def wrap(self, t, leaf):
        """the smallest value of type `t` that contains `leaf` at its union position"""
        k = t["k"]
        if k == "opt":
            return self.wrap(t["t"], leaf)
        if k == "list":
            return [self.wrap(t["t"], leaf)]
        if k == "dict":
            return {"k": self.wrap(t["t"], leaf)}
        return leaf
