"""Worker process for the stdio writer check under another JSON / model backend.

    python -m verifpy.stdio_worker no-orjson|fallback|plain   < {"cases":[…]}   > [observations]

`no-orjson`: `sys.modules['orjson'] = None` before the first import of the package (so
`fast_json` falls back to stdlib json);  `fallback`: `MCP_FORCE_FALLBACK=1` (no Pydantic).
"""
from __future__ import annotations

import json
import logging
import os
import sys


def reader_main():
    """`python -m verifpy.stdio_worker reader < pickle([harness cases]) > pickle([observations])`: the stdio READER cases in a
    process of their own - whatever the library keeps process-wide starts from nothing"""
    import pickle

    logging.disable(logging.CRITICAL)
    from . import core

    core.use_repo_source()
    from . import stdio_h

    cases = pickle.loads(sys.stdin.buffer.read())
    sys.stdout.buffer.write(pickle.dumps(stdio_h.run_reader_cases(cases)))


def main():
    mode = sys.argv[1]
    if mode == "reader":
        return reader_main()
    if mode == "no-orjson":
        sys.modules["orjson"] = None  # type: ignore[assignment]
    elif mode == "fallback":
        os.environ["MCP_FORCE_FALLBACK"] = "1"
    logging.disable(logging.CRITICAL)
    from . import core

    core.use_repo_source()
    from . import stdio_out

    cases = json.loads(sys.stdin.read())["cases"]
    obs = stdio_out.run_cases(cases)
    sys.stdout.write(json.dumps(obs, ensure_ascii=True))


if __name__ == "__main__":
    main()
