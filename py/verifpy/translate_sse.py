"""Source literals of `transports/sse/transport.py` for the C12 generator (re-read on every run).

No Lean file is generated from them.  What the Lean side needs from these literals: NOTHING.  Every C12 theorem holds for any
connection cap, any timeout and any error codes (the property demands one terminal message with
the request's id, not a particular code).  The literals are therefore INFORMATIONAL: they
parametrise the generator (where to put the boundary cases of the connection cap, how to tell a
synthesised timeout error from a synthesised failure error when comparing with the model) and are
recorded in the evidence notes.  A literal that cannot be located is reported as a note, never as
a broken obligation; the harness then measures the cap on the running code and compares the
synthesised errors without looking at their codes.

Located shapes (anywhere in the module, through module-level constants, constants imported
from the package, and private builder functions):
* the cap on the initial connection attempt: `min(<x>.timeout, CAP)`;
* the error codes of synthesised terminal messages: dict displays `{"code": C, "message": M}`
  where C / M are literals, constants, or parameters of an enclosing builder function whose
  call sites supply them;
* the default `timeout` of `SSEParameters`.
"""
from __future__ import annotations

import ast
from pathlib import Path


FALLBACK = {"cap_ms": 15000, "timeout_code": -32000, "fail_codes": [-32603], "default_timeout_ms": 60000}


def _num(e):
    v = ast.literal_eval(e)
    if isinstance(v, bool) or not isinstance(v, (int, float)):
        raise ValueError("not a number")
    return v


class Module:
    """One source module with its module-level constant bindings (resolved lazily, following
    `from x import NAME` inside the package)."""

    def __init__(self, path: Path, root: Path, depth=0):
        self.path, self.root, self.depth = path, root, depth
        self.tree = ast.parse(path.read_text())
        self.assign = {}
        self.imports = {}  # local name -> (module path, original name)
        for st in self.tree.body:
            if isinstance(st, ast.Assign) and len(st.targets) == 1 and isinstance(st.targets[0], ast.Name):
                self.assign[st.targets[0].id] = st.value
            elif isinstance(st, ast.AnnAssign) and isinstance(st.target, ast.Name) and st.value is not None:
                self.assign[st.target.id] = st.value
            elif isinstance(st, ast.ImportFrom):
                target = self._module_file(st.module, st.level)
                if target is not None:
                    for a in st.names:
                        self.imports[a.asname or a.name] = (target, a.name)

    def _module_file(self, module, level):
        if level == 0:
            if not module or not module.startswith("chuk_mcp"):
                return None
            base = self.root.parent
            parts = module.split(".")
        else:
            base = self.path.parent
            for _ in range(level - 1):
                base = base.parent
            parts = module.split(".") if module else []
        p = base.joinpath(*parts)
        for cand in (p.with_suffix(".py"), p / "__init__.py"):
            if cand.exists():
                return cand
        return None

    def const(self, e, seen=()):
        """value of a constant expression: literal, -literal, module-level name, imported name"""
        try:
            return ast.literal_eval(e)
        except Exception:
            pass
        if isinstance(e, ast.Name):
            if e.id in seen:
                raise ValueError("cyclic constant")
            if e.id in self.assign:
                return self.const(self.assign[e.id], seen + (e.id,))
            if e.id in self.imports and self.depth < 4:
                path, name = self.imports[e.id]
                return Module(path, self.root, self.depth + 1).const(ast.Name(id=name, ctx=ast.Load()))
        if isinstance(e, ast.UnaryOp) and isinstance(e.op, ast.USub):
            return -self.const(e.operand, seen)
        raise ValueError("not a constant: " + ast.dump(e)[:80])


def _functions(tree):
    return [n for n in ast.walk(tree) if isinstance(n, (ast.FunctionDef, ast.AsyncFunctionDef))]


def _enclosing(tree):
    """dict node -> innermost enclosing function"""
    out = {}

    def visit(node, fn):
        for ch in ast.iter_child_nodes(node):
            f = ch if isinstance(ch, (ast.FunctionDef, ast.AsyncFunctionDef)) else fn
            if isinstance(ch, ast.Dict):
                out[ch] = fn
            visit(ch, f)
    visit(tree, None)
    return out


def _param_index(fn, name):
    names = [a.arg for a in fn.args.posonlyargs + fn.args.args]
    is_method = bool(names) and names[0] in ("self", "cls")
    if name in names:
        return names.index(name) - (1 if is_method else 0), name
    if name in [a.arg for a in fn.args.kwonlyargs]:
        return None, name
    return None


def _call_sites(tree, fn):
    out = []
    for n in ast.walk(tree):
        if isinstance(n, ast.Call):
            f = n.func
            called = f.id if isinstance(f, ast.Name) else f.attr if isinstance(f, ast.Attribute) else None
            if called == fn.name:
                out.append(n)
    return out


def _arg_of(call, fn, pname):
    """expression supplied for parameter `pname` of `fn` at this call (None if defaulted)"""
    pi = _param_index(fn, pname)
    if pi is None:
        return None
    idx, kw = pi
    for k in call.keywords:
        if k.arg == kw:
            return k.value
    if idx is not None and idx < len(call.args):
        return call.args[idx]
    return None


def _error_literals(mod: Module):
    """[(code, message-or-None)] of every `{"code": C, "message": M}` the module can build.
    C and M may be literals, constants, or parameters of the enclosing (builder) function, in
    which case every call site of the builder in the module contributes its arguments."""
    found = []

    def is_param(e, fn):
        return isinstance(e, ast.Name) and fn is not None and e.id not in mod.assign and _param_index(fn, e.id) is not None

    def code_of(e):
        v = mod.const(e)
        if isinstance(v, bool) or not isinstance(v, int):
            raise ValueError("code is not an int")
        return v

    def text_of(e):
        if e is None:
            return None
        try:
            v = mod.const(e)
        except Exception:
            return None
        return v if isinstance(v, str) else None

    for d, fn in _enclosing(mod.tree).items():
        keys = [k.value if isinstance(k, ast.Constant) else None for k in d.keys]
        if "code" not in keys or "message" not in keys:
            continue
        ce, me = d.values[keys.index("code")], d.values[keys.index("message")]
        if is_param(ce, fn) or is_param(me, fn):
            sites = [(_arg_of(c, fn, ce.id) if is_param(ce, fn) else ce, _arg_of(c, fn, me.id) if is_param(me, fn) else me)
                     for c in _call_sites(mod.tree, fn)]
        else:
            sites = [(ce, me)]
        for c, m in sites:
            if c is None:
                continue
            try:
                found.append((code_of(c), text_of(m)))
            except Exception:
                continue
    return found


def extract(src: Path):
    """-> (values, notes): values always complete (fallbacks), `notes` lists what was not located;
    values["found"] names what was located in the source"""
    vals = dict(FALLBACK)
    vals["found"] = []
    notes = []
    try:
        mod = Module(src / "transports/sse/transport.py", src)
    except Exception as ex:  # noqa
        return vals, [f"transports/sse/transport.py: {ex!r}"]
    # connection cap
    try:
        caps = []
        for n in ast.walk(mod.tree):
            if isinstance(n, ast.Call) and isinstance(n.func, ast.Name) and n.func.id == "min" and len(n.args) == 2:
                tm = [a for a in n.args if isinstance(a, ast.Attribute) and a.attr == "timeout"]
                other = [a for a in n.args if not (isinstance(a, ast.Attribute) and a.attr == "timeout")]
                if len(tm) == 1 and len(other) == 1:
                    try:
                        v = mod.const(other[0])
                        if not isinstance(v, bool) and isinstance(v, (int, float)) and v > 0:
                            caps.append(v)
                    except Exception:
                        pass
        if len(set(caps)) == 1:
            vals["cap_ms"] = int(round(caps[0] * 1000))
            vals["found"].append("cap")
        else:
            notes.append(f"transports/sse/transport.py: connection cap min(<x>.timeout, CAP) not located uniquely ({caps}); it is measured on the running code")
    except Exception as ex:  # noqa
        notes.append(f"transports/sse/transport.py: connection cap: {ex!r}")
    # synthesised error codes
    try:
        lits = _error_literals(mod)
        t_codes = sorted({c for c, m in lits if m is not None and "timeout" in m.lower()})
        f_codes = sorted({c for c, m in lits if not (m is not None and "timeout" in m.lower())} - set(t_codes))
        if len(t_codes) == 1 and f_codes:
            vals["timeout_code"], vals["fail_codes"] = t_codes[0], f_codes
            vals["found"].append("codes")
        else:
            notes.append(f"transports/sse/transport.py: codes of the synthesised errors not located (timeout {t_codes}, other {f_codes}); "
                         "synthesised errors are compared without their codes")
    except Exception as ex:  # noqa
        notes.append(f"transports/sse/transport.py: synthesised error codes: {ex!r}")
    # default timeout
    try:
        pmod = Module(src / "transports/sse/parameters.py", src)
        found = None
        for n in ast.walk(pmod.tree):
            if isinstance(n, ast.ClassDef) and n.name == "SSEParameters":
                for st in n.body:
                    if isinstance(st, ast.AnnAssign) and isinstance(st.target, ast.Name) and st.target.id == "timeout" and st.value is not None:
                        found = pmod.const(st.value)
        if found is None or isinstance(found, bool) or not isinstance(found, (int, float)) or found <= 0:
            notes.append("transports/sse/parameters.py: SSEParameters.timeout default not located")
        else:
            vals["default_timeout_ms"] = int(round(found * 1000))
            vals["found"].append("default_timeout")
    except Exception as ex:  # noqa
        notes.append(f"transports/sse/parameters.py: {ex!r}")
    return vals, notes
