"""Discovery (by introspection, so new ones are picked up) of the typed request helpers built
on send_message: async functions `send_*` under chuk_mcp.protocol.messages taking
(read_stream, write_stream, …, timeout=…)."""
from __future__ import annotations

import importlib
import inspect
import pkgutil

# how to fill required parameters, by name
ARGS = {
    "uri": "file:///a/b.txt",
    "name": "thing",
    "arguments": {"x": 1, "s": "v"},
    "level": "info",
    "ref": {"type": "ref/prompt", "name": "p"},
    "argument": {"name": "arg", "value": "va"},
    "messages": [{"role": "user", "content": {"type": "text", "text": "hi"}}],
    "max_tokens": 16,
    "method": "tools/list",
}
SKIP = {"send_message", "send_initialize", "send_initialize_with_client_tracking"}
_cache = None


def discover():
    """-> (helpers, undrivable): helpers[name] = (call(read, write, timeout_s) -> awaitable, kind, qualified name)"""
    global _cache
    if _cache is not None:
        return _cache
    import chuk_mcp.protocol.messages as root

    found = {}
    for m in pkgutil.walk_packages(root.__path__, root.__name__ + "."):
        try:
            mod = importlib.import_module(m.name)
        except Exception:
            continue
        for n, fn in vars(mod).items():
            if n.startswith("send_") and inspect.iscoroutinefunction(fn) and getattr(fn, "__module__", None) == mod.__name__:
                found[f"{mod.__name__}.{n}"] = fn
    helpers, undrivable = {}, []
    for qn, fn in sorted(found.items()):
        short = fn.__name__
        if short in SKIP:
            continue
        sig = inspect.signature(fn)
        ps = list(sig.parameters.values())
        if len(ps) < 2 or ps[0].name != "read_stream" or ps[1].name != "write_stream":
            continue  # notification senders take only a write stream
        if "timeout" not in sig.parameters:
            continue
        kwargs = {}
        ok = True
        for p in ps[2:]:
            if p.default is inspect.Parameter.empty and p.kind in (p.POSITIONAL_OR_KEYWORD, p.KEYWORD_ONLY):
                if p.name in ARGS:
                    kwargs[p.name] = ARGS[p.name]
                else:
                    ok = False
        if not ok:
            undrivable.append(qn)
            continue
        kind = "bool" if sig.return_annotation is bool or sig.return_annotation == "bool" else "result"
        key = short
        if key in helpers:
            key = qn
        helpers[key] = ((lambda r, w, t, fn=fn, kwargs=kwargs: fn(r, w, timeout=t, **kwargs)), kind, qn)
    _cache = (helpers, undrivable)
    return _cache
