"""Translator generator for C02: `Gen/Methods.lean`, regenerated from the source on every run.

Extracted (AST only, nothing is guessed; anything outside the expected shape is listed in
report["untranslatable"] and the file carries `translatable := false`, which breaks `c02_methods_translated`):

* `MessageMethod` (protocol/messages/message_method.py): every member name and value;
* every module-level `send_*_notification` of the messages package: the method it passes to
  `create_notification(method=…)`;
* every module-level `handle_*_notification`: the method its guard `notification.get("method") != …`
  compares with (a string literal or a `MessageMethod` member);
* `NotificationHandler.register_defaults`: the methods it registers;
* `CompletionProvider.handle_completion_request`: the truncation limit (`len(values) > N`, `values[:N]`);
* the default codes of `ProtocolError` / `ValidationError` and the code `VersionMismatchError` uses
  (protocol/types/errors.py), resolved through the module's integer constants.
"""
from __future__ import annotations

import ast
from pathlib import Path

from . import translate


def _s(x: str) -> str:
    return translate._lean_str(x)


@translate.register("Methods")
def gen_methods(src: Path):
    bad: list[str] = []
    msgs = src / "protocol" / "messages"

    # -- the enum -------------------------------------------------------------------------------
    enum: dict[str, str] = {}
    try:
        tree = ast.parse((msgs / "message_method.py").read_text())
        cls = next(n for n in tree.body if isinstance(n, ast.ClassDef) and n.name == "MessageMethod")
        for st in cls.body:
            if isinstance(st, ast.Assign) and len(st.targets) == 1 and isinstance(st.targets[0], ast.Name):
                if isinstance(st.value, ast.Constant) and isinstance(st.value.value, str):
                    enum[st.targets[0].id] = st.value.value
                else:
                    bad.append(f"message_method.py:{st.lineno}: member {st.targets[0].id} is not a string literal")
    except Exception as ex:  # noqa: BLE001
        bad.append(f"message_method.py: MessageMethod not found ({ex!r})")

    def resolve(e, where):
        if isinstance(e, ast.Constant) and isinstance(e.value, str):
            return e.value
        if isinstance(e, ast.Attribute) and isinstance(e.value, ast.Name) and e.value.id == "MessageMethod" and e.attr in enum:
            return enum[e.attr]
        bad.append(f"{where}: method expression {ast.unparse(e)!r} is neither a string literal nor a MessageMethod member")
        return None

    senders, handlers = [], []
    defaults: list[str] = []
    for f in sorted(msgs.rglob("*.py")):
        rel = str(f.relative_to(msgs))
        try:
            tree = ast.parse(f.read_text())
        except SyntaxError as ex:
            bad.append(f"{rel}: {ex}")
            continue
        for fn in tree.body:
            if not isinstance(fn, (ast.FunctionDef, ast.AsyncFunctionDef)):
                continue
            if fn.name.startswith("send_") and fn.name.endswith("_notification"):
                calls = [c for c in ast.walk(fn) if isinstance(c, ast.Call) and
                         (getattr(c.func, "id", None) == "create_notification" or getattr(c.func, "attr", None) == "create_notification")]
                if len(calls) != 1:
                    bad.append(f"{rel}:{fn.lineno}: {fn.name} has {len(calls)} create_notification calls")
                    continue
                c = calls[0]
                arg = next((k.value for k in c.keywords if k.arg == "method"), c.args[0] if c.args else None)
                if arg is None:
                    bad.append(f"{rel}:{fn.lineno}: {fn.name}: no method argument")
                    continue
                m = resolve(arg, f"{rel}:{c.lineno}")
                if m is not None:
                    senders.append((f"{rel[:-3]}.{fn.name}", m))
            elif fn.name.startswith("handle_") and fn.name.endswith("_notification"):
                found = None
                for st in fn.body:
                    # `if n.get("method") != M: return`  or the inverted  `if n.get("method") == M: <handle>`
                    if isinstance(st, ast.If) and isinstance(st.test, ast.Compare) and len(st.test.ops) == 1 \
                            and isinstance(st.test.ops[0], (ast.NotEq, ast.Eq)) and isinstance(st.test.left, ast.Call) \
                            and getattr(st.test.left.func, "attr", None) == "get" and st.test.left.args \
                            and isinstance(st.test.left.args[0], ast.Constant) and st.test.left.args[0].value == "method":
                        early = isinstance(st.test.ops[0], ast.NotEq) and len(st.body) == 1 and isinstance(st.body[0], ast.Return) \
                            and st.body[0].value is None
                        inverted = isinstance(st.test.ops[0], ast.Eq) and not st.orelse and st is fn.body[-1]
                        if early or inverted:
                            found = resolve(st.test.comparators[0], f"{rel}:{st.lineno}")
                            break
                if found is None:
                    bad.append(f"{rel}:{fn.lineno}: {fn.name}: guard `if notification.get(\"method\") != M: return` not found")
                else:
                    handlers.append((f"{rel[:-3]}.{fn.name}", found))
        for cls in tree.body:
            if isinstance(cls, ast.ClassDef) and cls.name == "NotificationHandler":
                rd = next((n for n in cls.body if isinstance(n, ast.FunctionDef) and n.name == "register_defaults"), None)
                seqs = {st.targets[0].id: st.value for st in tree.body if isinstance(st, ast.Assign) and len(st.targets) == 1
                        and isinstance(st.targets[0], ast.Name) and isinstance(st.value, (ast.List, ast.Tuple))}
                loop = None
                for n in (ast.walk(rd) if rd else []):
                    if isinstance(n, ast.For):
                        it = n.iter
                        if isinstance(it, ast.Name) and it.id in seqs:  # the list lives in a module-level constant
                            it = seqs[it.id]
                        if isinstance(it, (ast.List, ast.Tuple)):
                            loop = it
                            break
                if loop is None:
                    bad.append(f"{rel}: NotificationHandler.register_defaults: list of methods not found")
                else:
                    for e in loop.elts:
                        m = resolve(e, f"{rel}:{e.lineno}")
                        if m is not None:
                            defaults.append(m)

    # sender / handler pairs that speak about the same notification (same name after send_/handle_)
    pairs = []
    for sn, sm in senders:
        stem = sn.rsplit(".", 1)[1][len("send_"):]
        for hn, hm in handlers:
            if hn.rsplit(".", 1)[1][len("handle_"):] == stem:
                pairs.append((stem, sm, hm))

    # -- completion truncation limit ------------------------------------------------------------
    limit = None
    try:
        tree = ast.parse((msgs / "completions" / "send_messages.py").read_text())
        fn = next(n for n in ast.walk(tree) if isinstance(n, ast.AsyncFunctionDef) and n.name == "handle_completion_request")
        mconsts = {}
        for st in tree.body:  # module-level integer constants (a limit may be named)
            if isinstance(st, ast.Assign) and len(st.targets) == 1 and isinstance(st.targets[0], ast.Name) \
                    and isinstance(st.value, ast.Constant) and type(st.value.value) is int:
                mconsts[st.targets[0].id] = st.value.value

        def ival(e):
            if isinstance(e, ast.Constant) and type(e.value) is int:
                return e.value
            if isinstance(e, ast.Name) and e.id in mconsts:
                return mconsts[e.id]
            return None

        gts = [ival(n.comparators[0]) for n in ast.walk(fn) if isinstance(n, ast.Compare) and len(n.ops) == 1 and isinstance(n.ops[0], ast.Gt)
               and ival(n.comparators[0]) is not None]
        sls = [ival(n.slice.upper) for n in ast.walk(fn) if isinstance(n, ast.Subscript) and isinstance(n.slice, ast.Slice)
               and n.slice.lower is None and n.slice.upper is not None and ival(n.slice.upper) is not None]
        if len(gts) == 1 and sls == gts:
            limit = gts[0]
        else:
            bad.append(f"completions/send_messages.py: truncation limit not in the expected shape (> {gts}, [:{sls}])")
    except Exception as ex:  # noqa: BLE001
        bad.append(f"completions/send_messages.py: handle_completion_request not found ({ex!r})")

    # -- exception default codes ----------------------------------------------------------------
    codes = {"ProtocolError": None, "ValidationError": None, "VersionMismatchError": None}
    try:
        tree = ast.parse((src / "protocol" / "types" / "errors.py").read_text())
        consts = {}
        for st in tree.body:
            if isinstance(st, ast.Assign) and len(st.targets) == 1 and isinstance(st.targets[0], ast.Name):
                try:
                    v = ast.literal_eval(st.value)
                    if type(v) is int:
                        consts[st.targets[0].id] = v
                except Exception:  # noqa: BLE001
                    pass

        def const(e):
            if isinstance(e, ast.Name) and e.id in consts:
                return consts[e.id]
            v = ast.literal_eval(e)
            if type(v) is not int:
                raise ValueError("not an int")
            return v

        for cls in tree.body:
            if isinstance(cls, ast.ClassDef) and cls.name in ("ProtocolError", "ValidationError"):
                init = next(n for n in cls.body if isinstance(n, ast.FunctionDef) and n.name == "__init__")
                names = [a.arg for a in init.args.args]
                d = init.args.defaults[names.index("code") - (len(names) - len(init.args.defaults))]
                codes[cls.name] = const(d)
            if isinstance(cls, ast.ClassDef) and cls.name == "VersionMismatchError":
                init = next(n for n in cls.body if isinstance(n, ast.FunctionDef) and n.name == "__init__")
                call = next(c for c in ast.walk(init) if isinstance(c, ast.Call) and getattr(c.func, "attr", None) == "__init__")
                codes[cls.name] = const(call.args[1])
    except Exception as ex:  # noqa: BLE001
        bad.append(f"types/errors.py: exception default codes not found ({ex!r})")
    for k, v in codes.items():
        if v is None and not any("errors.py" in b for b in bad):
            bad.append(f"types/errors.py: default code of {k} not found")

    ok = "true" if not bad else "false"
    pl = lambda xs: "[" + ", ".join(f"({_s(a)}, {_s(b)})" for a, b in xs) + "]"  # noqa: E731
    lean = f"""-- GENERATED by py/verifpy/translate_rpc.py from /repo/src. Do not edit.
namespace Verif.Gen.Methods

/-- false when some fragment was outside the translator's subset (see the check's report) -/
def translatable : Bool := {ok}

/-- `MessageMethod`: (member name, value) -/
def methods : List (String × String) := {pl(sorted(enum.items()))}

/-- every `send_*_notification`: (function, method it emits) -/
def senders : List (String × String) := {pl(senders)}

/-- every `handle_*_notification`: (function, method it listens to) -/
def handlers : List (String × String) := {pl(handlers)}

/-- sender / handler of the same notification: (stem, method sent, method listened to) -/
def pairs : List (String × String × String) := [{", ".join(f"({_s(a)}, {_s(b)}, {_s(c)})" for a, b, c in pairs)}]

/-- `NotificationHandler.register_defaults` -/
def defaults : List String := [{", ".join(_s(m) for m in defaults)}]

/-- `CompletionProvider.handle_completion_request`: at most this many values are returned -/
def completionLimit : Nat := {limit if limit is not None else 0}

def protocolErrorDefault : Int := {codes["ProtocolError"] if codes["ProtocolError"] is not None else 0}
def validationErrorDefault : Int := {codes["ValidationError"] if codes["ValidationError"] is not None else 0}
def versionMismatchCode : Int := {codes["VersionMismatchError"] if codes["VersionMismatchError"] is not None else 0}

end Verif.Gen.Methods
"""
    report = {"file": "Gen/Methods.lean", "untranslatable": bad, "methods": len(enum), "senders": len(senders),
              "handlers": len(handlers), "defaults": len(defaults), "completionLimit": limit, "codes": codes}
    return lean, report
