"""Virtual-time asyncio event loop for the timed correspondence runs.

* `time()` is a counter.  It only advances when nothing is runnable: to the earlier of the
  next live timer and the next scripted event.
* All virtual instants used by the harness are multiples of TICK = 1/1024 s, so every
  float the real code computes (t + 0.5, t + timeout) is exact and ties are real ties.
* Scripted events (`loop.at(tick, fn)`) are injected by the loop itself.  At an instant where
  both a timer and a scripted event are due, `tie` decides: "events" = scripted events happen
  (and the tasks they wake run) before the timers' callbacks run, "timers" = after, "io" = the
  event happens before the timer callbacks but the tasks it wakes run after them (what a real
  reader task feeding the stream produces).
"""
from __future__ import annotations

import asyncio
import heapq

TICKS_PER_S = 1024
TICK = 1.0 / TICKS_PER_S


class VirtualLoop(asyncio.SelectorEventLoop):
    def __init__(self, *a, **k):
        super().__init__(*a, **k)
        self._vnow = 0.0
        self._script: list = []
        self._seq = 0
        self.tie = "events"
        self.max_virtual = 10_000_000.0  # safety

    def time(self):
        return self._vnow

    @property
    def ticks(self) -> int:
        return round(self._vnow * TICKS_PER_S)

    def at(self, tick: int, fn):
        """Schedule `fn()` at absolute virtual tick `tick`."""
        self._seq += 1
        heapq.heappush(self._script, (tick * TICK, self._seq, fn))

    def reset_clock(self):
        self._vnow = 0.0
        self._script.clear()

    def _fire_due(self):
        fired = False
        while self._script and self._script[0][0] <= self._vnow:
            _, _, fn = heapq.heappop(self._script)
            fn()
            fired = True
        return fired

    def _run_once(self):
        # drop cancelled timers at the head (as the base class does lazily)
        sched = self._scheduled
        while sched and sched[0]._cancelled:
            h = heapq.heappop(sched)
            h._scheduled = False
            self._timer_cancelled_count = max(0, self._timer_cancelled_count - 1)
        if not self._ready:
            cands = []
            if sched:
                cands.append(sched[0]._when)
            if self._script:
                cands.append(self._script[0][0])
            if cands:
                target = min(cands)
                if target > self._vnow:
                    self._vnow = target
        if self.tie == "events":
            if self._fire_due():
                self.call_soon(_noop)
            super()._run_once()
        elif self.tie == "io":
            # the order a real transport produces: the event is the work of a callback that is
            # already queued when the timers of this instant are collected, so it happens BEFORE
            # the timer callbacks run, but the tasks it wakes run AFTER them
            if self._script and self._script[0][0] <= self._vnow:
                self.call_soon(self._fire_due)
            super()._run_once()
        else:
            # timers first: let the base class move due timers to the ready queue and run
            # them; then inject the events of this instant
            if not self._ready and not (sched and sched[0]._when <= self._vnow):
                # nothing but events are due now: avoid a blocking select()
                self.call_soon(_noop)
            super()._run_once()
            if self._fire_due():
                self.call_soon(_noop)


def _noop():
    return None


def run(main, *args, tie="events"):
    """Run `main(*args)` under anyio on a fresh VirtualLoop."""
    import anyio

    def factory():
        loop = VirtualLoop()
        loop.tie = tie
        return loop

    return anyio.run(main, *args, backend="asyncio", backend_options={"loop_factory": factory})
