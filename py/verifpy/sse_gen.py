"""Generators for C12: high-level session scripts -> harness run spec + Lean driver line.

A case is the HIGH-LEVEL script (JSON); bytes, chunks and the driver line are derived from it by
`build`, so that shrinking a case keeps everything consistent.

  base      parameters.url
  T         timeout (ticks); tie
  conn      {"k": "ok"|"status"|"error"|"hang", "at": tick, "code": int}
  items     event-stream script (rendered to bytes in order):
              {"k":"endpoint","form":F,"pad":bool,"crlf":bool}
              {"k":"msg","m":<json object>,"typed":bool,"crlf":bool,"valid":bool}
              {"k":"raw","text":str}                     verbatim lines (junk, comments, keepalive)
  cuts      byte offsets at which the rendered stream is cut into chunks
  t0, gap   chunk i is released at tick t0 + i*gap
  close     null | ticks after the last chunk at which the server ends the stream
  reqs      [{"id","at","mode","d","ed","cuts","gap","code","body","typed","tiePostFirst"}]
  exit      {"k","at"}
"""
from __future__ import annotations

import codecs
import json

_LITS = None


def lits():
    """Source literals the generator uses (informational, see translate_sse.py): the connection
    cap in ticks (None = the running code shows no cap), whether the codes of the synthesised
    errors are known, and notes for the evidence file.  The cap is read from the source when it
    can be located, otherwise measured once on the running code (entry outcome with a connection
    that never answers and a very long timeout)."""
    global _LITS
    if _LITS is not None:
        return _LITS
    from . import core, translate_sse
    vals, notes = translate_sse.extract(core.REPO / "src" / "chuk_mcp")
    out = {"timeout_code": vals["timeout_code"], "fail_codes": vals["fail_codes"], "codes_known": "codes" in vals["found"],
           "notes": list(notes), "cap_source": "source"}
    if "cap" in vals["found"]:
        out["cap"] = round(vals["cap_ms"] * 1024 / 1000)
    else:
        from . import sse_h
        big = 4096 * 1024
        o = sse_h.run_case({"base": "http://h.test", "T": big, "tie": "events", "conn": {"k": "hang"}, "chunks": [], "close": None,
                            "bounds": [], "reqs": [], "exit": {"k": "normal", "at": 1}})
        t = (o.get("enter") or {}).get("t")
        out["cap"] = t if isinstance(t, int) and 0 < t < big else None
        out["cap_source"] = "measured"
    out["notes"].append(f"connection cap = {out['cap']} ticks ({out['cap_source']}); synthesised error codes "
                        + (f"timeout {out['timeout_code']}, failure {out['fail_codes']} (source)" if out["codes_known"] else "not located: compared without codes"))
    _LITS = out
    return out


def cap():
    """connection cap in ticks as far as the model is concerned (no cap = beyond every timeout used)"""
    c = lits()["cap"]
    return c if c is not None else 10 ** 9


T_DEFAULT = 2048
TIES = ("events", "timers", "io")  # order of scripted events vs timers at equal instants (vloop.py)

ENDPOINT_FORMS = {
    # name: (data text, base url needed or None)
    "abs": ("/messages/?session_id=s1", None),
    "abs-mcp": ("/mcp?session_id=s1b", None),
    "url": ("http://other.test/mcp?session_id=s2", None),
    "query": ("session_id=s3", "http://h.test"),
    "query-msgbase": ("session_id=s4&x=1", "http://h.test/messages/v1"),
    "dataonly-messages": ("/messages/?session_id=s5", None),
    "dataonly-mcp": ("http://h.test/mcp?session_id=s6", None),
}
DATAONLY = {"dataonly-messages", "dataonly-mcp"}


def burst_msg(i):
    return {"k": "msg", "m": {"jsonrpc": "2.0", "method": "notifications/progress", "params": {"seq": i}}, "typed": bool(i % 3)}


def items_of(case):
    """the event-stream script with every {"k":"burst","n":N,"start":S} expanded to N notifications"""
    out = []
    for it in case.get("items", []):
        if it["k"] == "burst":
            out += [burst_msg(it.get("start", 0) + i) for i in range(it["n"])]
        else:
            out.append(it)
    return out


def render_item(it) -> str:
    nl = "\r\n" if it.get("crlf") else "\n"
    k = it["k"]
    if k == "endpoint":
        data = ENDPOINT_FORMS[it["form"]][0]
        if it.get("pad"):
            data = "  " + data + " \t"
        head = "" if it["form"] in DATAONLY else "event: endpoint" + nl
        return head + "data: " + data + nl + nl
    if k == "msg":
        data = json.dumps(it["m"], separators=(",", ":"), ensure_ascii=False)
        head = "event: message" + nl if it.get("typed", True) else ""
        return head + "data: " + data + nl + nl
    if k == "raw":
        return it["text"]
    raise ValueError(k)


def stream_bytes(case) -> bytes:
    return "".join(render_item(it) for it in items_of(case)).encode("utf-8")


def item_bounds(case):
    out, pos = [], 0
    for it in items_of(case):
        pos += len(render_item(it).encode("utf-8"))
        out.append(pos)
    return out


def chunk_plan(case):
    """[(tick, bytes)] and the close tick"""
    from .sse_h import cut_bytes
    b = stream_bytes(case)
    t0, gap = case.get("t0", 1), case.get("gap", 1)
    cuts = case.get("cuts", [])
    if cuts == "items":  # one chunk per event
        cuts = item_bounds(case)
    pieces = cut_bytes(b, cuts) if b else []
    plan = [(t0 + i * gap, p) for i, p in enumerate(pieces)]
    last = plan[-1][0] if plan else t0
    close = None if case.get("close") is None else last + case["close"]
    return plan, close


MODE_POST = {"200": "200", "evack": "202", "ackev": "202", "silence": "202", "status": "status", "exc": "exc"}


def harness_case(case):
    plan, close = chunk_plan(case)
    reqs = []
    for r in case.get("reqs", []):
        post = {"k": MODE_POST[r["mode"]], "d": r.get("d", 4), "code": r.get("code", 500), "body": r.get("body", "text")}
        ev = None
        if r["mode"] in ("evack", "ackev"):
            ev = {"d": r["ed"], "cuts": r.get("cuts", []), "gap": r.get("gap", 0), "typed": r.get("typed", True),
                  "after_post_at_tie": bool(r.get("tiePostFirst"))}
        reqs.append({"id": r["id"], "at": r["at"], "post": post, "ev": ev})
    return {
        "base": case.get("base", "http://h.test"), "T": case.get("T", T_DEFAULT), "tie": case.get("tie", "events"),
        "conn": case.get("conn", {"k": "ok", "at": 0}),
        "chunks": [[t, p.hex()] for t, p in plan], "close": close, "bounds": item_bounds(case),
        "reqs": reqs, "exit": case.get("exit", {"k": "normal", "at": 50}), "pause": case.get("pause", 0),
    }


def py_key(v):
    """str(id) as `_handle_message_event` computes it"""
    return None if v is None else str(v)


def model_line(case):
    """The same case for the Lean model: decoded text chunks (httpx decodes incrementally, so a
    character cut by a chunk boundary appears with the chunk that completes it)."""
    plan, close = chunk_plan(case)
    dec = codecs.getincrementaldecoder("utf-8")("replace")
    chunks = []
    for t, p in plan:
        s = dec.decode(p)
        chunks.append([t + case.get("conn", {}).get("at", 0) * 0, [ord(c) for c in s]])
    conn = case.get("conn", {"k": "ok", "at": 0})
    # chunks scripted before the GET is answered are released when it is answered
    c_at = conn.get("at", 0)
    chunks = [[max(t, c_at), s] for t, s in chunks]
    if close is not None:
        close = max(close, c_at)
    table = []
    for it in items_of(case):
        if it["k"] == "msg":
            data = json.dumps(it["m"], separators=(",", ":"), ensure_ascii=False)
            table.append({"d": [ord(c) for c in data], "key": py_key(it["m"].get("id")) if isinstance(it["m"], dict) else None,
                          "ok": bool(it.get("valid", True))})
    reqs = []
    for r in case.get("reqs", []):
        m = {"200": "body", "evack": "evack", "ackev": "ackev", "silence": "silence", "status": "other", "exc": "exc"}[r["mode"]]
        e = {"key": r["id"], "mode": m}
        if m == "other":
            body = r.get("body", "text")
            if body == "rpc":
                e["b"] = {"key": r["id"], "ok": True}
            elif body == "detail":
                e["b"] = {"key": None, "ok": True}
            else:
                e["b"] = None
        reqs.append(e)
    return {"m": "ssereq", "url": case.get("base", "http://h.test"), "T": case.get("T", T_DEFAULT), "cap": cap(),
            "conn": conn, "chunks": chunks, "close": close, "dec": table, "reqs": reqs}


# ------------------------------------------------------------------ reference reading (oracle)
def expected_srv(case):
    """Server messages the script puts on the event stream as complete, well-formed events."""
    return [it["m"] for it in items_of(case) if it["k"] == "msg" and it.get("valid", True)]


def announce_tick(case):
    """Tick at which the last byte of the first endpoint announcement is released (None if the
    script contains none, or the connection never gets that far)."""
    conn = case.get("conn", {"k": "ok", "at": 0})
    if conn["k"] != "ok":
        return None
    pos = 0
    end = None
    for it in items_of(case):
        b = render_item(it).encode("utf-8")
        if it["k"] == "endpoint":
            # the announcement is complete with the line feed that ends its data line
            nl = 2 if it.get("crlf") else 1
            end = pos + len(b) - nl
            break
        pos += len(b)
    if end is None:
        return None
    plan, close = chunk_plan(case)
    off = 0
    for t, p in plan:
        off += len(p)
        if off >= end:
            t = max(t, conn.get("at", 0))
            if close is not None and max(close, conn.get("at", 0)) < t:
                return None
            return t
    return None


# ------------------------------------------------------------------ building blocks
EP = {"k": "endpoint", "form": "abs"}


def msg_notif(i):
    return {"k": "msg", "m": {"jsonrpc": "2.0", "method": "notifications/message", "params": {"n": i}}, "typed": True}


def msg_srvreq(i):
    return {"k": "msg", "m": {"jsonrpc": "2.0", "id": 1000 + i, "method": "ping"}, "typed": bool(i % 2)}


def msg_foreign_resp(i):
    return {"k": "msg", "m": {"jsonrpc": "2.0", "id": f"zz-{i}", "result": {"late": i}}, "typed": True}


def msg_unicode(i):
    return {"k": "msg", "m": {"jsonrpc": "2.0", "method": "notifications/message", "params": {"t": "hé€\U0001f600  x", "i": i}}, "typed": False}


def msg_invalid(i):
    # accepted by json.loads, rejected by JSONRPCMessage.model_validate: dropped alone
    return {"k": "msg", "m": {"jsonrpc": "2.0", "id": f"bad-{i}", "result": None, "error": None, "method": 5}, "typed": True, "valid": False}


JUNK = [
    {"k": "raw", "text": ": ping\n"},
    {"k": "raw", "text": "event: keepalive\ndata: {\"jsonrpc\":\"2.0\",\"method\":\"not/delivered\"}\n\n"},
    {"k": "raw", "text": "data: plain text\n\n"},
    {"k": "raw", "text": "event: message\ndata: [1,2]\n\n"},
    {"k": "raw", "text": "event: message\ndata: {not json\n\n"},
    {"k": "raw", "text": "retry: 1000\nid: 7\n\n"},
    {"k": "raw", "text": "\r\n\n"},
    {"k": "raw", "text": "event: other\ndata: héllo €\n\n"},
]


def base_for(form):
    return ENDPOINT_FORMS[form][1] or "http://h.test"


def probe_req(i=1, at=2):
    return {"id": f"r{i}", "at": at, "mode": "200", "d": 2}


def exit_after(case):
    """normal exit late enough for every request to have finished"""
    T = case.get("T", T_DEFAULT)
    at = 20
    for r in case.get("reqs", []):
        at = max(at, r["at"]) + r.get("d", 4) + r.get("ed", 0) + len(r.get("cuts", [])) * r.get("gap", 0) + 10
        if r["mode"] == "silence":
            at += T
    plan, close = chunk_plan(case)
    if plan:
        at = max(at, plan[-1][0] + 10)
    return {"k": "normal", "at": at + 20 + case.get("pause", 0)}


def finish(case):
    case.setdefault("exit", exit_after(case))
    return case


# ------------------------------------------------------------------ suites' case lists
def establish_cases(budget, rng):
    out = []
    ties = TIES
    # (a) announced in each accepted form
    for form in ENDPOINT_FORMS:
        for crlf in (False, True):
            for pad in (False, True):
                for a in (1, 700, T_DEFAULT - 1):
                    for tie in ties:
                        if budget == "quick" and (crlf != pad) and a != 1:
                            continue
                        pre = [msg_notif(0)] if a == 700 else []
                        c = {"base": base_for(form), "tie": tie, "conn": {"k": "ok", "at": 0},
                             "items": pre + [{"k": "endpoint", "form": form, "pad": pad, "crlf": crlf}, msg_notif(1)],
                             "cuts": [], "t0": a, "gap": 0, "reqs": [probe_req()]}
                        out.append(finish(c))
    # (b) 4xx/5xx, (c) connect error, (f) hang
    for tie in ties:
        for at in (0, 5, T_DEFAULT - 1, T_DEFAULT + 5):
            for code in (404, 500, 401, 503, 301, 204):
                out.append(finish({"tie": tie, "conn": {"k": "status", "at": at, "code": code}, "items": [EP], "reqs": [probe_req()]}))
            out.append(finish({"tie": tie, "conn": {"k": "error", "at": at}, "items": [EP], "reqs": [probe_req()]}))
        out.append(finish({"tie": tie, "conn": {"k": "hang"}, "items": [EP], "reqs": [probe_req()]}))
        # (d) 200 with an empty / never-announcing stream
        for close in (0, 3, 900):
            out.append(finish({"tie": tie, "conn": {"k": "ok", "at": 2}, "items": [], "close": close, "reqs": [probe_req()]}))
            out.append(finish({"tie": tie, "conn": {"k": "ok", "at": 2}, "items": [msg_notif(1), JUNK[0], JUNK[2]], "t0": 4, "close": close, "reqs": [probe_req()]}))
        out.append(finish({"tie": tie, "conn": {"k": "ok", "at": 2}, "items": [], "close": None, "reqs": [probe_req()]}))
        out.append(finish({"tie": tie, "conn": {"k": "ok", "at": 2}, "items": [msg_notif(1), JUNK[1], JUNK[7]], "t0": 9, "close": None, "reqs": [probe_req()]}))
        # announcement cut before its final line feed and never completed, then the stream ends
        out.append(finish({"tie": tie, "conn": {"k": "ok", "at": 0}, "items": [{"k": "raw", "text": "event: endpoint\ndata: /messages/?session_id=cut"}], "close": 5, "reqs": [probe_req()]}))
        # announcement, then the stream ends: connection was announced (yield is legitimate)
        out.append(finish({"tie": tie, "conn": {"k": "ok", "at": 0}, "items": [EP], "t0": 3, "close": 40, "reqs": []}))
        # (e) slow announcement around the timeout; slow connection around the cap
        for a in (T_DEFAULT - 2, T_DEFAULT + 1, T_DEFAULT + 700):
            out.append(finish({"tie": tie, "conn": {"k": "ok", "at": 1}, "items": [EP], "t0": a, "reqs": [probe_req()]}))
        if lits()["cap"] is not None:
            CAP = lits()["cap"]
            for c_at in (CAP - 3, CAP + 3, CAP + 900):
                out.append(finish({"tie": tie, "T": CAP + 5 * 1024, "conn": {"k": "ok", "at": c_at}, "items": [EP], "t0": c_at + 3, "reqs": [probe_req()]}))
                out.append(finish({"tie": tie, "T": CAP + 5 * 1024, "conn": {"k": "status", "at": c_at, "code": 404}, "items": [], "reqs": [probe_req()]}))
        for T in (512, 1024, 16 * 1024):
            out.append(finish({"tie": tie, "T": T, "conn": {"k": "ok", "at": 1}, "items": [], "close": None, "reqs": []}))
            out.append(finish({"tie": tie, "T": T, "conn": {"k": "hang"}, "items": [], "reqs": []}))
    # seeded mixtures
    n = 150 if budget == "quick" else 6000
    for i in range(n):
        out.append(seeded_establish(rng))
    return out


def seeded_establish(rng):
    T = rng.choice([512, 2048, 2048, 3000])
    r = rng.random()
    items = []
    for _ in range(rng.randint(0, 2)):
        items.append(rng.choice([msg_notif(rng.randint(0, 9)), rng.choice(JUNK), msg_unicode(1)]))
    announced = rng.random() < 0.6
    if announced:
        form = rng.choice(list(ENDPOINT_FORMS))
        items.append({"k": "endpoint", "form": form, "pad": rng.random() < 0.3, "crlf": rng.random() < 0.3})
        base = base_for(form)
    else:
        base = "http://h.test"
    for _ in range(rng.randint(0, 2)):
        items.append(rng.choice([msg_notif(rng.randint(10, 19)), rng.choice(JUNK), msg_srvreq(rng.randint(0, 5))]))
    if r < 0.55:
        conn = {"k": "ok", "at": rng.choice([0, 1, 17, 400])}
    elif r < 0.75:
        conn = {"k": "status", "at": rng.choice([0, 3, 900]), "code": rng.choice([400, 403, 404, 500, 502])}
    elif r < 0.9:
        conn = {"k": "error", "at": rng.choice([0, 3, 900])}
    else:
        conn = {"k": "hang"}
    nbytes = len("".join(render_item(it) for it in items).encode("utf-8"))
    cuts = sorted(set(rng.randint(1, max(1, nbytes - 1)) for _ in range(rng.randint(0, 3)))) if nbytes > 1 else []
    t0 = rng.choice([1, 5, 300, T - 30, T + 30])
    gap = rng.choice([0, 1, 7])
    if t0 + gap * len(cuts) == T or (t0 <= T <= t0 + gap * len(cuts) and gap and (T - t0) % gap == 0):
        t0 += 1
    c = {"base": base, "T": T, "tie": rng.choice(list(TIES)), "conn": conn, "items": items, "cuts": cuts,
         "t0": t0, "gap": gap, "close": rng.choice([None, None, 0, 5, 60]), "reqs": [probe_req()]}
    if conn.get("at") == T:
        conn["at"] += 1
    return finish(c)


REQ_MODES = [
    {"mode": "200"},
    {"mode": "evack", "d": 9, "ed": 3},
    {"mode": "ackev", "d": 3, "ed": 9},
    {"mode": "silence", "d": 3},
    {"mode": "status", "code": 500, "body": "text"},
    {"mode": "status", "code": 404, "body": "empty"},
    {"mode": "status", "code": 500, "body": "detail"},
    {"mode": "status", "code": 400, "body": "rpc"},
    {"mode": "exc"},
]


def mk_req(i, at, spec, **kw):
    r = {"id": f"r{i}", "at": at, "d": 4}
    r.update(spec)
    r.update(kw)
    return r


EV_LEN = len('event: message\ndata: {"jsonrpc":"2.0","id":"r1","result":{"tag":"ev"}}\n\n')


def request_cases(budget, rng):
    out = []
    T = 1024
    bg = [EP, msg_notif(1), JUNK[0], msg_srvreq(1), JUNK[3], msg_foreign_resp(2), msg_unicode(3), msg_invalid(4), msg_srvreq(2)]
    # single requests: every mode x tie x placement of the background traffic
    for spec in REQ_MODES:
        for tie in TIES:
            for gap in (0, 2, 5):
                c = {"T": T, "tie": tie, "items": list(bg), "cuts": [46, 60, 110, 150, 205, 300], "t0": 1, "gap": gap,
                     "reqs": [mk_req(1, 3, spec)]}
                out.append(finish(c))
    # the race: every relative placement of POST completion and event arrival, event cut in pieces
    for d in (2, 5, 9):
        for ed in (1, 2, 4, 5, 6, 9, 12):
            for cuts, gap in (([], 0), ([20], 0), ([20], 3), ([7, 40], 1), ([EV_LEN - 1], 2), ([EV_LEN - 2, EV_LEN - 1], 0)):
                for tie in TIES:
                    last = ed + len(cuts) * gap
                    if ed <= d <= last and ed != last:
                        continue  # pieces straddling the POST completion: order decided by the last piece
                    mode = "evack" if last < d else "ackev"
                    for typed in (True, False):
                        for tpf in ((False, True) if last == d else (False,)):
                            c = {"T": T, "tie": tie, "items": [EP, msg_notif(1)], "t0": 1, "gap": 0,
                                 "reqs": [mk_req(1, 3, {"mode": mode, "d": d, "ed": ed, "cuts": cuts, "gap": gap, "typed": typed, "tiePostFirst": tpf})]}
                            if budget == "quick" and not typed and (cuts or tie == "timers"):
                                continue
                            out.append(finish(c))
    # straddling pieces (first piece before the 202, last piece after it)
    for tie in TIES:
        for cuts, gap in (([20], 4), ([7, 40], 3)):
            c = {"T": T, "tie": tie, "items": [EP], "t0": 1, "gap": 0,
                 "reqs": [mk_req(1, 3, {"mode": "ackev", "d": 5, "ed": 3, "cuts": cuts, "gap": gap})]}
            out.append(finish(c))
    # pairs and triples of serial requests (the second is written while the first is in flight)
    k = 0
    for a in REQ_MODES:
        for b in REQ_MODES:
            k += 1
            tie = TIES[k % 3]
            c = {"T": T, "tie": tie, "items": [EP, msg_notif(k), msg_srvreq(k)], "cuts": [50], "t0": 1, "gap": 6,
                 "reqs": [mk_req(1, 3, a), mk_req(2, 4 + (k % 3) * 4, b)]}
            out.append(finish(c))
    n = 120 if budget == "quick" else 5000
    for i in range(n):
        nreq = rng.randint(1, 4)
        reqs, at = [], 2
        for j in range(nreq):
            spec = dict(rng.choice(REQ_MODES))
            if spec["mode"] in ("evack", "ackev"):
                d, ed = rng.sample(range(1, 14), 2)
                spec.update(d=d, ed=ed, mode="evack" if ed < d else "ackev", typed=rng.random() < 0.8)
                if rng.random() < 0.4 and spec["mode"] == "ackev":
                    spec.update(cuts=sorted(rng.sample(range(1, EV_LEN), rng.randint(1, 2))), gap=rng.randint(0, 3))
            reqs.append(mk_req(j + 1, at, spec))
            at += rng.randint(0, 12)
        items = [EP] + [rng.choice([msg_notif(rng.randint(0, 99)), msg_srvreq(rng.randint(0, 9)), rng.choice(JUNK), msg_foreign_resp(rng.randint(0, 9)),
                                    msg_unicode(rng.randint(0, 9)), msg_invalid(rng.randint(0, 9))]) for _ in range(rng.randint(0, 6))]
        nbytes = len("".join(render_item(it) for it in items).encode("utf-8"))
        cuts = sorted(set(rng.randint(1, nbytes - 1) for _ in range(rng.randint(0, 5))))
        c = {"T": rng.choice([256, 1024]), "tie": rng.choice(list(TIES)), "items": items, "cuts": cuts, "t0": 1,
             "gap": rng.choice([0, 1, 4, 9]), "reqs": reqs}
        out.append(finish(c))
    return out


CHUNK_STREAMS = [
    # short: every 1- and 2-cut
    [{"k": "endpoint", "form": "abs", "crlf": True}, {"k": "msg", "m": {"jsonrpc": "2.0", "method": "n/é"}, "typed": True}],
    [{"k": "endpoint", "form": "dataonly-mcp"}, {"k": "msg", "m": {"jsonrpc": "2.0", "id": 5, "method": "ping"}, "typed": False, "crlf": True}],
    # longer: every 1-cut, seeded 2- and 3-cuts
    [JUNK[0], msg_notif(0), {"k": "endpoint", "form": "query", "pad": True}, msg_unicode(1), JUNK[1], msg_srvreq(1), JUNK[7], JUNK[4], msg_invalid(2),
     {"k": "msg", "m": {"jsonrpc": "2.0", "method": "notifications/message", "params": {"k": 2}}, "typed": True, "crlf": True}, JUNK[5], msg_foreign_resp(3)],
]


def chunk_cases(budget, rng):
    out = []
    for si, items in enumerate(CHUNK_STREAMS):
        form = [it for it in items if it["k"] == "endpoint"][0]["form"]
        base_case = {"base": base_for(form), "T": T_DEFAULT, "items": items, "t0": 1, "reqs": [probe_req(1, 2)]}
        n = len(stream_bytes(base_case))
        cutsets = [[]] + [[i] for i in range(1, n)]
        if si < 2:
            step = 1 if budget != "quick" else 2
            cutsets += [[i, j] for i in range(1, n) for j in range(i + 1, n)][::step]
        else:
            m = 250 if budget == "quick" else 6000
            for _ in range(m):
                cutsets.append(sorted(set(rng.randint(1, n - 1) for _ in range(rng.randint(2, 4)))))
        for ci, cuts in enumerate(cutsets):
            c = dict(base_case, cuts=cuts, gap=(0, 1, 3)[ci % 3], tie=TIES[(ci // 3) % 3])
            out.append(finish(c))
    return out


EXIT_KINDS = ["normal", "exception", "cancel-asyncio", "cancel-anyio"]


def exit_cases(budget, rng):
    out = []
    T = 256
    specs = [{"mode": "200", "d": 6}, {"mode": "ackev", "d": 4, "ed": 12, "cuts": [30], "gap": 3}, {"mode": "evack", "d": 12, "ed": 4},
             {"mode": "silence", "d": 4}, {"mode": "exc", "d": 6}, {"mode": "status", "d": 6, "body": "text"}]
    for spec in specs:
        # points of the request's life (ticks after entering; the request is written at 5)
        pts = [0, 4, 5, 6, 8, 9, 11, 13, 15, 17, 18, 20, 30, 5 + 4 + T - 1, 5 + 4 + T, 5 + 4 + T + 1, 5 + 4 + T + 30]
        if spec["mode"] != "silence":
            pts = pts[:13]
        for ek in EXIT_KINDS:
            for at in pts:
                for tie in TIES:
                    if budget == "quick" and tie == "timers" and at % 2:
                        continue
                    c = {"T": T, "tie": tie, "items": [EP, msg_notif(1), msg_srvreq(2)], "cuts": [60], "t0": 1, "gap": 10 + at,
                         "reqs": [mk_req(1, 5, spec), mk_req(2, 7, {"mode": "200", "d": 2})], "exit": {"k": ek, "at": at}}
                    out.append(c)
    # no request at all
    for ek in EXIT_KINDS:
        out.append({"T": T, "items": [EP], "reqs": [], "exit": {"k": ek, "at": 9}})
    # NOT generated (outside the property's quantifier: the server ends the event stream after
    # announcing the endpoint): {"items":[EP],"close":3,"reqs":[silence],"exit":{"k":"normal","at":40}}
    # makes `_cleanup` wait for ever for `_outgoing_task` on the pinned code.
    return out



def backpressure_cases(budget, rng):
    """The consumer does not read for a while: bursts around the size of the transport's read
    buffer (100) queue up, in one chunk and in many, then everything is drained; also a request
    whose answer travels behind the burst (on the event stream, and in the POST reply)."""
    out = []
    T = 1024
    k = 0
    for n in (0, 1, 99, 100, 101, 150, 400):
        for cuts, gap in (([], 0), ("items", 0), ("items", 1), ([97, 1234, 5000], 2)):
            for req in (None, {"mode": "ackev", "d": 2, "ed": 4}, {"mode": "200", "d": 3}, {"mode": "silence", "d": 2}):
                k += 1
                if n == 400 and (k % 2 or req is not None and req["mode"] == "silence"):
                    continue
                if budget == "quick" and n in (0, 1, 99) and (cuts != "items" or gap):
                    continue
                tie = TIES[k % 3]
                c = {"T": T, "tie": tie, "items": [EP, {"k": "burst", "n": n, "start": 0}, msg_srvreq(7)], "cuts": cuts, "t0": 1,
                     "gap": gap, "pause": 60 + (k % 4) * 25, "reqs": [mk_req(1, 3, req)] if req else []}
                if req and req["mode"] == "silence":
                    c["T"] = 128
                    c["pause"] = 30 + 128  # the synthesised timeout error also queues behind the burst
                out.append(finish(c))
    # two bursts with a pause in between, and reading that starts in the middle of the burst
    for tie in TIES:
        out.append(finish({"T": T, "tie": tie, "items": [EP, {"k": "burst", "n": 120, "start": 0}, msg_srvreq(1), {"k": "burst", "n": 120, "start": 120}],
                           "cuts": "items", "t0": 1, "gap": 1, "pause": 130, "reqs": [mk_req(1, 3, {"mode": "ackev", "d": 2, "ed": 4})]}))
        out.append(finish({"T": T, "tie": tie, "items": [EP, {"k": "burst", "n": 250, "start": 0}], "cuts": [], "t0": 1, "gap": 0, "pause": 0, "reqs": []}))
    return out
