"""Generators for C12: high-level session scripts -> harness run spec + Lean driver line.

A case is the HIGH-LEVEL script (JSON); bytes, chunks and the driver line are derived from it by
`build`, so that shrinking a case keeps everything consistent.

  base      parameters.url
  T         timeout (ticks); tie
  conn      {"k": "ok"|"status"|"error"|"hang", "at": tick, "code": int}
  items     event-stream script (rendered to bytes in order):
              {"k":"endpoint","form":F,"pad":bool,"crlf":bool}
              {"k":"msg","m":<json object>,"typed":bool,"crlf":bool,"valid":bool}
              {"k":"raw","text":str}                     verbatim lines (junk, comments, keepalive)
  cuts      byte offsets at which the rendered stream is cut into chunks
  t0, gap   chunk i is released at tick t0 + i*gap
  close     null | ticks after the last chunk at which the server ends the stream
  reqs      [{"id","at","mode","d","ed","cuts","gap","code","body","typed","tiePostFirst"}]
  exit      {"k","at"}
"""
from __future__ import annotations

import codecs
import os
import json

_LITS = None


def lits():
    """Source literals the generator uses (informational, see translate_sse.py): the connection
    cap in ticks (None = the running code shows no cap), whether the codes of the synthesised
    errors are known, and notes for the evidence file.  The cap is read from the source when it
    can be located, otherwise measured once on the running code (entry outcome with a connection
    that never answers and a very long timeout)."""
    global _LITS
    if _LITS is not None:
        return _LITS
    from . import core, translate_sse
    vals, notes = translate_sse.extract(core.REPO / "src" / "chuk_mcp")
    out = {"timeout_code": vals["timeout_code"], "fail_codes": vals["fail_codes"], "codes_known": "codes" in vals["found"],
           "notes": list(notes), "cap_source": "source"}
    if "cap" in vals["found"]:
        out["cap"] = round(vals["cap_ms"] * 1024 / 1000)
    else:
        from . import sse_h
        big = 4096 * 1024
        o = sse_h.run_case({"base": "http://h.test", "T": big, "tie": "events", "conn": {"k": "hang"}, "chunks": [], "close": None,
                            "bounds": [], "reqs": [], "exit": {"k": "normal", "at": 1}})
        t = (o.get("enter") or {}).get("t")
        out["cap"] = t if isinstance(t, int) and 0 < t < big else None
        out["cap_source"] = "measured"
    out["notes"].append(f"connection cap = {out['cap']} ticks ({out['cap_source']}); synthesised error codes "
                        + (f"timeout {out['timeout_code']}, failure {out['fail_codes']} (source)" if out["codes_known"] else "not located: compared without codes"))
    _LITS = out
    return out


def cap():
    """connection cap in ticks as far as the model is concerned (no cap = beyond every timeout used)"""
    c = lits()["cap"]
    return c if c is not None else 10 ** 9


T_DEFAULT = 2048
TIES = ("events", "timers", "io")  # order of scripted events vs timers at equal instants (vloop.py)

ENDPOINT_FORMS = {
    # name: (data text, base url needed or None)
    "abs": ("/messages/?session_id=s1", None),
    "abs-mcp": ("/mcp?session_id=s1b", None),
    "url": ("http://other.test/mcp?session_id=s2", None),
    "query": ("session_id=s3", "http://h.test"),
    "query-msgbase": ("session_id=s4&x=1", "http://h.test/messages/v1"),
    "dataonly-messages": ("/messages/?session_id=s5", None),
    "dataonly-mcp": ("http://h.test/mcp?session_id=s6", None),
    "url-https": ("https://other.test/messages/?session_id=s7&k=%7B%7D", None),
    # absolute URLs on another origin than the event stream: host, port, scheme, spelling of the host
    "url-port": ("http://h.test:8081/messages/?session_id=p1", None),
    "url-scheme": ("https://h.test/messages/?session_id=p2", None),
    "url-same": ("http://h.test/messages/?session_id=p3", None),
    "url-localhost": ("http://localhost:8000/messages/?session_id=p4", "http://127.0.0.1:8000"),
    "url-loopback": ("http://127.0.0.1:8000/messages/?session_id=p5", "http://localhost:8000"),
    "url-case": ("http://H.TEST/messages/?session_id=p6", None),
    "url-default-port": ("http://h.test:80/messages/?session_id=p7", None),
    "url-userinfo-path": ("http://other.test:9/a/b/messages/?session_id=p8#frag", "https://h.test/base"),
    # an announcement that announces nothing: not an announcement (entering must not yield on it)
    "empty": ("", None),
    "blank": (" \t ", None),
}
NOT_ANNOUNCING = {"empty", "blank"}
DATAONLY = {"dataonly-messages", "dataonly-mcp"}


def burst_msg(i):
    return {"k": "msg", "m": {"jsonrpc": "2.0", "method": "notifications/progress", "params": {"seq": i}}, "typed": bool(i % 3),
            "nospace": i % 5 == 0, "multiline": i % 7 == 0}


def items_of(case):
    """the event-stream script with every {"k":"burst","n":N,"start":S} expanded to N notifications"""
    out = []
    for it in case.get("items", []):
        if it["k"] == "burst":
            out += [burst_msg(it.get("start", 0) + i) for i in range(it["n"])]
        elif it["k"] == "bigmsg":
            from .sse_h import big_text
            out.append({"k": "msg", "m": {"jsonrpc": "2.0", "method": "notifications/message", "params": {"blob": big_text(it["n"], it.get("i", 0)), "i": it.get("i", 0)}},
                        "typed": it.get("typed", True), "nospace": it.get("nospace", False), "crlf": it.get("crlf", False)})
        else:
            out.append(it)
    return out


def msg_lines(it):
    """the data line(s) of a message item: compact JSON on one line, or ("multiline") the same
    value pretty-printed over several `data` lines"""
    if it.get("multiline"):
        return json.dumps(it["m"], indent="\t", ensure_ascii=False).split("\n")
    return [json.dumps(it["m"], separators=(",", ":"), ensure_ascii=False)]


def msg_data(it):
    """what the transport must hand to the JSON decoder for this item"""
    return "\n".join(msg_lines(it)).strip()


def render_item(it) -> str:
    nl = "\r\n" if it.get("crlf") else "\n"
    sp = "" if it.get("nospace") else " "   # the space after the colon is optional
    k = it["k"]
    if k == "endpoint":
        data = ENDPOINT_FORMS[it["form"]][0]
        if it.get("pad"):
            data = "  " + data + " \t"
        head = "" if it["form"] in DATAONLY else "event:" + sp + "endpoint" + nl
        return head + "data:" + sp + data + nl + nl
    if k == "msg":
        head = "event:" + sp + "message" + nl if it.get("typed", True) else ""
        inner = "".join(x + nl for x in it.get("inner", []))   # comment lines / other fields inside the event
        body = "".join("data:" + sp + line + nl for line in msg_lines(it))
        if it.get("event_last"):  # the order of the fields of one event is free
            return inner + body + head + nl
        return head + inner + body + nl
    if k == "raw":
        return it["text"]
    raise ValueError(k)


def stream_bytes(case) -> bytes:
    return "".join(render_item(it) for it in items_of(case)).encode("utf-8")


def item_bounds(case):
    out, pos = [], 0
    for it in items_of(case):
        pos += len(render_item(it).encode("utf-8"))
        out.append(pos)
    return out


def chunk_plan(case):
    """[(tick, bytes)] and the close tick"""
    from .sse_h import cut_bytes
    b = stream_bytes(case)
    t0, gap = case.get("t0", 1), case.get("gap", 1)
    cuts = case.get("cuts", [])
    if cuts == "items":  # one chunk per event
        cuts = item_bounds(case)
    pieces = cut_bytes(b, cuts) if b else []
    if case.get("ticks"):
        # explicit release tick of every piece (the last one repeats)
        tk = list(case["ticks"])
        plan = [(tk[min(i, len(tk) - 1)], p) for i, p in enumerate(pieces)]
    else:
        plan = [(t0 + i * gap, p) for i, p in enumerate(pieces)]
    last = plan[-1][0] if plan else t0
    close = None if case.get("close") is None else last + case["close"]
    return plan, close


MODE_POST = {"200": "200", "evack": "202", "ackev": "202", "silence": "202", "status": "status", "exc": "exc", "posthang": "hang"}


def real_reqs(case):
    """the requests proper (a notification or a non-message object written to the stream has no
    terminal message)"""
    return [r for r in case.get("reqs", []) if r["mode"] not in ("notif", "garbage", "rawid")]


def harness_case(case):
    plan, close = chunk_plan(case)
    reqs = []
    for r in case.get("reqs", []):
        h = {"id": r.get("id"), "at": r["at"]}
        for f in ("form", "params", "method", "answer", "extra"):
            if f in r:
                h[f] = r[f]
        if r["mode"] == "garbage":
            h["form"] = "garbage"
        if r["mode"] == "rawid":
            # a message whose id has a JSON type JSON-RPC does not allow: no script, not a request
            h["form"] = "dict"
            reqs.append(h)
            continue
        if r["mode"] in ("notif", "garbage"):
            h["id"] = None
            reqs.append(h)
            continue
        post = {"k": MODE_POST[r["mode"]], "d": r.get("d", 4), "code": r.get("code", 500), "body": r.get("body", "text")}
        for f in ("body200", "text", "exc_text", "exc_class"):
            if f in r:
                post[f] = r[f]
        ev = None
        if "ed" in r:  # the answer (also) travels on the event stream, `ed` ticks after the POST was received
            ev = {"d": r["ed"], "cuts": r.get("cuts", []), "gap": r.get("gap", 0), "typed": r.get("typed", True),
                  "after_post_at_tie": bool(r.get("tiePostFirst")), "nospace": bool(r.get("nospace")), "multiline": bool(r.get("multiline"))}
        h.update(post=post, ev=ev)
        reqs.append(h)
    out = {
        "base": case.get("base", "http://h.test"), "T": case.get("T", T_DEFAULT), "tie": case.get("tie", "events"),
        "conn": case.get("conn", {"k": "ok", "at": 0}),
        "chunks": [[t, p.hex()] for t, p in plan], "close": close, "bounds": item_bounds(case),
        "reqs": reqs, "exit": case.get("exit", {"k": "normal", "at": 50}), "pause": case.get("pause", 0),
    }
    for f in ("write_mode", "warm", "api", "params", "close_raises", "notif_post", "ctor_fails", "twin", "twin_offset", "debug_log", "close_exc",
              "stderr", "close_write_at", "close_read_at", "stream_read_timeout"):
        if f in case:
            out[f] = case[f]
    return out


def py_key(v):
    """the key under which a request is pending: the id's value together with its JSON type
    (7 and "7" name different requests)"""
    if v is None:
        return None
    return ("s:" if isinstance(v, str) else "n:") + str(v)


NON_ANSWER_200 = ("foreign", "ack", "list", "null", "number", "string", "true")


def event_order(r):
    """None: no answer on the event stream; "first": it is there before the POST completes;
    "late": after it"""
    if "ed" not in r:
        return None
    last = r["ed"] + len(r.get("cuts", [])) * r.get("gap", 0)
    if last < r.get("d", 4) or (last == r.get("d", 4) and not r.get("tiePostFirst")):
        return "first"
    return "late"


def late_duplicate(r):
    """the server answers on the event stream AFTER the request has already ended with its POST
    (a second answer): the transport cannot tell it from any other message any more"""
    return event_order(r) == "late" and not acks(r)


def acks(r):
    """the POST completion only acknowledges the request (202, or a 200 whose body is not the answer)"""
    return r["mode"] in ("silence", "evack", "ackev") or (r["mode"] == "200" and r.get("body200", "rpc") in NON_ANSWER_200)


def answered_by(r, T=None):
    """where the server's single answer is, for the pure modes the property names: "body" (200 +
    answer), "ev" (202 and the answer on the stream, before or after it), "post" (non-2xx whose
    body is the JSON-RPC answer); None for the mixed cells and for "never" / failures"""
    if r["mode"] in ("evack", "ackev"):
        last = r["ed"] + len(r.get("cuts", [])) * r.get("gap", 0)
        if T is not None and last >= r.get("d", 4) + T:
            return None  # at or after the instant the 202 wait expires: not "in time"
        return "ev"
    if "ed" in r:
        return None
    if r["mode"] == "200" and r.get("body200", "rpc") == "rpc":
        return "body"
    if r["mode"] == "status" and r.get("body") == "rpc":
        return "post"
    return None


def model_req(r):
    """the request in the Lean model's vocabulary (`Drv/SseReq.lean`)"""
    key = py_key(r["id"])
    e = {"key": key}
    order = event_order(r)
    # how the POST completes
    if acks(r):
        post, b = "accepted", None
    elif r["mode"] == "200":
        post, b = ("body" if r.get("body200", "rpc") == "rpc" else "unreadable"), None
    elif r["mode"] == "status":
        post = "other"
        body = r.get("body", "text")
        b = {"key": key, "ok": True} if body == "rpc" else {"key": None, "ok": True} if body == "detail" else None
    else:
        post, b = "exc", None   # also "posthang": the client's read timeout turns it into a failed POST
    if b is not None or post == "other":
        e["b"] = b
    if order == "first":
        e.update(mode="evpost", post=post)
    elif post == "accepted":
        e["mode"] = "ackev" if order == "late" else "silence"
    else:
        e["mode"] = {"body": "body", "unreadable": "unreadable", "other": "other", "exc": "exc"}[post]
        if order == "late":
            e["late"] = True
    return e


def model_line(case):
    """The same case for the Lean model: decoded text chunks (httpx decodes incrementally, so a
    character cut by a chunk boundary appears with the chunk that completes it)."""
    plan, close = chunk_plan(case)
    dec = codecs.getincrementaldecoder("utf-8")("replace")
    chunks = []
    for t, p in plan:
        s = dec.decode(p)
        chunks.append([t + case.get("conn", {}).get("at", 0) * 0, [ord(c) for c in s]])
    conn = case.get("conn", {"k": "ok", "at": 0})
    # chunks scripted before the GET is answered are released when it is answered
    c_at = conn.get("at", 0)
    chunks = [[max(t, c_at), s] for t, s in chunks]
    if close is not None:
        close = max(close, c_at)
    table = []
    for it in items_of(case):
        if it["k"] == "msg":
            data = msg_data(it)
            table.append({"d": [ord(c) for c in data], "key": py_key(it["m"].get("id")) if isinstance(it["m"], dict) else None,
                          "ok": bool(it.get("valid", True))})
    reqs = [model_req(r) for r in real_reqs(case)]
    return {"m": "ssereq", "url": case.get("base", "http://h.test"), "T": case.get("T", T_DEFAULT), "cap": cap(),
            "conn": conn, "chunks": chunks, "close": close, "dec": table, "reqs": reqs}


# ------------------------------------------------------------------ reference reading (oracle)
def expected_srv(case):
    """Server messages the script puts on the event stream as complete, well-formed events."""
    return [it["m"] for it in items_of(case) if it["k"] == "msg" and it.get("valid", True)]


def announce_tick(case):
    """Tick at which the last byte of the first endpoint announcement is released (None if the
    script contains none, or the connection never gets that far)."""
    conn = case.get("conn", {"k": "ok", "at": 0})
    if conn["k"] != "ok":
        return None
    pos = 0
    end = None
    for it in items_of(case):
        b = render_item(it).encode("utf-8")
        if it["k"] == "endpoint" and it["form"] not in NOT_ANNOUNCING:
            # the earliest moment a transport may take the endpoint as announced: the line feed
            # that ends its data line (a transport that waits for the blank line ending the
            # event yields later, which is just as good)
            nl = 2 if it.get("crlf") else 1
            end = pos + len(b) - nl
            break
        pos += len(b)
    if end is None:
        return None
    plan, close = chunk_plan(case)
    off = 0
    for t, p in plan:
        off += len(p)
        if off >= end:
            t = max(t, conn.get("at", 0))
            if close is not None and max(close, conn.get("at", 0)) < t:
                return None
            return t
    return None


# ------------------------------------------------------------------ building blocks
EP = {"k": "endpoint", "form": "abs"}


def msg_notif(i):
    return {"k": "msg", "m": {"jsonrpc": "2.0", "method": "notifications/message", "params": {"n": i}}, "typed": True}


def msg_srvreq(i):
    return {"k": "msg", "m": {"jsonrpc": "2.0", "id": 1000 + i, "method": "ping"}, "typed": bool(i % 2)}


def msg_foreign_resp(i):
    return {"k": "msg", "m": {"jsonrpc": "2.0", "id": f"zz-{i}", "result": {"late": i}}, "typed": True}


def msg_unicode(i):
    return {"k": "msg", "m": {"jsonrpc": "2.0", "method": "notifications/message", "params": {"t": "hé€\U0001f600  x", "i": i}}, "typed": False}


def msg_invalid(i):
    # accepted by json.loads, rejected by JSONRPCMessage.model_validate: dropped alone
    return {"k": "msg", "m": {"jsonrpc": "2.0", "id": f"bad-{i}", "result": None, "error": None, "method": 5}, "typed": True, "valid": False}


JUNK = [
    {"k": "raw", "text": ": ping\n"},
    {"k": "raw", "text": "event: keepalive\ndata: {\"jsonrpc\":\"2.0\",\"method\":\"not/delivered\"}\n\n"},
    {"k": "raw", "text": "data: plain text\n\n"},
    {"k": "raw", "text": "event: message\ndata: [1,2]\n\n"},
    {"k": "raw", "text": "event: message\ndata: {not json\n\n"},
    {"k": "raw", "text": "retry: 1000\nid: 7\n\n"},
    {"k": "raw", "text": "\r\n\n"},
    {"k": "raw", "text": "event: other\ndata: héllo €\n\n"},
]


def base_for(form):
    return ENDPOINT_FORMS[form][1] or "http://h.test"


def probe_req(i=1, at=2):
    return {"id": f"r{i}", "at": at, "mode": "200", "d": 2}


def exit_after(case):
    """normal exit late enough for every request to have finished"""
    T = case.get("T", T_DEFAULT)
    at = 20
    for r in real_reqs(case):
        at = max(at, r["at"]) + r.get("d", 4) + r.get("ed", 0) + len(r.get("cuts", [])) * r.get("gap", 0) + 10
        if acks(r) or "ed" in r or r["mode"] == "posthang":
            at += T  # also for an answer on the event stream: were it lost, the synthesised timeout error is the terminal
    at += T * sum(1 for r in case.get("reqs", []) if r["mode"] == "rawid")
    plan, close = chunk_plan(case)
    if plan:
        at = max(at, plan[-1][0] + 10)
    return {"k": "normal", "at": at + 20 + case.get("pause", 0)}


def finish(case):
    for r in case.get("reqs", []):
        if r["mode"] == "posthang":
            r["d"] = case.get("T", T_DEFAULT)  # the POST ends when the client's read timeout (= the configured timeout) expires
    case.setdefault("exit", exit_after(case))
    return case


# ------------------------------------------------------------------ suites' case lists
def establish_cases(budget, rng):
    out = []
    ties = TIES
    # (a) announced in each accepted form
    for form in ENDPOINT_FORMS:
        for crlf in (False, True):
            for pad in (False, True):
                for a in (1, 700, T_DEFAULT - 1):
                    for tie in ties:
                        if budget == "quick" and (crlf != pad) and a != 1:
                            continue
                        pre = [msg_notif(0)] if a == 700 else []
                        c = {"base": base_for(form), "tie": tie, "conn": {"k": "ok", "at": 0},
                             "items": pre + [{"k": "endpoint", "form": form, "pad": pad, "crlf": crlf}, msg_notif(1)],
                             "cuts": [], "t0": a, "gap": 0, "reqs": [probe_req()]}
                        out.append(finish(c))
    # (b) 4xx/5xx, (c) connect error, (f) hang
    for tie in ties:
        for at in (0, 5, T_DEFAULT - 1, T_DEFAULT + 5):
            for code in (404, 500, 401, 503, 301, 204):
                out.append(finish({"tie": tie, "conn": {"k": "status", "at": at, "code": code}, "items": [EP], "reqs": [probe_req()]}))
            out.append(finish({"tie": tie, "conn": {"k": "error", "at": at}, "items": [EP], "reqs": [probe_req()]}))
        out.append(finish({"tie": tie, "conn": {"k": "hang"}, "items": [EP], "reqs": [probe_req()]}))
        # (d) 200 with an empty / never-announcing stream
        for close in (0, 3, 900):
            out.append(finish({"tie": tie, "conn": {"k": "ok", "at": 2}, "items": [], "close": close, "reqs": [probe_req()]}))
            out.append(finish({"tie": tie, "conn": {"k": "ok", "at": 2}, "items": [msg_notif(1), JUNK[0], JUNK[2]], "t0": 4, "close": close, "reqs": [probe_req()]}))
        out.append(finish({"tie": tie, "conn": {"k": "ok", "at": 2}, "items": [], "close": None, "reqs": [probe_req()]}))
        out.append(finish({"tie": tie, "conn": {"k": "ok", "at": 2}, "items": [msg_notif(1), JUNK[1], JUNK[7]], "t0": 9, "close": None, "reqs": [probe_req()]}))
        # announcement cut before its final line feed and never completed, then the stream ends
        out.append(finish({"tie": tie, "conn": {"k": "ok", "at": 0}, "items": [{"k": "raw", "text": "event: endpoint\ndata: /messages/?session_id=cut"}], "close": 5, "reqs": [probe_req()]}))
        # announcement, then the stream ends: connection was announced (yield is legitimate)
        out.append(finish({"tie": tie, "conn": {"k": "ok", "at": 0}, "items": [EP], "t0": 3, "close": 40, "reqs": []}))
        # (e) slow announcement around the timeout; slow connection around the cap
        for a in (T_DEFAULT - 2, T_DEFAULT + 1, T_DEFAULT + 700):
            out.append(finish({"tie": tie, "conn": {"k": "ok", "at": 1}, "items": [EP], "t0": a, "reqs": [probe_req()]}))
        if lits()["cap"] is not None:
            CAP = lits()["cap"]
            for c_at in (CAP - 3, CAP + 3, CAP + 900):
                out.append(finish({"tie": tie, "T": CAP + 5 * 1024, "conn": {"k": "ok", "at": c_at}, "items": [EP], "t0": c_at + 3, "reqs": [probe_req()]}))
                out.append(finish({"tie": tie, "T": CAP + 5 * 1024, "conn": {"k": "status", "at": c_at, "code": 404}, "items": [], "reqs": [probe_req()]}))
        if lits()["cap"] is not None:
            for T in (lits()["cap"] - 1, lits()["cap"], lits()["cap"] + 1):  # timeout = the cap literal itself
                out.append(finish({"tie": tie, "T": T, "conn": {"k": "hang"}, "items": [], "reqs": []}))
                out.append(finish({"tie": tie, "T": T, "conn": {"k": "ok", "at": 7}, "items": [EP], "t0": 9, "reqs": [probe_req()]}))
        for T in (512, 1024, 16 * 1024):
            out.append(finish({"tie": tie, "T": T, "conn": {"k": "ok", "at": 1}, "items": [], "close": None, "reqs": []}))
            out.append(finish({"tie": tie, "T": T, "conn": {"k": "hang"}, "items": [], "reqs": []}))
    # seeded mixtures
    n = 150 if budget == "quick" else 6000
    for i in range(n):
        out.append(seeded_establish(rng))
    return out


def seeded_establish(rng):
    T = rng.choice([512, 2048, 2048, 3000])
    r = rng.random()
    items = []
    for _ in range(rng.randint(0, 2)):
        items.append(rng.choice([msg_notif(rng.randint(0, 9)), rng.choice(JUNK), msg_unicode(1)]))
    announced = rng.random() < 0.6
    if announced:
        form = rng.choice(list(ENDPOINT_FORMS))
        items.append({"k": "endpoint", "form": form, "pad": rng.random() < 0.3, "crlf": rng.random() < 0.3})
        base = base_for(form)
    else:
        base = "http://h.test"
    for _ in range(rng.randint(0, 2)):
        items.append(rng.choice([msg_notif(rng.randint(10, 19)), rng.choice(JUNK), msg_srvreq(rng.randint(0, 5))]))
    if r < 0.55:
        conn = {"k": "ok", "at": rng.choice([0, 1, 17, 400])}
    elif r < 0.75:
        conn = {"k": "status", "at": rng.choice([0, 3, 900]), "code": rng.choice([400, 403, 404, 500, 502])}
    elif r < 0.9:
        conn = {"k": "error", "at": rng.choice([0, 3, 900])}
    else:
        conn = {"k": "hang"}
    nbytes = len("".join(render_item(it) for it in items).encode("utf-8"))
    cuts = sorted(set(rng.randint(1, max(1, nbytes - 1)) for _ in range(rng.randint(0, 3)))) if nbytes > 1 else []
    t0 = rng.choice([1, 5, 300, T - 30, T + 30])
    gap = rng.choice([0, 1, 7])
    if t0 + gap * len(cuts) == T or (t0 <= T <= t0 + gap * len(cuts) and gap and (T - t0) % gap == 0):
        t0 += 1
    c = {"base": base, "T": T, "tie": rng.choice(list(TIES)), "conn": conn, "items": items, "cuts": cuts,
         "t0": t0, "gap": gap, "close": rng.choice([None, None, 0, 5, 60]), "reqs": [probe_req()]}
    if conn.get("at") == T:
        conn["at"] += 1
    return finish(c)


REQ_MODES = [
    {"mode": "200"},
    {"mode": "evack", "d": 9, "ed": 3},
    {"mode": "ackev", "d": 3, "ed": 9},
    {"mode": "silence", "d": 3},
    {"mode": "status", "code": 500, "body": "text"},
    {"mode": "status", "code": 404, "body": "empty"},
    {"mode": "status", "code": 500, "body": "detail"},
    {"mode": "status", "code": 400, "body": "rpc"},
    {"mode": "exc"},
]


def mk_req(i, at, spec, **kw):
    r = {"id": f"r{i}", "at": at, "d": 4}
    r.update(spec)
    r.update(kw)
    return r


EV_LEN = len('event: message\ndata: {"jsonrpc":"2.0","id":"r1","result":{"tag":"ev"}}\n\n')


def request_cases(budget, rng):
    out = []
    T = 1024
    bg = [EP, msg_notif(1), JUNK[0], msg_srvreq(1), JUNK[3], msg_foreign_resp(2), msg_unicode(3), msg_invalid(4), msg_srvreq(2)]
    # single requests: every mode x tie x placement of the background traffic
    for spec in REQ_MODES:
        for tie in TIES:
            for gap in (0, 2, 5):
                c = {"T": T, "tie": tie, "items": list(bg), "cuts": [46, 60, 110, 150, 205, 300], "t0": 1, "gap": gap,
                     "reqs": [mk_req(1, 3, spec)]}
                out.append(finish(c))
    # the race: every relative placement of POST completion and event arrival, event cut in pieces
    for d in (2, 5, 9):
        for ed in (1, 2, 4, 5, 6, 9, 12):
            for cuts, gap in (([], 0), ([20], 0), ([20], 3), ([7, 40], 1), ([EV_LEN - 1], 2), ([EV_LEN - 2, EV_LEN - 1], 0)):
                for tie in TIES:
                    last = ed + len(cuts) * gap
                    if ed <= d <= last and ed != last:
                        continue  # pieces straddling the POST completion: order decided by the last piece
                    mode = "evack" if last < d else "ackev"
                    for typed in (True, False):
                        for tpf in ((False, True) if last == d else (False,)):
                            c = {"T": T, "tie": tie, "items": [EP, msg_notif(1)], "t0": 1, "gap": 0,
                                 "reqs": [mk_req(1, 3, {"mode": mode, "d": d, "ed": ed, "cuts": cuts, "gap": gap, "typed": typed, "tiePostFirst": tpf})]}
                            if budget == "quick" and not typed and (cuts or tie == "timers"):
                                continue
                            out.append(finish(c))
    # straddling pieces (first piece before the 202, last piece after it)
    for tie in TIES:
        for cuts, gap in (([20], 4), ([7, 40], 3)):
            c = {"T": T, "tie": tie, "items": [EP], "t0": 1, "gap": 0,
                 "reqs": [mk_req(1, 3, {"mode": "ackev", "d": 5, "ed": 3, "cuts": cuts, "gap": gap})]}
            out.append(finish(c))
    # pairs and triples of serial requests (the second is written while the first is in flight)
    k = 0
    for a in REQ_MODES:
        for b in REQ_MODES:
            k += 1
            tie = TIES[k % 3]
            c = {"T": T, "tie": tie, "items": [EP, msg_notif(k), msg_srvreq(k)], "cuts": [50], "t0": 1, "gap": 6,
                 "reqs": [mk_req(1, 3, a), mk_req(2, 4 + (k % 3) * 4, b)]}
            out.append(finish(c))
    n = 120 if budget == "quick" else 5000
    for i in range(n):
        nreq = rng.randint(1, 4)
        reqs, at = [], 2
        for j in range(nreq):
            spec = dict(rng.choice(REQ_MODES))
            if spec["mode"] in ("evack", "ackev"):
                d, ed = rng.sample(range(1, 14), 2)
                spec.update(d=d, ed=ed, mode="evack" if ed < d else "ackev", typed=rng.random() < 0.8)
                if rng.random() < 0.4 and spec["mode"] == "ackev":
                    spec.update(cuts=sorted(rng.sample(range(1, EV_LEN), rng.randint(1, 2))), gap=rng.randint(0, 3))
            reqs.append(mk_req(j + 1, at, spec))
            at += rng.randint(0, 12)
        items = [EP] + [rng.choice([msg_notif(rng.randint(0, 99)), msg_srvreq(rng.randint(0, 9)), rng.choice(JUNK), msg_foreign_resp(rng.randint(0, 9)),
                                    msg_unicode(rng.randint(0, 9)), msg_invalid(rng.randint(0, 9))]) for _ in range(rng.randint(0, 6))]
        nbytes = len("".join(render_item(it) for it in items).encode("utf-8"))
        cuts = sorted(set(rng.randint(1, nbytes - 1) for _ in range(rng.randint(0, 5))))
        c = {"T": rng.choice([256, 1024]), "tie": rng.choice(list(TIES)), "items": items, "cuts": cuts, "t0": 1,
             "gap": rng.choice([0, 1, 4, 9]), "reqs": reqs}
        out.append(finish(c))
    return out


CHUNK_STREAMS = [
    # short: every 1- and 2-cut
    [{"k": "endpoint", "form": "abs", "crlf": True}, {"k": "msg", "m": {"jsonrpc": "2.0", "method": "n/é"}, "typed": True}],
    [{"k": "endpoint", "form": "dataonly-mcp"}, {"k": "msg", "m": {"jsonrpc": "2.0", "id": 5, "method": "ping"}, "typed": False, "crlf": True}],
    # longer: every 1-cut, seeded 2- and 3-cuts
    [JUNK[0], msg_notif(0), {"k": "endpoint", "form": "query", "pad": True}, msg_unicode(1), JUNK[1], msg_srvreq(1), JUNK[7], JUNK[4], msg_invalid(2),
     {"k": "msg", "m": {"jsonrpc": "2.0", "method": "notifications/message", "params": {"k": 2}}, "typed": True, "crlf": True}, JUNK[5], msg_foreign_resp(3)],
]


def chunk_cases(budget, rng):
    out = []
    for si, items in enumerate(CHUNK_STREAMS):
        form = [it for it in items if it["k"] == "endpoint"][0]["form"]
        base_case = {"base": base_for(form), "T": T_DEFAULT, "items": items, "t0": 1, "reqs": [probe_req(1, 2)]}
        n = len(stream_bytes(base_case))
        cutsets = [[]] + [[i] for i in range(1, n)]
        if si < 2:
            step = 1 if budget != "quick" else 6
            cutsets += [[i, j] for i in range(1, n) for j in range(i + 1, n)][::step]
        else:
            m = 100 if budget == "quick" else 6000
            for _ in range(m):
                cutsets.append(sorted(set(rng.randint(1, n - 1) for _ in range(rng.randint(2, 4)))))
        for ci, cuts in enumerate(cutsets):
            c = dict(base_case, cuts=cuts, gap=(0, 1, 3)[ci % 3], tie=TIES[(ci // 3) % 3])
            out.append(finish(c))
    return out


EXIT_KINDS = ["normal", "exception", "cancel-asyncio", "cancel-anyio", "cancel-asyncio-twice"]


def exit_spec(ek, at):
    e = {"k": ek, "at": at}
    if ek == "cancel-asyncio-twice":
        e["hops"] = at % 6  # how many loop turns after the first cancellation the second one comes
    return e


def exit_cases(budget, rng):
    out = []
    T = 256
    specs = [{"mode": "200", "d": 6}, {"mode": "ackev", "d": 4, "ed": 12, "cuts": [30], "gap": 3}, {"mode": "evack", "d": 12, "ed": 4},
             {"mode": "silence", "d": 4}, {"mode": "exc", "d": 6}, {"mode": "status", "d": 6, "body": "text"}]
    for spec in specs:
        # points of the request's life (ticks after entering; the request is written at 5)
        pts = [0, 4, 5, 6, 8, 9, 11, 13, 15, 17, 18, 20, 30, 5 + 4 + T - 1, 5 + 4 + T, 5 + 4 + T + 1, 5 + 4 + T + 30]
        if spec["mode"] != "silence":
            pts = pts[:13]
        for ek in EXIT_KINDS:
            for at in pts:
                for tie in TIES:
                    if budget == "quick" and tie == "timers" and at % 2:
                        continue
                    c = {"T": T, "tie": tie, "items": [EP, msg_notif(1), msg_srvreq(2)], "cuts": [60], "t0": 1, "gap": 10 + at,
                         "reqs": [mk_req(1, 5, spec), mk_req(2, 7, {"mode": "200", "d": 2})], "exit": exit_spec(ek, at)}
                    out.append(c)
    # no request at all
    for ek in EXIT_KINDS:
        out.append({"T": T, "items": [EP], "reqs": [], "exit": {"k": ek, "at": 9}})
    # L. the application closes its own end of the write / read stream while a request is pending
    k2 = 0
    for ek in EXIT_KINDS:
        for spec in ({"mode": "silence", "d": 2}, {"mode": "ackev", "d": 2, "ed": 12}, {"mode": "200", "d": 8}):
            for which in ("close_write_at", "close_read_at"):
                for at in (6, 9):
                    k2 += 1
                    if budget == "quick" and k2 % 2:
                        continue
                    out.append({"T": T, "tie": TIES[k2 % 3], "items": [EP, msg_notif(1), msg_srvreq(2)], "cuts": "items", "t0": 1, "gap": 8,
                                "reqs": [mk_req(1, 5, spec), mk_req(2, 7, {"mode": "200", "d": 2})], which: at, "exit": exit_spec(ek, 30)})
    # the server has ended the event stream (half-close) / closing the stream fails
    for ek in EXIT_KINDS:
        for spec in ({"mode": "silence", "d": 2}, {"mode": "200", "d": 6}, {"mode": "exc", "d": 6}):
            for at in (4, 6, 9, 40):
                for ti, tie in enumerate(TIES):
                    if budget == "quick" and (at + ti) % 2:
                        continue
                    out.append({"T": T, "tie": tie, "items": [EP], "close": 3, "reqs": [mk_req(1, 5, spec)], "exit": exit_spec(ek, at)})
                    out.append({"T": T, "tie": tie, "items": [EP, msg_notif(1)], "close_raises": True, "reqs": [mk_req(1, 5, spec)], "exit": exit_spec(ek, at)})
    return out



def backpressure_cases(budget, rng):
    """The consumer does not read for a while: bursts around the size of the transport's read
    buffer (100) queue up, in one chunk and in many, then everything is drained; also a request
    whose answer travels behind the burst (on the event stream, and in the POST reply)."""
    out = []
    T = 1024
    k = 0
    for n in (0, 1, 99, 100, 101, 150, 400):
        for cuts, gap in (([], 0), ("items", 0), ("items", 1), ([97, 1234, 5000], 2)):
            for req in (None, {"mode": "ackev", "d": 2, "ed": 4}, {"mode": "200", "d": 3}, {"mode": "silence", "d": 2}):
                k += 1
                if n == 400 and (k % 2 or req is not None and req["mode"] == "silence"):
                    continue
                if budget == "quick" and n in (0, 1, 99) and (cuts != "items" or gap):
                    continue
                tie = TIES[k % 3]
                c = {"T": T, "tie": tie, "items": [EP, {"k": "burst", "n": n, "start": 0}, msg_srvreq(7)], "cuts": cuts, "t0": 1,
                     "gap": gap, "pause": 60 + (k % 4) * 25, "reqs": [mk_req(1, 3, req)] if req else []}
                if req and req["mode"] == "silence":
                    c["T"] = 128
                    c["pause"] = 30 + 128  # the synthesised timeout error also queues behind the burst
                out.append(finish(c))
    # two bursts with a pause in between, and reading that starts in the middle of the burst
    for tie in TIES:
        out.append(finish({"T": T, "tie": tie, "items": [EP, {"k": "burst", "n": 120, "start": 0}, msg_srvreq(1), {"k": "burst", "n": 120, "start": 120}],
                           "cuts": "items", "t0": 1, "gap": 1, "pause": 130, "reqs": [mk_req(1, 3, {"mode": "ackev", "d": 2, "ed": 4})]}))
        out.append(finish({"T": T, "tie": tie, "items": [EP, {"k": "burst", "n": 250, "start": 0}], "cuts": [], "t0": 1, "gap": 0, "pause": 0, "reqs": []}))
    return out


# ------------------------------------------------------------------ hardening sweep (HARDEN.md)
ID_POOL = [7, "7", 0, "0", "", -1, 2 ** 53 + 1, "r1", "a b", "%s %d {} {0}", "ü x\u0085", "q\"uo\\te'", "a\nb\r\nc", "x" * 5000,
           "endpoint", "session_id=1", "/mcp", "message"]
ALL_MODES = REQ_MODES + [{"mode": "posthang"}, {"mode": "200", "body200": "nonjson"}, {"mode": "200", "body200": "empty"}]
ANSWERS = [
    {"kind": "result", "payload": {}},
    {"kind": "result", "payload": {"a": None, "": 0, "f": False, "l": [], "s": "", "z": 0.0}},
    {"kind": "error", "code": 0, "message": ""},
    {"kind": "error", "code": 0, "message": "", "data": 0},
    {"kind": "error", "code": -32000, "message": "Request timeout"},       # the codes the transport synthesises itself
    {"kind": "error", "code": -32603, "message": "HTTP 500: %s {0}"},
    {"kind": "result", "payload": {"uri": "http://x/mcp", "p": "/messages/", "s": "session_id=9", "j": "\"jsonrpc\""}},
]
HOSTILE = ["", "%", "%s %d", "{}", "{0} {x}", "a\nb", "a\r\nb", "  \u0085", "'\"\\", "x" * 99, "x" * 100, "x" * 101, "y" * 5000]
STATUS_CODES = [201, 203, 204, 205, 206, 299, 300, 301, 302, 304, 400, 401, 403, 404, 405, 409, 429, 500, 502, 503, 504]
PARAM_SETS = [{}, {"headers": {}}, {"headers": {"Authorization": "Bearer t"}}, {"headers": {"authorization": ""}},
              {"headers": {"X-Empty": ""}, "bearer_token": "tok"}, {"bearer_token": ""}, {"bearer_token": "Bearer tok"},
              {"headers": {"AUTHORIZATION": "Basic x"}, "bearer_token": "tok"}]

# event-stream lines that carry nothing (must not deliver anything, must not disturb what follows)
EMPTY_EVENTS = [
    {"k": "raw", "text": "event: message\n\n"},
    {"k": "raw", "text": "event: endpoint\n\n"},
    {"k": "raw", "text": ":\n"},
    {"k": "raw", "text": "\n\n\n"},
    {"k": "raw", "text": "data\n\n"},
    {"k": "raw", "text": "data: \n\n"},
    {"k": "raw", "text": "event: message\ndata: \n\n"},
    {"k": "raw", "text": "event: keepalive\ndata: /mcp?session_id=ka\n\n"},
    {"k": "raw", "text": "event: \ndata: x\n\n"},
]


def msg_magic(i, typed):
    """a server message whose text contains the substrings the transport looks for"""
    return {"k": "msg", "m": {"jsonrpc": "2.0", "method": "notifications/resources/updated",
                              "params": {"uri": "http://h.test/mcp", "p": "/messages/", "s": "session_id=9", "j": "\"jsonrpc\"", "i": i}}, "typed": typed}


def msg_odd(i):
    """extra members, id last"""
    return {"k": "msg", "m": {"x-extra": {"a": [1, None]}, "result": {"ok": True}, "jsonrpc": "2.0", "id": f"odd-{i}"}, "typed": bool(i % 2)}


def hardening_cases(budget, rng):
    out = []
    T = 256
    k = 0
    forms = ("dict", "model")
    # -- ids of both JSON types, falsy ids, hostile ids: every request mode
    for rid in ID_POOL:
        for spec in ALL_MODES:
            k += 1
            if budget == "quick" and isinstance(rid, str) and len(rid) > 100 and k % 3:
                continue
            c = {"T": T, "tie": TIES[k % 3], "items": [EP, msg_notif(k)], "t0": 1, "gap": 0,
                 "reqs": [mk_req(1, 3, spec, id=rid, form=forms[k % 2])]}
            out.append(finish(c))
    # -- type twins side by side, and one id used again
    twins = [[7, "7"], ["7", 7], [0, "0", ""], ["", 0], [7, 7], ["r1", "r1", "r1"]]
    for ids in twins:
        for a in range(0, len(ALL_MODES), 2 if budget == "quick" else 1):
            k += 1
            reqs = [mk_req(j + 1, 3 + 2 * j, ALL_MODES[(a + 3 * j) % len(ALL_MODES)], id=i, form=forms[(k + j) % 2]) for j, i in enumerate(ids)]
            out.append(finish({"T": T, "tie": TIES[k % 3], "items": [EP, msg_srvreq(k)], "t0": 1, "gap": 0, "reqs": reqs}))
    # -- what the server may answer: empty result, falsy members, error objects with falsy / magic members, extra members
    for ans in ANSWERS:
        for spec in ({"mode": "200"}, {"mode": "evack", "d": 9, "ed": 3}, {"mode": "ackev", "d": 3, "ed": 9}, {"mode": "status", "code": 400, "body": "rpc"}):
            for extra in (None, {"x-extra": 0}):
                k += 1
                c = {"T": T, "tie": TIES[k % 3], "items": [EP], "t0": 1, "gap": 0,
                     "reqs": [mk_req(1, 3, spec, id=[7, "r1", 0][k % 3], form=forms[k % 2], answer=ans, **({"extra": extra} if extra else {}))]}
                out.append(finish(c))
    # -- what the client may write: notifications, model objects, non-messages, falsy params / method
    writes = [
        [{"mode": "garbage"}, {"mode": "200"}],
        [{"mode": "notif"}, {"mode": "200"}],
        [{"mode": "notif", "form": "model", "params": {}}, {"mode": "ackev", "d": 3, "ed": 9, "form": "model"}],
        [{"mode": "notif", "method": ""}, {"mode": "silence", "d": 2}],
        [{"mode": "200", "params": {}, "method": ""}, {"mode": "200", "params": {"a": None, "b": [], "c": "", "d": 0, "e": False}}],
        [{"mode": "200", "form": "model", "params": {"_meta": {"progressToken": 0}}}, {"mode": "garbage"}, {"mode": "notif"}, {"mode": "exc"}],
    ]
    for ws in writes:
        for notif_post in (None, "exc", 500, 404):
            k += 1
            reqs = [mk_req(j + 1, 3 + j, w) for j, w in enumerate(ws)]
            c = {"T": T, "tie": TIES[k % 3], "items": [EP], "t0": 1, "gap": 0, "reqs": reqs}
            if notif_post is not None:
                c["notif_post"] = notif_post
            out.append(finish(c))
    # -- other statuses and hostile texts in bodies / exception texts
    for i, code in enumerate(STATUS_CODES):
        for body in ("text", "empty", "detail", "rpc"):
            k += 1
            if budget == "quick" and (i + k) % 2:
                continue
            out.append(finish({"T": T, "tie": TIES[k % 3], "items": [EP], "t0": 1, "gap": 0,
                               "reqs": [mk_req(1, 3, {"mode": "status", "code": code, "body": body}, id=[7, "r1"][k % 2])]}))
    for i, txt in enumerate(HOSTILE):
        k += 1
        out.append(finish({"T": T, "tie": TIES[k % 3], "items": [EP], "t0": 1, "gap": 0,
                           "reqs": [mk_req(1, 3, {"mode": "status", "code": 500, "body": "text", "text": txt}), mk_req(2, 5, {"mode": "exc", "exc_text": txt})]}))
    # -- events that carry nothing, duplicated messages, magic substrings, odd member order: around requests
    for i, e in enumerate(EMPTY_EVENTS):
        for spec in ({"mode": "200"}, {"mode": "ackev", "d": 3, "ed": 9}):
            k += 1
            items = [e, EP, e, msg_notif(1), e, msg_notif(1), msg_magic(i, True), e, msg_magic(i, False), msg_odd(i), e]
            if e["text"].startswith("event: endpoint") or "session_id=ka" in e["text"]:
                items = items[1:]  # before the announcement these would BE (or not be) the announcement: see establish
            nbytes = len("".join(render_item(it) for it in items).encode("utf-8"))
            out.append(finish({"T": T, "tie": TIES[k % 3], "items": items, "cuts": sorted(rng.sample(range(1, nbytes), 4)), "t0": 1, "gap": k % 3,
                               "reqs": [mk_req(1, 3, spec)]}))
    # -- the server half-closes: ends the event stream after the announcement, POSTs keep working
    for spec in ({"mode": "200"}, {"mode": "silence", "d": 2}, {"mode": "status", "code": 500, "body": "text"}, {"mode": "exc"}):
        for close in (0, 2, 40):
            k += 1
            out.append(finish({"T": T, "tie": TIES[k % 3], "items": [EP, msg_notif(2)], "t0": 1, "gap": 0, "close": close,
                               "reqs": [mk_req(1, 3, spec), mk_req(2, 6, {"mode": "200"})]}))
    # -- headers / bearer token variants (inputs only: the property does not name the headers)
    for i, ps in enumerate(PARAM_SETS):
        for conn in ({"k": "ok", "at": 0}, {"k": "status", "at": 0, "code": 401}):
            k += 1
            out.append(finish({"T": T, "tie": TIES[k % 3], "conn": conn, "params": ps, "items": [EP], "t0": 1, "gap": 0, "reqs": [probe_req()]}))
    # -- reuse: a second session on the same parameters object; the alternate entry point
    for conn, items, close in (({"k": "ok", "at": 0}, [EP, msg_notif(1)], None), ({"k": "status", "at": 1, "code": 404}, [], None),
                               ({"k": "ok", "at": 0}, [], 3), ({"k": "error", "at": 2}, [], None)):
        for extra in ({"warm": True}, {"api": "fallback"}, {"warm": True, "api": "fallback"}):
            k += 1
            c = {"T": T, "tie": TIES[k % 3], "conn": conn, "items": items, "t0": 1, "gap": 0, "close": close,
                 "reqs": [mk_req(1, 3, {"mode": "ackev", "d": 3, "ed": 9}), mk_req(2, 4, {"mode": "200"})]}
            c.update(extra)
            out.append(finish(c))
    # -- back-pressure towards the producer: the client awaits every send while the sender is
    #    blocked in a 202 wait; more messages than the write buffer (100) holds
    for n in (99, 100, 101, 150):
        for first in ({"mode": "silence", "d": 2}, {"mode": "ackev", "d": 2, "ed": 60}):
            k += 1
            reqs = [mk_req(1, 2, first)] + [{"id": None, "at": 3, "mode": "notif", "params": {"i": i}} for i in range(n)] + [mk_req(2, 3, {"mode": "200"})]
            c = {"T": 64, "tie": TIES[k % 3], "items": [EP], "t0": 1, "gap": 0, "write_mode": "await", "reqs": reqs}
            out.append(finish(c))
    # -- one very long message (crosses many chunks)
    for size in ((20000,) if budget == "quick" else (20000, 100000)):
        k += 1
        big = {"k": "msg", "m": {"jsonrpc": "2.0", "method": "notifications/message", "params": {"t": "%s{}é" * (size // 6)}}, "typed": True}
        items = [EP, big, msg_notif(1)]
        nbytes = len("".join(render_item(it) for it in items).encode("utf-8"))
        out.append(finish({"T": T, "tie": TIES[k % 3], "items": items, "cuts": list(range(1000, nbytes, 4096)), "t0": 1, "gap": 0, "reqs": [probe_req()]}))
    return out


def invalid_parameter_cases():
    """URLs the library refuses: creating / entering the context raises at once (oracle only)"""
    out = []
    for i, url in enumerate(["", "ftp://h.test", "h.test/sse", "ftp://h.test/404 not found", "ws://h.test/405 method not allowed", "HTTP://h.test"]):
        for api in ("sse_client", "fallback"):
            out.append(finish({"boundary": True, "T": 256, "tie": TIES[i % 3], "base": url, "api": api, "items": [EP], "reqs": [probe_req()]}))
    return out


def partial_init_cases():
    """creating one of the two HTTP clients fails: entering raises at once and `_cleanup` runs on a
    half-built transport (oracle only: the model has no such fault)"""
    return [finish({"boundary": True, "T": 256, "tie": TIES[n % 3], "ctor_fails": n, "items": [EP], "reqs": [probe_req()]}) for n in (1, 2)]


def boundary_cases(budget, rng):
    """arrivals exactly on the timer boundaries of the code (enter timeout, connection cap, 202
    wait); either side of the tie satisfies the property, so these run with the oracle only"""
    out = invalid_parameter_cases() + partial_init_cases()
    T = 256
    for tie in TIES:
        for dt in (-1, 0, 1):
            out.append(finish({"boundary": True, "T": T, "tie": tie, "conn": {"k": "ok", "at": 0}, "items": [EP], "t0": T + dt, "reqs": [probe_req()]}))
            out.append(finish({"boundary": True, "T": T, "tie": tie, "conn": {"k": "ok", "at": 0}, "items": [], "close": T + dt - 1, "t0": 1, "reqs": [probe_req()]}))
            out.append(finish({"boundary": True, "T": T, "tie": tie, "conn": {"k": "ok", "at": T + dt}, "items": [EP], "t0": T + dt, "reqs": [probe_req()]}))
            out.append(finish({"boundary": True, "T": T, "tie": tie, "conn": {"k": "status", "at": T + dt, "code": 404}, "items": [], "reqs": [probe_req()]}))
            if lits()["cap"] is not None:
                C = lits()["cap"]
                out.append(finish({"boundary": True, "T": C + 2048, "tie": tie, "conn": {"k": "ok", "at": C + dt}, "items": [EP], "t0": C + dt + 2, "reqs": [probe_req()]}))
            # the answer on the event stream exactly when the 202 wait expires: still in time (dt<=0)
            if dt <= 0:
                out.append(finish({"boundary": True, "T": T, "tie": tie, "items": [EP], "t0": 1, "gap": 0,
                                   "reqs": [mk_req(1, 3, {"mode": "ackev", "d": 4, "ed": 4 + T + dt}), mk_req(2, 5, {"mode": "200"})]}))
    return out


def features(case):
    """which rarely taken paths / input classes a case exercises (printed in the evidence
    distribution as `feature:*` so that gaps are visible)"""
    f = set()
    conn = case.get("conn", {"k": "ok"})
    f.add("conn:" + conn["k"])
    for it in case.get("items", []):
        if it["k"] == "endpoint":
            f.add("endpoint:" + it["form"] + (":crlf" if it.get("crlf") else "") + (":pad" if it.get("pad") else ""))
        elif it["k"] == "msg":
            f.add("msg:" + ("typed" if it.get("typed", True) else "data-only") + ("" if it.get("valid", True) else ":invalid"))
        elif it["k"] == "burst":
            f.add("burst:" + ("<100" if it["n"] < 100 else "=100" if it["n"] == 100 else ">100"))
        elif it["k"] == "bigmsg":
            f.add("bigmsg:%dK" % (it["n"] // 1000))
        else:
            f.add("raw:" + repr(it["text"][:24]))
    if case.get("close") is not None:
        f.add("stream-closed-by-server")
    for r in case.get("reqs", []):
        m = r["mode"]
        if m == "status":
            m += ":" + str(r.get("code", 500)) + ":" + r.get("body", "text")
        if m == "200" and r.get("body200", "rpc") != "rpc":
            m += ":" + r["body200"]
        f.add("req:" + m)
        if r["mode"] not in ("notif", "garbage"):
            i = r["id"]
            f.add("id:" + ("int" if isinstance(i, int) else "str") + (":falsy" if not i else "") + (":digits" if isinstance(i, str) and i.lstrip("-").isdigit() else ""))
        if r.get("form"):
            f.add("form:" + r["form"])
        if r.get("answer") and "big" in r["answer"]:
            f.add("answer:big:%dK" % (r["answer"]["big"] // 1000))
        elif r.get("answer"):
            f.add("answer:" + r["answer"]["kind"] + (":empty" if not (r["answer"].get("payload") or r["answer"].get("message")) else ""))
        if r.get("typed") is False:
            f.add("response-event:data-only")
        if r.get("cuts"):
            f.add("response-event:cut")
    ids = [r.get("id") for r in real_reqs(case)]
    if len(set(map(str, ids))) < len(ids):
        f.add("ids:same-str-key-twice")
    for name in ("warm", "api", "write_mode", "params", "close_raises", "notif_post", "pause", "boundary", "stderr", "close_write_at",
                 "close_read_at", "twin", "debug_log"):
        if case.get(name):
            f.add(name + (":" + str(case[name]) if name in ("api", "write_mode", "notif_post") else ""))
    f.add("tie:" + case.get("tie", "events"))
    f.add("exit:" + case.get("exit", {}).get("k", "normal"))
    return f


def styled(it, k):
    """the same item in the k-th conformant rendering style"""
    it = dict(it)
    if it["k"] not in ("msg", "endpoint"):
        return it
    it["nospace"] = bool(k & 1)
    it["crlf"] = bool(k & 2)
    if it["k"] == "msg":
        it["multiline"] = bool(k & 4)
        if k & 8:
            it["inner"] = [[": keep-alive"], ["id: 5", "retry: 10"], [":"], ["id", ": x"]][(k >> 4) % 4]
        if (k & 16) and it.get("typed", True):
            it["event_last"] = True
    return it


def grammar_cases(budget, rng):
    """every conformant rendering of the same events: optional space after the colon, LF / CRLF,
    data spread over several lines, comments and other fields inside an event, fields in any
    order — for the announcement, for server messages and for the answer of a request"""
    out = []
    T = 256
    k = 0
    # the announcement
    for form in ENDPOINT_FORMS:
        if form in NOT_ANNOUNCING:
            continue
        for crlf in (False, True):
            for pad in (False, True):
                k += 1
                c = {"base": base_for(form), "T": T, "tie": TIES[k % 3], "conn": {"k": "ok", "at": 0},
                     "items": [{"k": "endpoint", "form": form, "pad": pad, "crlf": crlf, "nospace": True}, styled(msg_notif(k), k)],
                     "cuts": [], "t0": 1 + k % 4, "gap": 0, "reqs": [probe_req()]}
                out.append(finish(c))
    # server messages in every style, cut anywhere
    base_items = [msg_notif(1), msg_srvreq(1), msg_unicode(2), msg_foreign_resp(3), msg_magic(4, True), msg_magic(5, False), msg_odd(6), msg_invalid(7)]
    n = 64 if budget == "quick" else 32 * 8
    for st in range(n):
        k += 1
        items = [styled(EP, st)] + [styled(it, st + 3 * j) for j, it in enumerate(base_items)]
        nbytes = len("".join(render_item(it) for it in items).encode("utf-8"))
        cuts = sorted(rng.sample(range(1, nbytes), rng.randint(0, 5)))
        out.append(finish({"T": T, "tie": TIES[k % 3], "items": items, "cuts": cuts, "t0": 1, "gap": k % 3, "reqs": [probe_req()]}))
    # the answer of a request on the event stream
    for mode, d, ed in (("evack", 9, 3), ("ackev", 3, 9)):
        for nospace in (False, True):
            for multiline in (False, True):
                for typed in (True, False):
                    for cuts, gap in (([], 0), ([9, 30], 1)):
                        for rid in ("r1", 7):
                            k += 1
                            if budget == "quick" and (k % 2) and cuts:
                                continue
                            r = mk_req(1, 3, {"mode": mode, "d": d + 2 * len(cuts), "ed": ed if mode == "evack" else ed + 2 * len(cuts)}, id=rid, nospace=nospace,
                                       multiline=multiline, typed=typed, cuts=cuts, gap=gap)
                            out.append(finish({"T": T, "tie": TIES[k % 3], "items": [EP, styled(msg_notif(k), k)], "t0": 1, "gap": 0, "reqs": [r, mk_req(2, 5, {"mode": "200"})]}))
    return out


POST_KINDS = [
    {"mode": "posthang"},                      # accepted, never answered: ends with the client's read timeout
    {"mode": "200"}, {"mode": "200", "body200": "nonjson"}, {"mode": "200", "body200": "empty"},
    {"mode": "silence"},                       # 202
    {"mode": "status", "code": 500, "body": "text"}, {"mode": "status", "code": 404, "body": "empty"},
    {"mode": "status", "code": 500, "body": "detail"}, {"mode": "status", "code": 400, "body": "rpc"},
    {"mode": "exc"},
]
# a 200 whose body is not the answer (an acknowledgement document, a response to something else):
# the request must still get its one terminal message (findings/C12-200-with-non-answer-body.json,
# repaired in /repo by 03a72e1); VERIF_C12_200ACK=0 leaves these cells out
POST_KINDS_200_ACK = [{"mode": "200", "body200": "foreign"}, {"mode": "200", "body200": "ack"}]
GENERATE_200_NON_ANSWER = os.environ.get("VERIF_C12_200ACK", "1") != "0"


def race_matrix_cases(budget, rng):
    """every order of {answer on the event stream, POST completion} x every way the POST can
    complete, followed by two more requests on the same session (a stalled reader or sender shows
    there), under the three tie orders"""
    out = []
    T = 64
    D = 7
    kinds = POST_KINDS + (POST_KINDS_200_ACK if GENERATE_200_NON_ANSWER else [])
    k = 0
    for kind in kinds:
        for ed, tpf in ((None, False), (2, False), (D - 1, False), (D, False), (D, True), (D + 1, False), (D + 6, False)):
            for tie in TIES:
                for cuts, gap in (([], 0), ([25], 1)):
                    k += 1
                    if cuts and (ed is None or budget == "quick" and k % 3):
                        continue
                    if cuts and ed is not None and ed <= D <= ed + gap:
                        continue
                    spec = dict(kind, d=D)
                    if ed is not None:
                        spec.update(ed=ed, tiePostFirst=tpf, cuts=cuts, gap=gap, typed=bool(k % 2))
                    rid = [7, "r1", 0, ""][k % 4]
                    reqs = [mk_req(1, 3, spec, id=rid, form=("dict", "model")[k % 2]), mk_req(2, 4, {"mode": "200", "d": 2}),
                            mk_req(3, 5, {"mode": "ackev", "d": 2, "ed": 5})]
                    c = {"T": T, "tie": tie, "items": [EP, msg_notif(k)], "t0": 1, "gap": 0, "reqs": reqs}
                    if ed == D:
                        c["boundary"] = True  # same instant: which of the two the code sees first is not scripted; oracle only
                    out.append(finish(c))
    return out


# ------------------------------------------------------------------ hardening sweep 2 (HARDEN2.md)
# C. every option of SSEParameters that defaults to off / None, set: crossed with everything
OPTION_SETS = [
    {},
    {"session_id": "sess-1"},
    {"bearer_token": "tok"},
    {"session_id": ""},
    {"headers": {"X-A": "1"}},
    {"auto_reconnect": False},
    {"session_id": "s 2&x=1", "bearer_token": "Bearer t", "headers": {"Authorization": "x"}, "auto_reconnect": True, "max_reconnect_attempts": 9},
    {"max_reconnect_attempts": 1, "reconnect_delay": 0.5},   # (boundary values of the validators: units suite, supplementary)
    {"sse_endpoint": "/events", "message_endpoint_base": "/rpc"},
    {"keep_alive_interval": 5.0},
    {"some_future_option": True},
]


def decorate(cases, suite):
    """cross-cutting dimensions applied to every suite's cases, deterministically:
    A. a quarter of the cases run as inside a host that configured logging at DEBUG;
    C. the parameter options cycle through OPTION_SETS (cases that set options themselves keep them);
    B. every 7th case of the session suites runs as 2 or 3 concurrent sessions in one process
       (own scripted server each, same script, same request ids)."""
    out = []
    for k, c in enumerate(cases):
        c = dict(c)
        if k % 4 == 1:
            c["debug_log"] = True
        if "params" not in c and not c.get("api"):
            o = OPTION_SETS[(k // 2) % len(OPTION_SETS)] if k % 2 else {}
            if o:
                c["params"] = o
        if suite in ("establish", "requests", "race-matrix", "variants", "grammar", "exits", "repeats") and k % 7 == 3 \
                and not c.get("warm") and not c.get("ctor_fails") and c.get("write_mode") != "await":
            c["twin"] = 2 + (k // 7) % 2
            c["twin_offset"] = (0, 2)[(k // 14) % 2]
        out.append(c)
    return out


FAIL_SPECS = [{"mode": "posthang"}, {"mode": "exc"}, {"mode": "status", "code": 503, "body": "text"}, {"mode": "status", "code": 500, "body": "detail"},
              {"mode": "silence", "d": 2}, {"mode": "200", "body200": "empty"}, {"mode": "200", "body200": "ack"},
              {"mode": "exc", "exc_class": "OSError"}]
EXC_CLASSES = ["TypeError", "ValueError", "KeyError", "IndexError", "AttributeError", "RuntimeError", "RecursionError", "OSError",
               "Exception", "ReadTimeout", "ConnectError", "UnicodeDecodeError"]
BAD_IDS = [1.5, [1], {"a": 1}, [], {}]  # (the library's parser takes true / false as 1 / 0: unspecified, not generated)
SYNTAX_TEXT = ["data: x", "event: endpoint", ":comment", "retry: 5", "id: 1", "[NaN]", ":Infinity,", "{}", "values=[1.0, NaN]",
               "{\"jsonrpc\":\"2.0\",\"id\":\"r1\",\"result\":{}}", "\n\ndata: evil\n\n"]
SYNTAX_JUNK = [
    {"k": "raw", "text": "data: data: x\n\n"},
    {"k": "raw", "text": "data: event: endpoint\n\n"},
    {"k": "raw", "text": "data: :\n\n"},
    {"k": "raw", "text": ": data: {\"jsonrpc\":\"2.0\",\"method\":\"hidden/in-comment\"}\n"},
    {"k": "raw", "text": "retry: data: {\"jsonrpc\":\"2.0\",\"method\":\"hidden/in-retry\"}\n\n"},
    {"k": "raw", "text": "event: message\nid: data: x\n\n"},
]


def msg_badid(i, v):
    """a server message whose id has a type JSON-RPC does not allow: the library's parser refuses it"""
    return {"k": "msg", "m": {"jsonrpc": "2.0", "id": v, "result": {"i": i}}, "typed": bool(i % 2), "valid": False}


def repeat_cases(budget, rng):
    """D. the same failure 2, 3, 4 times in a row, then success; a failure between two successes;
    consecutive failing sessions on one parameters object, then a good one;
    E. ids / bodies of every JSON type in the peer- and caller-supplied positions;
    F. every builtin exception class where the code catches around a peer-controlled call;
    G. text that looks like event-stream / JSON syntax."""
    out = []
    T = 64
    k = 0
    ok_specs = [{"mode": "200"}, {"mode": "ackev", "d": 2, "ed": 5}]
    # D: requests
    for f in FAIL_SPECS:
        for n in (2, 3, 4):
            for okspec in ok_specs:
                k += 1
                if budget == "quick" and n == 3 and k % 2:
                    continue
                reqs = [mk_req(j + 1, 3 + j, dict(f)) for j in range(n)] + [mk_req(n + 1, 3 + n, okspec)]
                out.append(finish({"T": T, "tie": TIES[k % 3], "items": [EP, msg_notif(k)], "t0": 1, "gap": 0, "reqs": reqs}))
        k += 1
        reqs = [mk_req(1, 3, ok_specs[0]), mk_req(2, 4, dict(f)), mk_req(3, 5, ok_specs[1]), mk_req(4, 6, dict(f)), mk_req(5, 7, ok_specs[0])]
        out.append(finish({"T": T, "tie": TIES[k % 3], "items": [EP], "t0": 1, "gap": 0, "reqs": reqs}))
    # D: failing notification POSTs in a row, then a request
    for nf in ("exc", 500):
        for n in (2, 4):
            k += 1
            reqs = [{"id": None, "at": 3 + j, "mode": "notif", "params": {"i": j}} for j in range(n)] + [mk_req(9, 3 + n, ok_specs[k % 2])]
            out.append(finish({"T": T, "tie": TIES[k % 3], "items": [EP], "t0": 1, "gap": 0, "reqs": reqs, "notif_post": nf}))
    # D: consecutive failing sessions on one parameters object, then the observed one
    bad_conns = [{"k": "status", "at": 1, "code": 503}, {"k": "error", "at": 0}, {"k": "status", "at": 0, "code": 404},
                 {"k": "error", "at": 2, "exc_class": "OSError"}]
    for bc in bad_conns:
        for n in (1, 2, 4):
            for final in ({"k": "ok", "at": 0}, bc):
                k += 1
                c = {"T": T, "tie": TIES[k % 3], "conn": final, "warm": [bc] * n, "items": [EP, msg_notif(1)], "t0": 1, "gap": 0,
                     "reqs": [mk_req(1, 3, ok_specs[k % 2])], "params": OPTION_SETS[k % len(OPTION_SETS)]}
                out.append(finish(c))
    k += 1
    out.append(finish({"T": T, "tie": "io", "conn": {"k": "ok", "at": 0}, "warm": [None, bad_conns[0], None, bad_conns[1]], "items": [EP], "t0": 1, "gap": 0,
                       "reqs": [mk_req(1, 3, {"mode": "200"})], "params": {"session_id": "again"}}))
    # F: exception classes: POST, connection attempt, the event stream itself
    for ec in EXC_CLASSES:
        k += 1
        out.append(finish({"T": T, "tie": TIES[k % 3], "items": [EP], "t0": 1, "gap": 0,
                           "reqs": [mk_req(1, 3, {"mode": "exc", "exc_class": ec}), mk_req(2, 4, {"mode": "exc", "exc_class": ec, "ed": 2}),
                                    mk_req(3, 5, {"mode": "200"})]}))
        out.append(finish({"T": T, "tie": TIES[k % 3], "conn": {"k": "error", "at": k % 3, "exc_class": ec}, "items": [EP], "reqs": [probe_req()],
                           "params": OPTION_SETS[k % len(OPTION_SETS)]}))
        # the stream fails after the announcement: POSTs keep working, a 202 ends with the timeout error
        out.append(finish({"T": T, "tie": TIES[k % 3], "items": [EP, msg_notif(1)], "t0": 1, "gap": 0, "close": 2, "close_exc": ec,
                           "reqs": [mk_req(1, 6, {"mode": "200"}), mk_req(2, 7, {"mode": "silence", "d": 2}), mk_req(3, 8, {"mode": "200"})]}))
        # ... and before any announcement: entering must raise
        out.append(finish({"T": T, "tie": TIES[k % 3], "items": [msg_notif(1)], "t0": 1, "gap": 0, "close": 2, "close_exc": ec, "reqs": [probe_req()],
                           "params": OPTION_SETS[(k + 1) % len(OPTION_SETS)]}))
    for b200 in ("badutf8", "list", "null", "number", "string", "true"):
        for ed in (None, 2, 9):
            k += 1
            spec = {"mode": "200", "body200": b200, "d": 5}
            if ed is not None:
                spec["ed"] = ed
            out.append(finish({"T": T, "tie": TIES[k % 3], "items": [EP], "t0": 1, "gap": 0, "reqs": [mk_req(1, 3, spec), mk_req(2, 4, {"mode": "200"})]}))
    for body in ("list", "null", "number", "string"):
        k += 1
        out.append(finish({"T": T, "tie": TIES[k % 3], "items": [EP], "t0": 1, "gap": 0,
                           "reqs": [mk_req(1, 3, {"mode": "status", "code": 500, "body": body}), mk_req(2, 4, {"mode": "200"})]}))
    # E: ids of every JSON type, written by the caller and sent by the peer, around ordinary requests
    for v in BAD_IDS:
        k += 1
        reqs = [{"id": v, "at": 3, "mode": "rawid"}, mk_req(1, 4, {"mode": "200"}), mk_req(2, 5, {"mode": "ackev", "d": 2, "ed": 5})]
        out.append(finish({"T": T, "tie": TIES[k % 3], "items": [EP, msg_badid(k, v), msg_notif(k), msg_badid(k + 1, v)], "t0": 1, "gap": 2, "reqs": reqs}))
    # G: text that looks like syntax, as ids, in keys and values, and as raw lines
    for t in SYNTAX_TEXT:
        k += 1
        m = {"k": "msg", "m": {"jsonrpc": "2.0", "method": "notifications/message", "params": {t: t, "v": [t, {t: None}]}}, "typed": bool(k % 2),
             "multiline": bool(k % 3 == 0), "nospace": bool(k % 5 == 0)}
        items = [EP, m] + SYNTAX_JUNK + [dict(m)]
        nbytes = len("".join(render_item(it) for it in items).encode("utf-8"))
        out.append(finish({"T": T, "tie": TIES[k % 3], "items": items, "cuts": sorted(rng.sample(range(1, nbytes), 3)), "t0": 1, "gap": 1,
                           "reqs": [mk_req(1, 3, {"mode": "ackev", "d": 2, "ed": 6}, id=t, answer={"kind": "result", "payload": {t: t}}),
                                    mk_req(2, 5, {"mode": "200"})]}))
    return out


# ------------------------------------------------------------------ hardening sweep 3 (HARDEN3.md)
def srvreq_with_id(v, i=0, typed=True):
    """a SERVER request (it has a method) numbered like a client request: both peers number from 1"""
    return {"k": "msg", "m": {"jsonrpc": "2.0", "id": v, "method": ("roots/list", "ping", "sampling/createMessage")[i % 3]}, "typed": typed}


def size_cases(budget, rng):
    """I. one event far above every buffer (64 KiB reads, 100 slots): 70 KB / 300 KB / 1 MB, arriving
    in chunks of <= 16 KiB and <= 64 KiB, as a server message and as the answer of a request, with
    small messages before and after; the 1000th message of a session."""
    from . import sse_h
    out = []
    T = 256
    k = 0
    sizes = (70_000, 300_000) if budget == "quick" else (70_000, 300_000, 1_000_000)
    for n in sizes:
        for step in (16384, 65536):
            k += 1
            # as a server message
            items = [EP, msg_notif(1), {"k": "bigmsg", "n": n, "i": k, "typed": bool(k % 2), "crlf": bool(k % 3 == 0)}, msg_notif(2), msg_srvreq(3)]
            c = {"T": T, "tie": TIES[k % 3], "items": items, "t0": 1, "gap": k % 2, "reqs": [probe_req()]}
            nbytes = len(stream_bytes(c))
            c["cuts"] = list(range(step - 7, nbytes, step))
            if n > 100_000:
                c["boundary"] = True   # too large for the model driver's line protocol: oracle only
            out.append(finish(c))
            # as the answer of a request: on the event stream (both orders) and in the POST reply
            for spec in ({"mode": "ackev", "d": 2, "ed": 6}, {"mode": "evack", "d": 40, "ed": 3}, {"mode": "200", "d": 3}):
                k += 1
                r = mk_req(1, 3, spec, id=[7, "r1"][k % 2], answer={"kind": "result", "big": n})
                if "ed" in spec:
                    evlen = len(sse_h.sse_event_bytes(sse_h.answer_msg(r, "ev")))
                    r.update(cuts=list(range(step - 11, evlen, step)), gap=0)
                c = {"T": T, "tie": TIES[k % 3], "items": [EP, msg_notif(k)], "t0": 1, "gap": 0,
                     "reqs": [r, mk_req(2, 50, {"mode": "200"}), mk_req(3, 51, {"mode": "ackev", "d": 2, "ed": 5})]}
                if n > 100_000:
                    c["boundary"] = True
                out.append(finish(c))
    # the 1000th message of a session (the consumer reads along)
    out.append(finish({"T": T, "tie": "io", "items": [EP, {"k": "burst", "n": 1100, "start": 0}, msg_srvreq(1)], "cuts": "items", "t0": 1, "gap": 0,
                       "reqs": [mk_req(1, 3, {"mode": "ackev", "d": 2, "ed": 4})]}))
    return out


def collision_cases(budget, rng):
    """M/K. both peers number their requests from 1: after a client request has been answered (in
    every mode), a SERVER request / notification with the same id is an ordinary server message and
    must be delivered, once; so must a response-shaped message for an id that was never asked."""
    out = []
    T = 64
    k = 0
    modes = ALL_MODES + [{"mode": "200", "ed": 2, "d": 7}, {"mode": "exc", "ed": 2, "d": 7}]
    for spec in modes:
        for cid, sid in ((1, 1), ("1", "1"), (1, "1"), ("1", 1), ("r1", "r1")):
            k += 1
            if budget == "quick" and k % 2 and cid != sid:
                continue
            items = [EP, msg_notif(k), srvreq_with_id(sid, k, True), srvreq_with_id(sid, k + 1, False), msg_notif(k + 1)]
            c = {"T": T, "tie": TIES[k % 3], "items": items, "cuts": "items", "t0": 1, "gap": 150,
                 "reqs": [mk_req(1, 3, dict(spec), id=cid, form=("dict", "model")[k % 2]), mk_req(2, 4, {"mode": "200"}, id=2)]}
            out.append(finish(c))
    # several answered requests, then server requests reusing all of their ids, interleaved with new client requests
    for tie in TIES:
        k += 1
        reqs = [mk_req(j + 1, 3 + j, REQ_MODES[(k + j) % len(REQ_MODES)], id=j + 1) for j in range(4)]
        reqs += [mk_req(9, 700, {"mode": "200"}, id=5), mk_req(10, 701, {"mode": "ackev", "d": 2, "ed": 5}, id=6)]
        items = [EP] + [srvreq_with_id(j + 1, j, bool(j % 2)) for j in range(6)]
        out.append(finish({"T": T, "tie": tie, "items": items, "cuts": "items", "t0": 1, "gap": 120, "reqs": reqs}))
    return out


def environment_cases(budget, rng):
    """H. the process around the transport: a stderr that cannot be written (daemonised host) or is
    ASCII-only while the code reports a swallowed failure; hours of (virtual) idle time between two
    operations;  M. dict / str subclasses and Unicode twins as messages and ids;
    N. `"error": null` next to a result and `"result": null` next to an error; a BOM."""
    out = []
    T = 64
    k = 0
    for err in ("broken", "ascii"):
        for nf in ("exc", 500, None):
            for first in ({"mode": "notif", "params": {"t": "é€"}}, {"mode": "garbage"}, {"mode": "exc", "exc_text": "é€ failed"}):
                k += 1
                reqs = [mk_req(1, 3, first), mk_req(2, 4, {"mode": "200"}), mk_req(3, 5, {"mode": "ackev", "d": 2, "ed": 5})]
                c = {"T": T, "tie": TIES[k % 3], "stderr": err, "items": [EP, msg_unicode(k)], "t0": 1, "gap": 0, "reqs": reqs}
                if nf is not None:
                    c["notif_post"] = nf
                out.append(finish(c))
    HOURS = 3 * 3600 * 1024
    for tie in TIES:
        k += 1
        out.append(finish({"T": T, "tie": tie, "items": [EP, msg_notif(1), msg_srvreq(2)], "cuts": "items", "t0": 1, "gap": HOURS,
                           "reqs": [mk_req(1, 3, {"mode": "200"}), mk_req(2, HOURS // 2, {"mode": "ackev", "d": 2, "ed": 5}),
                                    mk_req(3, 3 * HOURS, {"mode": "silence", "d": 2})]}))
    for form in ("dictsub", "odict"):
        for spec in REQ_MODES:
            k += 1
            out.append(finish({"T": T, "tie": TIES[k % 3], "items": [EP], "t0": 1, "gap": 0,
                               "reqs": [mk_req(1, 3, spec, form=form), mk_req(2, 5, {"mode": "notif", "form": form})]}))
    for ids in (["\u00e9", "e\u0301"], ["e\u0301", "\u00e9"], ["\ufeffr1", "r1"], ["R1", "r1"]):
        k += 1
        ids = [i.encode().decode("unicode_escape") for i in ids]
        reqs = [mk_req(j + 1, 3 + j, [{"mode": "silence", "d": 2}, {"mode": "ackev", "d": 2, "ed": 5}][j % 2], id=i) for j, i in enumerate(ids)]
        out.append(finish({"T": T, "tie": TIES[k % 3], "items": [EP], "t0": 1, "gap": 0, "reqs": reqs}))
    for ans, extra in (({"kind": "result", "payload": {"ok": 1}}, {"error": None}), ({"kind": "error", "code": 5, "message": "m"}, {"result": None})):
        for spec in ({"mode": "200"}, {"mode": "ackev", "d": 2, "ed": 5}, {"mode": "evack", "d": 7, "ed": 2}, {"mode": "status", "code": 400, "body": "rpc"}):
            k += 1
            out.append(finish({"T": T, "tie": TIES[k % 3], "items": [{"k": "raw", "text": "\ufeff".encode().decode("unicode_escape")}, EP], "t0": 1, "gap": 0,
                               "reqs": [mk_req(1, 3, spec, answer=ans, extra=extra), mk_req(2, 5, {"mode": "200"})]}))
    return out


def announced_url(case):
    """the announced message endpoint when the announcement is an absolute http(s) URL (then it is
    unambiguous where requests must go), else None"""
    for it in items_of(case):
        if it["k"] == "endpoint" and it["form"] not in NOT_ANNOUNCING:
            d = ENDPOINT_FORMS[it["form"]][0].strip()
            return d if d.startswith(("http://", "https://")) else None
    return None


def twin_id_cases(budget, rng):
    """while a request with id "7" is pending, a message bearing 7 (the other JSON type) arrives on
    the event stream - and the other way round: it is not that request's answer; it is delivered as
    the server message it is, and the request still ends with its own answer"""
    out = []
    T = 64
    k = 0
    for mine, other in (("7", 7), (7, "7"), ("0", 0), (0, "0")):
        for spec in ({"mode": "ackev", "d": 2, "ed": 30}, {"mode": "silence", "d": 2}, {"mode": "200", "d": 30}, {"mode": "posthang"},
                     {"mode": "evack", "d": 30, "ed": 25}):
            for shape in ("response", "request", "error"):
                k += 1
                if budget == "quick" and k % 2 and shape == "error":
                    continue
                m = {"jsonrpc": "2.0", "id": other}
                m.update({"response": {"result": {"twin": k}}, "request": {"method": "ping"}, "error": {"error": {"code": 1, "message": "twin"}}}[shape])
                items = [EP, {"k": "msg", "m": m, "typed": bool(k % 2)}, msg_notif(k)]
                c = {"T": T, "tie": TIES[k % 3], "items": items, "cuts": "items", "t0": 1, "gap": 6,
                     "reqs": [mk_req(1, 3, dict(spec), id=mine, form=("dict", "model")[k % 2]), mk_req(2, 4, {"mode": "200"}, id="after")]}
                out.append(finish(c))
    return out


def silent_longer_than_timeout(case):
    """the scripted event stream stays silent for longer than the configured timeout somewhere
    (between the GET and the first chunk, or between two chunks)"""
    plan, close = chunk_plan(case)
    T = case.get("T", T_DEFAULT)
    ticks = [case.get("conn", {}).get("at", 0)] + [t for t, _ in plan]
    gaps = [b - a for a, b in zip(ticks, ticks[1:])]
    last = ticks[-1]
    reqs_after = [r for r in case.get("reqs", []) if "ed" in r and r["at"] + r["ed"] - last > T]
    return any(g > T for g in gaps) or bool(reqs_after)


KEEPALIVES = [None, {"k": "raw", "text": ": keep-alive\n"}, {"k": "raw", "text": "event: keepalive\ndata: {}\n\n"},
              {"k": "raw", "text": "event: ping\ndata: 1\n\n"}, {"k": "raw", "text": ":\n\n"}]
# every field of SSEParameters set at least once, with the small / zero / very large values the class accepts
INTERVAL_PARAM_SETS = [
    {},
    {"keep_alive_interval": 0.5},
    {"keep_alive_interval": 2.0, "reconnect_delay": 0.25, "auto_reconnect": False},
    {"reconnect_delay": 0, "max_reconnect_attempts": 0, "session_id": "k"},
    {"keep_alive_interval": 1000000.0, "reconnect_delay": 1000000.0, "max_reconnect_attempts": 10 ** 9},
    {"keep_alive_interval": 0.001, "sse_endpoint": "", "message_endpoint_base": "", "bearer_token": "t", "headers": {"X": "y"}},
]


def silence_cases(budget, rng):
    """the event stream is silent for 2x, 3x+1 and 10x every interval-like number the parameters
    class documents (timeout, keep_alive_interval, reconnect_delay; and the 15 s connection cap),
    with default and non-default values of them, after nothing / a comment / a keep-alive or ping
    event; then server messages arrive and a request is answered on the stream"""
    out = []
    k = 0
    for ps in INTERVAL_PARAM_SETS:
        T = 64
        ivals = {T, int(round(ps.get("keep_alive_interval", 30.0) * 1024)), int(round(ps.get("reconnect_delay", 1.0) * 1024)), 15 * 1024}
        ivals = sorted(v for v in ivals if 0 < v <= 40 * 1024)
        for v in ivals:
            for mult in (2 * v, 3 * v + 1, 10 * v):
                for pre in KEEPALIVES:
                    k += 1
                    if budget == "quick" and k % 2 and pre is not None and mult == 2 * v:
                        continue
                    items = [EP, msg_notif(0)] + ([pre] if pre else []) + [msg_notif(1), msg_srvreq(k), msg_notif(2)]
                    n0 = 2 + (1 if pre else 0)
                    ticks = [1, 2] + ([3] if pre else []) + [3 + mult, 4 + mult, 5 + 2 * mult]
                    c = {"T": T, "tie": TIES[k % 3], "params": ps, "items": items, "cuts": "items", "ticks": ticks,
                         "reqs": [mk_req(1, 3, {"mode": "200"}), mk_req(2, mult + 10, {"mode": "ackev", "d": 2, "ed": 5}, id=[7, "r2"][k % 2]),
                                  mk_req(3, 2 * mult + 20, {"mode": "evack", "d": 9, "ed": 3})]}
                    out.append(finish(c))
    return out


def progress_msg(token, i):
    params = {"progress": i, "total": 100}
    if token is not None:
        params["progressToken"] = token
    return {"k": "msg", "m": {"jsonrpc": "2.0", "method": "notifications/progress", "params": params}, "typed": bool(i % 2)}


def wait_traffic_cases(budget, rng):
    """a request acknowledged with 202 and never answered, while the event stream keeps carrying
    other traffic DURING the wait - progress for the request's token / a foreign token / no token,
    other notifications, server requests, responses to other ids, keep-alive comments - at periods
    below and above the timeout, for 3x and 10x the timeout: the request still ends with the
    synthesised timeout error WITHIN the timeout, and the next requests are served"""
    out = []
    T = 64
    k = 0
    kinds = {
        "progress-own": lambda i: progress_msg("tok-1", i),
        "progress-foreign": lambda i: progress_msg("tok-other", i),
        "progress-int-token": lambda i: progress_msg(7, i),
        "progress-no-token": lambda i: progress_msg(None, i),
        "notification": lambda i: msg_notif(i),
        "server-request": lambda i: msg_srvreq(i),
        "foreign-response": lambda i: msg_foreign_resp(i),
        "keep-alive": lambda i: {"k": "raw", "text": ": keep-alive %d\n" % i},
        "keepalive-event": lambda i: {"k": "raw", "text": "event: keepalive\ndata: %d\n\n" % i},
    }
    for name, mk in kinds.items():
        for period in (T // 4, T - 1, T + 1, 2 * T):
            for dur in (3 * T, 10 * T):
                k += 1
                if budget == "quick" and dur == 10 * T and period in (T + 1, 2 * T):
                    continue
                n = dur // period
                items = [EP] + [mk(i) for i in range(n)]
                ticks = [1] + [8 + i * period for i in range(n)]
                reqs = [mk_req(1, 3, {"mode": "silence", "d": 2}, id=[7, "r1"][k % 2], params={"_meta": {"progressToken": "tok-1"}}, form=("dict", "model")[k % 2]),
                        mk_req(2, 4, {"mode": "200"}), mk_req(3, 5, {"mode": "ackev", "d": 2, "ed": 5})]
                c = {"T": T, "tie": TIES[k % 3], "items": items, "cuts": "items", "ticks": ticks, "reqs": reqs}
                finish(c)
                c["exit"] = {"k": "normal", "at": max(c["exit"]["at"], 8 + dur + 3 * T + 40)}
                out.append(c)
    return out
