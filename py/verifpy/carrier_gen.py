"""Generators for C15: server conversations (what the server answers to each client request), the
free wire choices of each carrier, directed cases, shrinking."""
from __future__ import annotations

import copy
import json
import re

from . import http_gen as G

TEXTS = [
    "plain", "", " lead and trail ", "é ü — ☃", "\U0001F600\U0001D11E", "line sep para\u0085nel",
    "é ạ̊ 각", "tab\tnl\ncr\r quote\" back\\ slash/", "‍‮﻿", "\x00\x1f\x7f",
    "data: x", "event: endpoint", "}\n\n{", "\\u00e9 \\n", "\U0010FFFF퟿", "[1]", "null",
]
# format-hostile text (wherever text is logged, formatted or embedded)
HOSTILE = ["%", "%s %d %(x)s", "{}", "{0} {x}", "\r\n", "'", "\"", "\\", "\\\"", "%%", "{{}}", "$TOK?", "\x85", "\u2029\u2028"]
# constants of the anchored modules (transports, send_message) in open text / name positions
MAGIC = ["message", "response", "endpoint", "keepalive", "event: message", "data: {\"jsonrpc\":\"2.0\"}", "/messages/", "/mcp",
         "session_id=", "2.0", "Request timeout", "Parse error", "No JSON-RPC response in HTTP reply", "unknown", "Accepted",
         "notifications/progress", "notifications/cancelled", "progressToken", "_meta", "Cancelled by client", "JSON-RPC Error:",
         "application/json", "text/event-stream", "Mcp-Session-Id", "[DONE]"]
# text that looks like the syntax being produced or parsed (JSON, SSE fields, NDJSON framing)
SYNTAX = ["NaN", "[NaN]", ":Infinity,", "-Infinity", "values=[1.0, NaN]", "data:", "data: {\"jsonrpc\":\"2.0\",\"id\":1,\"result\":{}}", "event: message",
          "event:endpoint", "id: 1", "retry: 0", ": comment", ":", "{}", "[]", "{\"jsonrpc\":\"2.0\",\"id\":1,\"result\":{}}", "\n\ndata: x\n\n", "\r\n\r\n",
          "]}", "\"}", "\\u0000", "null", "true", "1e309", "[1,", "\ufeff{"]
TWINS = ["\u00e9", "e\u0301", "\u212b\u00c5A\u030a", "a\ufeffb", "\ufeff", "\ufffe", "\ufffd", "I\u0307\u0130\u0131", "\u1e9e\u00df", "ﬁ"]   # NFC / NFD twins, BOM inside text, case-mapping oddities
TEXTS = TEXTS + HOSTILE + MAGIC + SYNTAX + TWINS
CT_UTF8 = [None, None, None, "; charset=utf-8", "; CHARSET=UTF-8", "; charset=\"utf-8\"", ";charset=UTF8", "; boundary=x; charset=utf-8"]
CT_OTHER = ["; charset=ISO-8859-1", "; charset=windows-1252", ";charset=us-ascii", "; charset=utf-16", "; boundary=x; charset=latin1", "; charset=bogus",
            "; charset=\"ISO-8859-1\"", "; CHARSET=Latin1"]
CT_PARAMS = CT_UTF8 + CT_OTHER   # Content-Type parameters of a reply: JSON and event streams are UTF-8 whatever the label says
MIME_CASE = {"application/json": ["Application/JSON", "APPLICATION/JSON", "application/JSON"],
             "text/event-stream": ["Text/Event-Stream", "TEXT/EVENT-STREAM", "text/Event-Stream"]}


SSE_TIMEOUT_TICKS = 60 * 1024   # SSEParameters.timeout (default; the options generated here leave it alone)


def charset_of(ctp):
    """the charset a Content-Type parameter string names (lower case, unquoted), or None"""
    for part in (ctp or "").split(";"):
        k, _, v = part.partition("=")
        if k.strip().lower() == "charset":
            return v.strip().strip('"').lower()
    return None


def names_other_charset(ctp):
    return charset_of(ctp) not in (None, "utf-8", "utf8")


def mime(rng, canonical):
    return rng.choice(MIME_CASE[canonical]) if rng.random() < 0.06 else canonical


def neutralisations(case, carrier):
    """the dimensions with an OPEN or FIXED finding of their own that a case exercises on one carrier, each with the case
    as it is without that dimension: [(class, case')].  The oracle blames a class only when the difference goes away
    with it (so that, once such a finding is fixed, its key shows up for a regression only)."""
    w = case.get("wire") or {}
    many = lambda v: [v] if isinstance(v, dict) else (v or [])
    out = []

    def without(edit):
        c = copy.deepcopy(case)
        edit(c)
        return c

    def edit_wire(key, f):
        def go(c):
            v = c["wire"][key]
            for b in ([v] if isinstance(v, dict) else v):
                f(b)
        return go

    def lower_mime(b):
        if "mime" in b:
            b["mime"] = b["mime"].lower()

    def plain_label(b):
        b["bom"] = False
        if names_other_charset(b.get("ctp")):
            b["ctp"] = None

    if carrier == "stdio" and case.get("escape") and "cancel scope" in json.dumps(case.get("xs"), ensure_ascii=False).lower():
        def reword(c):
            c["xs"] = json.loads(re.sub("cancel scope", "cancel-scope", json.dumps(c["xs"], ensure_ascii=False), flags=re.I))
        out.append(("error-text-cancel-scope", without(reword)))
    key = {"http_json": "json", "http_sse": "httpsse"}.get(carrier)
    if key and any(c.get("mime", "").lower() != c.get("mime", "") for c in many(w.get(key))):
        out.append(("media-type-case", without(edit_wire(key, lower_mime))))
    if carrier == "http_sse" and any(c.get("bom") or names_other_charset(c.get("ctp")) for c in many(w.get("httpsse"))):
        out.append(("event-stream-label", without(edit_wire("httpsse", plain_label))))
    if carrier == "sse":
        e = w.get("sse") or {}
        if e.get("bom") or names_other_charset(e.get("ctp")):
            out.append(("event-stream-label", without(edit_wire("sse", plain_label))))
        if any((x["call"].get("pause") or 0) >= SSE_TIMEOUT_TICKS for x in case.get("xs") or []):
            def quick(c):
                for x in c["xs"]:
                    if (x["call"].get("pause") or 0) >= SSE_TIMEOUT_TICKS:
                        x["call"]["pause"] = 700
            out.append(("consumer-slower-than-timeout", without(quick)))
        ids = [x["call"]["id"] for x in case.get("xs") or [] if isinstance(x["call"].get("id"), dict)]
        if any(("i" in a) != ("i" in b) and str(a.get("i", a.get("s"))) == str(b.get("i", b.get("s"))) for a in ids for b in ids):
            def apart(c):   # 7 and "7" used as request ids on one connection: the string ids get a suffix
                for x in c["xs"]:
                    if isinstance(x["call"].get("id"), dict) and "s" in x["call"]["id"]:
                        x["call"]["id"] = {"s": x["call"]["id"]["s"] + "-s"}
            out.append(("id-twins", without(apart)))
    return out


KEYS = ["k", "é", "", "a b", "\U0001F600", "data", "id", "jsonrpc", "method", "params", "result", "error", "_meta", "progressToken", "%s", "{}",
        "data:", "event: message", "NaN", ":", "\n", "[]", "{\"a\":1}"]
EXC_NAMES = ["TypeError", "ValueError", "KeyError", "IndexError", "AttributeError", "RuntimeError", "RecursionError", "OSError", "Exception", "StrRaises"]
FLOATS = [0.0, 1.5, -2.5e-07, 1e+300]
INTS = [0, 1, -1, 7, 2 ** 31, -(2 ** 63), 2 ** 53 + 1, 2 ** 64 - 1]
LATS = [1, 1, 1, 2, 3, 17, 511, 512, 513, 700, 1500]
NOTIF_METHODS = ["notifications/message", "notifications/progress", "notifications/resources/updated",
                 "notifications/tools/list_changed", "notifications/x-é", "notifications/cancelled", "notifications/initialized",
                 "message", "endpoint", "ping", "initialize", "%s/{}", "x"]
UNNAMED_CODES = [-31999, -32050, 0, 1, 404, -1]
FALSY = [0, 0.0, "", [], {}, False, None]
RAW_IDS = [{"i": 0}, {"s": ""}, {"s": "0"}, {"i": 7}, {"s": "7"}, {"i": -1}, {"i": 2 ** 53 + 1}, {"s": "req-%s-{}"}, {"s": "é\u2028"}]
BURSTS = [99, 100, 101, 250]


def text(rng):
    if rng.random() < 0.15:
        return "".join(rng.choice(TEXTS) for _ in range(rng.randint(2, 3)))
    return rng.choice(TEXTS)


# JSON texts the stdlib parser accepts and stricter parsers (orjson) reject or read differently: written by the server
# AS THEY ARE (`{"$lit": text}`, see carrier_h.dumps); every carrier delivers them today, so they are in the quantifier
LITS = ["NaN", "Infinity", "-Infinity", "1e400", "-1E+400", "1e-400", "\"\\ud83d\"", "\"a\\udc00b\"", "\"\\ud83d\\ude00\"", "[NaN,1]", "-0", "0.1e1", "1.0E2",
        "18446744073709551615", "-0.0", "{\"k\":Infinity}"]


def value(rng, depth=3):
    r = rng.random()
    if depth <= 0 or r < 0.35:
        if rng.random() < 0.03:
            return {"$lit": rng.choice(LITS)}
        if rng.random() < 0.06:
            return rng.choice(FLOATS)
        return rng.choice([None, True, False, rng.choice(INTS), text(rng), text(rng), {}, []])
    if r < 0.65:
        return [value(rng, depth - 1) for _ in range(rng.randint(0, 3))]
    return obj(rng, depth - 1)


def obj(rng, depth=3):
    out = {}
    for _ in range(rng.randint(0, 3)):
        out[rng.choice(KEYS) if rng.random() < 0.7 else text(rng)] = value(rng, depth)
    return out


def error_codes():
    """(class name, codes) of the three classes the property names, read from the library"""
    from chuk_mcp.protocol.types import errors as E
    return [("permanent", sorted(E.NON_RETRYABLE_ERRORS)), ("transient", sorted(E.RETRYABLE_ERRORS)), ("unnamed", UNNAMED_CODES)]


def error_reply(rng, cls=None):
    classes = error_codes()
    name, codes = classes[cls] if cls is not None else rng.choice(classes)
    e = {"code": rng.choice(codes), "message": text(rng) if rng.random() < 0.8 else ""}
    r = rng.random()
    if r < 0.35:
        e["data"] = value(rng, 2)
    elif r < 0.6:
        e["data"] = rng.choice(FALSY + [1.5, "x", [None], {"": 0}])  # data of every JSON type, falsy ones first
    return {"error": e}


def template(h, rng):
    """a result of the shape the typed helper expects, with generated text in it"""
    t = lambda: text(rng)
    if h == "send_tools_list":
        return {"tools": [{"name": t(), "description": t(), "inputSchema": {"type": "object", "properties": {}}} for _ in range(rng.randint(0, 2))]}
    if h == "send_tools_call":
        return {"content": [{"type": "text", "text": t()}], "isError": rng.random() < 0.3}
    if h == "send_resources_list":
        return {"resources": [{"uri": "file:///x", "name": t()}]}
    if h == "send_resources_read":
        return {"contents": [{"uri": "file:///a/b.txt", "text": t()}]}
    if h == "send_resources_templates_list":
        return {"resourceTemplates": [{"uriTemplate": "file:///{p}", "name": t()}]}
    if h == "send_prompts_list":
        return {"prompts": [{"name": t(), "description": t()}]}
    if h == "send_prompts_get":
        return {"description": t(), "messages": [{"role": "user", "content": {"type": "text", "text": t()}}]}
    if h == "send_completion_complete":
        return {"completion": {"values": [t()], "total": 1, "hasMore": False}}
    if h == "send_roots_list":
        return {"roots": [{"uri": "file:///r", "name": t()}]}
    if h == "send_initialize":
        return {"protocolVersion": "2025-06-18", "capabilities": {}, "serverInfo": {"name": t(), "version": "1"}}
    if h in ("send_ping", "send_resources_subscribe", "send_resources_unsubscribe"):
        return {}
    return obj(rng, 3)


def helper_names():
    from . import helpers
    return sorted(helpers.discover()[0])


def call(rng, names, k=0):
    r = rng.random()
    if r < 0.38:
        params = obj(rng, 2) if rng.random() < 0.7 else rng.choice([None, {}])
        c = {"h": "send_message", "method": rng.choice(["tools/list", "tools/call", "resources/read", "prompts/get", "x/é", "%s", "message"]), "params": params}
        # an id chosen by the caller (integer, digit string, plain string); otherwise send_message makes one up
        q = rng.random()
        if q < 0.2:
            c["id"] = {"i": 7 + k}
        elif q < 0.35:
            c["id"] = {"s": str(7 + k)}
        elif q < 0.45:
            c["id"] = {"s": f"req-é-{k}"}
        if rng.random() < 0.2:
            c["progress"] = True
            if rng.random() < 0.4:
                c["cb_writes"] = True   # the progress callback writes on the write stream its request went out on
        if params and rng.random() < 0.2:
            c["subclassed"] = True      # params built from dict / str SUBCLASSES
        if k and rng.random() < 0.15:
            c["reuse"] = True
        return c
    if r < 0.5:
        # written to the write stream / read from the read stream by hand: ids the helpers cannot produce
        return {"h": "raw", "id": copy.deepcopy(rng.choice(RAW_IDS)), "method": rng.choice(["tools/list", "x", "ping"]),
                "params": rng.choice([None, {}, {"x": ""}]) if rng.random() < 0.6 else obj(rng, 2),
                "form": rng.choice(["request", "legacy", "dict"]), "pause": rng.choice([0, 0, 0, 30, 700])}
    if r < 0.56:
        return {"h": "send_initialize"}
    return {"h": rng.choice(names)}


def progress_notif(rng, own):
    """a progress notification: for the call's own token ("$TOK"), or a foreign one of either JSON type"""
    p = {"progressToken": "$TOK" if own else rng.choice([7, "7", 0, ""]), "progress": rng.choice([0, 0.0, 1, 0.5, 99])}
    if rng.random() < 0.6:
        p["total"] = rng.choice([0, 1, 100, 0.0])
    if rng.random() < 0.6:
        p["message"] = rng.choice(["", text(rng)])
    return {"method": "notifications/progress", "params": p}


def notif(rng):
    n = {"method": rng.choice(NOTIF_METHODS)}
    r = rng.random()
    if r < 0.6:
        n["params"] = {"data": text(rng), "x": value(rng, 2)}
    elif r < 0.8:
        n["params"] = obj(rng, 2)
    return n


def exchange(rng, names, max_notifs=3, err_cls=None, k=0, plain=False):
    c = call(rng, names, k)
    n = rng.choice([0, 0, 1, 1, 2, 3][: max_notifs + 3]) if max_notifs else 0
    if err_cls is not None or rng.random() < 0.3:
        reply = error_reply(rng, err_cls)
    else:
        # a typed helper mostly gets a result of its shape; now and then any object (its validation
        # then decides — the same way on every carrier)
        res = template(c["h"], rng) if (c["h"] not in ("send_message", "raw") and rng.random() < 0.9) else obj(rng, 3)
        if rng.random() < 0.25:
            res = dict(res)
            res["x-extra"] = value(rng, 2)
        reply = {"result": res}
    ns = [notif(rng) for _ in range(min(n, max_notifs))]
    if c.get("progress") and max_notifs:
        ns = [progress_notif(rng, rng.random() < 0.7) for _ in range(rng.randint(1, 3))] + ns[:1]
    x = {"call": c, "notifs": ns, "reply": reply, "lat": rng.choice(LATS), "gap": rng.choice([1, 1, 2, 600])}
    if plain:
        return x
    if c["h"] in ("send_message", "raw") and "result" in reply and rng.random() < 0.35:
        x["echo"] = True   # the outbound path becomes client-observable
    if max_notifs and rng.random() < 0.2:
        # messages after the reply: notifications, the reply once more
        x["after"] = [notif(rng) for _ in range(rng.randint(1, 2))] + ([{"dup": True}] if rng.random() < 0.25 else [])
    if rng.random() < 0.03:
        # a message object that cannot be serialised (its serialisation raises): nothing goes out, the call
        # gives up, and the carrier has to keep carrying the conversation
        x["call"] = {"h": "raw", "id": {"s": f"unsendable-{k}"}, "method": "x", "params": None, "form": "raising", "exc": rng.choice(EXC_NAMES)}
        x["D"] = 40
        x.pop("echo", None)
        return x
    if rng.random() < 0.06 and not c.get("pause"):
        # a call that gives up (tiny / zero timeout) long before the answer comes; the conversation goes on
        x["D"] = rng.choice([0, 1, 2])
        x["lat"] = rng.choice([10, 30])
        x["gap"] = 1
    return x


def cuts(rng, approx_len=200):
    k = rng.choice([0, 0, 1, 2, 4])
    return sorted(rng.randint(1, approx_len) for _ in range(k))


def field_choice(rng):
    return {"sp": rng.random() < 0.6, "before": copy.deepcopy(rng.choice(G.COMMENTS))}


NOISE_NAMES = ["ping", "keepalive", "endpoint", "x-é"]
NOISE_DATA = ["keepalive", "{}", "{\"jsonrpc\":\"2.0\",\"method\":\"not/for/you\"}", "[1]", "{\"jsonrpc\":\"2.0\",\"id\":1,\"result\":{}}"]


def ignored(rng):
    return copy.deepcopy(rng.choice(G.COMMENTS))


def noise_event(rng):
    """an event of an SSE body that carries no message: data-less (typed keep-alive — also a data-less
    `message` event —, comment-only event, extra blank line) or typed non-message with data"""
    r = rng.random()
    if r < 0.3:
        return G.bare_event(rng.choice(NOISE_NAMES + ["message"]), nsp=rng.random() < 0.6, before=ignored(rng), after=ignored(rng))
    if r < 0.5:
        return G.bare_event(None, after=ignored(rng) or [{"c": " ka"}])
    if r < 0.6:
        return G.bare_event(None)
    data = [rng.choice(NOISE_DATA) for _ in range(rng.choice([1, 1, 2]))]
    return {"name": rng.choice(NOISE_NAMES), "data": data, "nc": field_choice(rng), "dc": [field_choice(rng) for _ in data],
            "after": ignored(rng), "msg": None}


def noise(rng, p=0.25):
    return [noise_event(rng) for _ in range(rng.choice([1, 1, 2]))] if rng.random() < p else []


def wire(rng, xs):
    nmsg = sum(len(x["notifs"]) + 1 + len(x.get("after", [])) for x in xs)
    w = {}
    if rng.random() < 0.8:
        w["stdio"] = {"crlf": [rng.random() < 0.4 for _ in range(nmsg)], "cuts": [cuts(rng) for _ in xs]}
        if rng.random() < 0.3:
            w["stdio"]["batch"] = [rng.random() < 0.5 for _ in xs]
            if rng.random() < 0.4:
                w["stdio"]["junk"] = [[rng.randrange(6)] if rng.random() < 0.6 else [] for _ in xs]
        if rng.random() < 0.3:
            w["stdio"]["blank"] = [rng.choice([[], [], [""], [" \t"], ["\r", ""], ["\u2028"]]) for _ in range(nmsg)]
        if rng.random() < 0.15:
            w["stdio"]["eof"] = True
    needs_all = [bool(x["notifs"] or x.get("after")) for x in xs]
    if any(needs_all) and rng.random() < 0.5:
        needs_all = None  # this conversation is not put on HTTP + JSON bodies
    if needs_all is not None and (any(needs_all) or rng.random() < 0.8):
        w["json"] = [{"status": rng.choice([200, 200, 201]), "sess": rng.choice([None, None, "S-1", "", "0"]),
                      "batch": rng.random() < 0.3, "all": na or rng.random() < 0.15,
                      "ctp": rng.choice(CT_PARAMS), "mime": mime(rng, "application/json"), "hname": rng.choice([None, None, "upper", "title"])} for na in needs_all]
        for c in w["json"]:
            if c["all"] and rng.random() < 0.3:
                c["junk"] = [rng.randrange(6) for _ in range(rng.choice([1, 2]))]
    if rng.random() < 0.8:
        w["httpsse"] = [{
            "status": rng.choice([200, 200, 201]), "sess": rng.choice([None, "S-2", ""]),
            "evs": [{"name": rng.choice([None, "message", "response"]), "nc": field_choice(rng), "dc": field_choice(rng),
                     "after": ignored(rng) if rng.random() < 0.3 else [], "before": noise(rng)}
                    for _ in range(len(x["notifs"]) + 1 + len(x.get("after", [])))],
            "trailing": noise(rng), "ctp": rng.choice(CT_UTF8 if rng.random() < 0.93 else CT_OTHER), "mime": mime(rng, "text/event-stream"),
            "bom": rng.random() < 0.04, "hname": rng.choice([None, None, "upper", "title"]),
            "eols": [rng.random() < 0.5 for _ in range(rng.choice([0, 4, 24]))],
            "tail": rng.choice(["full", "noblank", "noeol"])} for x in xs]
    if rng.random() < 0.8:
        pre = [{"k": "endpoint", "d": "/messages/?session_id=verif", "crlf": rng.random() < 0.3}]
        if rng.random() < 0.4:
            pre.insert(rng.randint(0, 1), {"k": "comment", "d": " ka", "crlf": False})
        if rng.random() < 0.3:
            pre.append({"k": "keepalive", "d": "{}", "crlf": rng.random() < 0.5})
        w["sse"] = {"pre": pre, "crlf": [rng.random() < 0.4 for _ in range(nmsg)], "cuts": [cuts(rng) for _ in xs],
                    "ack": [rng.choice([0, 0, 1, 2, 9]) for _ in xs]}
        if rng.random() < 0.25:
            w["sse"]["m200"] = [rng.random() < 0.5 for _ in xs]
        if rng.random() < 0.15:
            w["sse"]["eof"] = True
        if rng.random() < 0.15:
            w["sse"]["untyped"] = [rng.random() < 0.5 for _ in range(nmsg)]
        if rng.random() < 0.4:
            w["sse"]["ctp"] = rng.choice(CT_UTF8 if rng.random() < 0.8 else CT_OTHER)
            w["sse"]["ctp200"] = rng.choice(CT_PARAMS)
        if rng.random() < 0.05:
            w["sse"]["bom"] = True
    return w


TIES = ["events", "timers", "io"]
STYLES = [{"sp": False, "ascii": False}, {"sp": True, "ascii": True}, {"sp": False, "ascii": True}, {"sp": True, "ascii": False}]


def options(rng):
    """transport options away from their defaults (every parameter class), crossed with whatever the
    conversation is"""
    hdr = lambda: rng.choice([None, {"X-Trace": "é"[:0] + "t1"}, {"Accept": "text/plain", "Content-Type": "text/plain"}, {"authorization": "Basic x"}, {"User-Agent": "ua/1"}])
    tok = lambda: rng.choice([None, "tok", "Bearer tok", ""])
    o = {}
    if rng.random() < 0.7:
        o["http"] = {k: v for k, v in {
            "headers": hdr(), "bearer_token": tok(), "session_id": rng.choice([None, "S0", "", "0"]), "enable_streaming": rng.choice([True, False]),
            "max_concurrent_requests": rng.choice([10, 1]), "max_retries": rng.choice([3, 0]), "retry_delay": rng.choice([1.0, 0.0]),
            "user_agent": rng.choice(["chuk-mcp/1.0.0", ""])}.items() if v is not None}
    if rng.random() < 0.7:
        o["sse"] = {k: v for k, v in {
            "headers": hdr(), "bearer_token": tok(), "session_id": rng.choice([None, "S1", ""]), "auto_reconnect": rng.choice([True, False]),
            "max_reconnect_attempts": rng.choice([5, 0]), "keep_alive_interval": rng.choice([30.0, 0.001])}.items() if v is not None}
    if rng.random() < 0.5:
        o["stdio"] = {"args": rng.choice([[], ["-x", ""], ["é"]]), "env": rng.choice([None, {}, {"LOG_LEVEL": "ERROR"}, {"LOGGING_LEVEL": "critical", "X": ""}])}
    if rng.random() < 0.2:
        o["env"] = {"MCP_BEARER_TOKEN": rng.choice(["envtok", "Bearer envtok", ""])}
    return o


def dims(rng, case, twins=True):
    """the dimensions every case is crossed with: DEBUG logging live, transport options, several
    transport instances alive at once, re-entering a transport object"""
    if rng.random() < 0.3:
        case["debug"] = rng.choice([True, "format", "format"])   # a NullHandler, or a handler that formats every record
    if rng.random() < 0.1:
        case["stderr"] = rng.choice(["closed", "ascii", "failing"])   # the host's stderr
    if rng.random() < 0.5:
        case["opts"] = options(rng)
    if case.get("xs") and rng.random() < 0.08:
        rng.choice(case["xs"])["idle"] = rng.choice([3600 * 1024, 5 * 3600 * 1024, 90 * 1024])   # the session sits idle, then goes on
    if twins:
        r = rng.random()
        if r < 0.1:
            case["twin"] = 2
        elif r < 0.13:
            case["twin"] = 3
    if case.get("via") == "transport" and len(case.get("xs") or []) >= 2 and rng.random() < 0.35:
        case["reenter"] = rng.randint(1, len(case["xs"]) - 1)
    if any(x["call"].get("form") == "raising" for x in case.get("xs") or []):
        case["quiet_stderr"] = True
    return case


def style(rng):
    st = dict(rng.choice(STYLES))
    if rng.random() < 0.2:
        st["order"] = "rev"   # top-level members in reverse order (id after result, jsonrpc last)
    if rng.random() < 0.2:
        st["extra"] = True    # an extra top-level member
    if rng.random() < 0.15:
        st["nulls"] = True    # "error": null next to a result, "result": null next to an error
    if rng.random() < 0.15:
        st["dup"] = True      # a duplicated member
    return st


def conversation(rng, names, all_carriers=None):
    """`all_carriers`: no notifications, so that HTTP + JSON bodies can express it with one message per body"""
    if all_carriers is None:
        all_carriers = rng.random() < 0.35
    xs = [exchange(rng, names, max_notifs=0 if all_carriers else 3, k=k) for k in range(rng.choice([1, 1, 2, 2, 3, 4]))]
    if rng.random() < 0.08:
        # id twins side by side: the integer 7 and the string "7" (and the falsy pair) on one connection
        twins = rng.choice([[{"i": 7}, {"s": "7"}], [{"i": 0}, {"s": "0"}, {"s": ""}]])
        for k, x in enumerate(xs):
            if x["call"]["h"] in ("send_message", "raw") and x["call"].get("form") != "raising":
                t = twins[k % len(twins)]
                if x["call"]["h"] == "raw" or G.idval(t):
                    x["call"]["id"] = copy.deepcopy(t)
    if len(xs) >= 2 and rng.random() < 0.12:
        # the same failure 2, 3, 4 times in a row, then a success (counters, back-off, warn-once state)
        bad = copy.deepcopy(rng.choice(xs))
        if "error" not in bad["reply"] and "D" not in bad and bad["call"].get("form") != "raising":
            bad["reply"] = error_reply(rng)
        good = exchange(rng, names, max_notifs=0 if all_carriers else 3, k=9, plain=True)
        xs = [copy.deepcopy(bad) for _ in range(rng.choice([2, 3, 4]))] + [good]
        for k, x in enumerate(xs):
            if x["call"].get("form") == "raising":
                x["call"]["id"] = {"s": f"unsendable-{k}"}
            elif x["call"]["h"] == "raw":
                x["call"]["id"] = {"i": 20 + k}
            elif x["call"].get("id") is not None:
                x["call"]["id"] = {"s": f"streak-{k}"}
    outstanding = False
    for x in xs:
        # the very params object of the previous call is handed over again only when no earlier request can
        # still be queued in a transport (a call that gave up leaves one behind: conversations are sequential)
        if outstanding:
            x["call"].pop("reuse", None)
        if "D" in x or x["call"].get("form") == "raising":
            outstanding = True
    case = {"xs": xs, "style": style(rng), "D": 5120, "tie": rng.choice(TIES), "wire": wire(rng, xs),
            "via": rng.choice(["cm", "cm", "transport"])}   # the *_client context manager, or the Transport class
    return dims(rng, case)


def small_notifs(n, tag="b"):
    return [{"method": "notifications/message", "params": {"data": f"{tag}{i}"}} for i in range(n)]


def limits(rng, names, budget):
    """large messages (>= 64 KiB, >= 1 MiB) in every text position and direction, bursts around the
    100-slot stream buffers, producer and consumer paused — on every carrier (`all`: JSON bodies too)"""
    out = []
    sizes = [65535, 65536, 65537, 70000, 100000] + ([1100000] if budget != "quick" else [])
    pick = (lambda l, n: l) if budget != "quick" else (lambda l, n: rng.sample(l, min(n, len(l))))
    def conv(xs, **w):
        return {"xs": xs, "style": style(rng), "D": 5120, "tie": rng.choice(TIES), "wire": w}
    unit = rng.choice(["a", "é", "\U0001F600", "\u2028"])
    for size in pick(sizes, 2) + ([1100000] if budget == "quick" else []):
        big = unit * (size // len(unit.encode("utf-8")) + 1)
        where = rng.choice(["result", "notif", "request", "error"])
        x = {"call": {"h": "send_message", "method": "tools/call", "params": {"big": big} if where == "request" else None},
             "notifs": [{"method": "notifications/message", "params": {"data": big}}] if where == "notif" else [],
             "reply": {"error": {"code": -32602, "message": big}} if where == "error" else {"result": {"t": big if where == "result" else "s"}},
             "echo": where == "request", "lat": 1, "gap": 1}
        edge = [65535, 65536, 65537, 131072]
        out.append(conv([x, exchange(rng, names, 0, k=1, plain=True)],
                        stdio={"cuts": [edge, []]}, sse={"cuts": [edge, []], "ack": [rng.choice([0, 1, 9]), 0]},
                        json=[{"all": True}, {}]))
    # one message far above every buffer (64 KiB pipe / stream chunks), arriving in many reads, with small messages
    # before and after it in the same exchange and small exchanges around
    for size in ([300000] if budget == "quick" else [100000, 300000, 1100000]):
        big = unit * (size // len(unit.encode("utf-8")) + 1)
        many = list(range(4096, size + 4096, rng.choice([4096, 8192, 65536])))
        xs = [exchange(rng, names, 0, k=0, plain=True),
              {"call": {"h": "send_message", "method": "tools/call", "params": None},
               "notifs": small_notifs(2, "s") + [{"method": "notifications/message", "params": {"data": big}}] + small_notifs(2, "t"),
               "reply": {"result": {"t": big[: size // 2], "after": "s"}}, "lat": 1, "gap": 1},
              exchange(rng, names, 0, k=2, plain=True)]
        out.append(conv(xs, stdio={"cuts": [[], many, []]}, sse={"cuts": [[], many, []], "ack": [0, rng.choice([0, 3]), 0]},
                        json=[{}, {"all": True}, {}]))
    # the 1000th message of a session (and beyond) on one connection
    per = 40 if budget == "quick" else 100
    out.append(conv([{"call": {"h": rng.choice(names)}, "notifs": small_notifs(per, f"m{k}-"), "reply": {"result": {}}, "lat": 1, "gap": 1}
                     for k in range(1040 // per + 1)], json={"all": True}))
    # the consumer does not read for longer than the transport's request timeout (60 s) while more than a read-stream
    # buffer (100 slots) is outstanding in front of the reply
    for n, pause in ([(150, 70 * 1024)] if budget == "quick" else [(150, 70 * 1024), (101, 61 * 1024), (250, 3700 * 1024), (99, 70 * 1024)]):
        out.append(conv([{"call": {"h": "raw", "id": {"i": 1}, "method": "tools/list", "params": None, "pause": pause},
                          "notifs": small_notifs(n), "reply": {"result": {"n": n}}, "lat": 1, "gap": 1},
                         {"call": {"h": "send_ping"}, "notifs": small_notifs(3, "c"), "reply": {"result": {}}, "lat": 1, "gap": 1}],
                        json=[{"all": True}, {"all": True}], sse={"ack": [rng.choice([0, 1]), 0]}))
    for n in pick(BURSTS, 2):
        # before the reply, the helper reading all along
        out.append(conv([{"call": {"h": rng.choice(names)}, "notifs": small_notifs(n), "reply": {"result": {}}, "lat": 1, "gap": 1},
                         exchange(rng, names, 0, k=1, plain=True)], json=[{"all": True}, {}]))
    for n in pick(BURSTS, 2):
        # slow consumer: nobody reads while the burst and the reply arrive (pause), and a burst AFTER
        # a reply, before the next call starts reading: the 100-slot buffers fill and must drain in order
        out.append(conv([{"call": {"h": "raw", "id": {"i": 0}, "method": "tools/list", "params": None, "pause": 700},
                          "notifs": small_notifs(n), "reply": {"result": {"n": n}}, "after": small_notifs(n, "a"), "lat": 1, "gap": 1},
                         {"call": {"h": "send_ping"}, "notifs": small_notifs(3, "c"), "reply": {"result": {}}, "lat": 1, "gap": 1}],
                        json=[{"all": True}, {"all": True}], sse={"ack": [rng.choice([0, 1]), 0]}))
    return out


def directed(rng, names):
    """every helper once with a plain result and once with an error of each class; expressible on
    all four carriers"""
    out = []
    for h in names + ["send_initialize", "send_message"]:
        c = {"h": h} if h != "send_message" else {"h": h, "method": "tools/list", "params": {"cursor": "cé"}}
        res = template(h, rng) if h != "send_message" else {"t": TEXTS[3], "n": [None, {"": None}], "e": {}}
        out.append({"xs": [{"call": c, "notifs": [], "reply": {"result": res}, "lat": 1, "gap": 1}], "style": STYLES[0], "D": 5120})
        for cls in range(3):
            out.append({"xs": [{"call": c, "notifs": [notif(rng)] if cls == 1 else [], "reply": error_reply(rng, cls), "lat": 1, "gap": 1}],
                        "style": STYLES[cls % len(STYLES)], "D": 5120, "tie": TIES[cls]})
    return out


NON_ASCII = ["\u00e9", "\u20ac", "\u00a0\u00ff", "\U0001F600", "e\u0301", "\ufeff", "\u00c3\u00a9", "\u0080\u009f", "\u4e2d\u6587", "a"]


def label_matrix(rng):
    """declared metadata of a reply against its bytes: every Content-Type parameter x every place a carrier reads a
    labelled body (JSON body as object and as array of all messages, SSE body, the legacy GET stream, the legacy
    200 POST reply) x non-ASCII payload text; media types in other case; a byte order mark in front of an event stream"""
    out = []

    def conv(k):
        t = "".join(NON_ASCII[(k + i) % len(NON_ASCII)] for i in range(4))
        return [{"call": {"h": "send_message", "method": "tools/list", "params": {"cursor": t}},
                 "notifs": [{"method": "x", "params": {"data": NON_ASCII[k % len(NON_ASCII)], t: [t]}}] if k % 2 else [],
                 "reply": {"result": {"t": t, NON_ASCII[(k + 1) % len(NON_ASCII)]: [t, None]}} if k % 3 else {"error": {"code": 1, "message": t, "data": {"d": t}}},
                 "lat": 1, "gap": 1}]

    def case(k, wire):
        return {"xs": conv(k), "style": {"sp": k % 4 == 0, "ascii": False}, "D": 5120, "tie": TIES[k % len(TIES)], "wire": wire}

    k = 0
    for ctp in sorted(set(CT_PARAMS), key=lambda v: v or ""):
        for place in ("json", "json-all", "httpsse", "sse-stream", "sse-200"):
            k += 1
            if place == "json":
                if k % 2:
                    continue   # a notification in front needs the array body
                w = {"json": [{"ctp": ctp, "batch": k % 4 == 0}]}
            elif place == "json-all":
                w = {"json": [{"ctp": ctp, "all": True}]}
            elif place == "httpsse":
                w = {"httpsse": [{"ctp": ctp, "tail": "full"}]}
            elif place == "sse-stream":
                w = {"sse": {"ctp": ctp}}
            else:
                w = {"sse": {"ctp200": ctp, "m200": [True]}}
            out.append(case(k, w))
    for canonical, variants in sorted(MIME_CASE.items()):
        for m in variants:
            for ctp in (None, "; charset=utf-8", "; charset=ISO-8859-1"):
                k += 1
                place = "json" if canonical == "application/json" else "httpsse"
                out.append(case(k, {place: [{"ctp": ctp, "mime": m} | ({"all": True} if place == "json" else {})]}))
    for ctp in (None, "; charset=utf-8", "; charset=windows-1252"):
        k += 1
        out.append(case(k, {"httpsse": [{"ctp": ctp, "bom": True}]}))
        k += 1
        out.append(case(k, {"sse": {"ctp": ctp, "bom": True}}))
    return out


def environment_matrix():
    """the host's logging and stderr x a message that cannot be sent: a handler that formats every record (or none) x
    stderr closed / failing / ascii-only / as it is x the exception class of the failed serialisation"""
    out = []
    for debug in ("format", True, None):
        for stderr in ("closed", "failing", "ascii", None):
            for exc in ("StrRaises", "TypeError"):
                case = {"xs": [{"call": {"h": "raw", "id": {"s": "unsendable-0"}, "method": "x", "params": None, "form": "raising", "exc": exc},
                                "notifs": [], "reply": {"error": {"code": 1, "message": "a"}}, "lat": 1, "gap": 1},
                               {"call": {"h": "send_message", "method": "tools/list", "params": {"cursor": "\u00e9"}},
                                "notifs": [{"method": "message", "params": {"data": "\u00e9\U0001F600"}}], "reply": {"result": {"t": "\u00e9"}}, "lat": 1, "gap": 1}],
                        "style": {"sp": False, "ascii": False}, "D": 5120, "tie": "events", "quiet_stderr": True}
                if debug:
                    case["debug"] = debug
                if stderr:
                    case["stderr"] = stderr
                out.append(case)
    return out


def late_duplicates():
    """a request that gave up (tiny timeout), its reply and a duplicate of it arriving late, while the next request
    bears the id's type twin (7 then "7", "7" then 7) or another id, answered on the stream or in the POST reply"""
    out = []
    # (the SAME id again while a reply to its first use may still arrive is the caller's ambiguity, not a carrier's: left out)
    for first, second in (({"i": 7}, {"s": "7"}), ({"s": "7"}, {"i": 7}), ({"i": 7}, {"i": 8}), ({"s": "7"}, {"s": "07"})):
        for m200 in (True, False):
            out.append({"xs": [{"D": 1, "after": [{"method": "notifications/tools/list_changed"}, {"dup": True}],
                                "call": {"h": "send_message", "id": first, "method": "tools/call", "params": None},
                                "gap": 1, "lat": 10, "notifs": [], "reply": {"error": {"code": 1, "message": "a"}}},
                               {"after": [{"method": "x"}, {"dup": True}],
                                "call": {"h": "send_message", "id": second, "method": "prompts/get", "params": None},
                                "gap": 1, "lat": 1, "notifs": [{"method": "x"}], "reply": {"result": {}}}],
                        "style": {"sp": False, "ascii": False}, "D": 5120, "tie": "events", "wire": {"sse": {"m200": [False, m200]}}})
    return out


PHRASES = ["cancel scope", "broken pipe", "connection closed", "closed resource", "json object must be str", "timeout", "timed out",
           "connection refused", "end of stream", "cancelled", "not connected", "session terminated"]


def matched_phrases():
    """texts the transports' and the client's own code may match exception TEXT against: the fixed list above and
    every plain lower-case phrase (2..5 words) that is a string constant of those modules (tuples of fragments,
    `"…" in str(e).lower()` tests), re-read from the source under test"""
    import ast
    import re
    from .core import REPO
    found = []
    root = REPO / "src" / "chuk_mcp"
    for f in sorted(list((root / "transports").rglob("*.py")) + list((root / "client").rglob("*.py"))):
        try:
            tree = ast.parse(f.read_text())
        except Exception:  # noqa
            continue
        docs = {id(n.value) for n in ast.walk(tree) if isinstance(n, ast.Expr) and isinstance(n.value, ast.Constant)}
        for n in ast.walk(tree):
            if isinstance(n, ast.Constant) and isinstance(n.value, str) and id(n) not in docs \
                    and re.fullmatch(r"[a-z]+( [a-z]+){1,4}", n.value) and len(n.value) <= 40:
                found.append(n.value)
    out = []
    for t in PHRASES + sorted(set(found)):
        if t not in out:
            out.append(t)
    return out[:48]


def escaping_errors(rng, names):
    """the usual application shape: the request helper runs INSIDE the carrier's own context manager (or Transport
    object) and its exception is not caught in the block; compared: what leaves the block, per carrier.  Error
    replies of every class whose message is / contains a phrase the transports match exception text against."""
    out = []
    classes = error_codes()
    k = 0
    for t in matched_phrases():
        for form in (t, "upstream " + t.upper() + " by peer"):
            k += 1
            name, codes = classes[k % len(classes)]
            h = (names + ["send_message", "send_initialize"])[k % (len(names) + 2)]
            call = {"h": h} if h != "send_message" else {"h": h, "method": "tools/call", "params": {"name": "t"}}
            e = {"code": codes[k % len(codes)], "message": form}
            if k % 3 == 0:
                e["data"] = {"detail": form}
            out.append({"xs": [{"call": {"h": "send_ping"}, "notifs": [], "reply": {"result": {}}, "lat": 1, "gap": 1},
                               {"call": call, "notifs": [{"method": "notifications/message", "params": {"data": form}}] if k % 2 else [],
                                "reply": {"error": e}, "lat": 1, "gap": 1}],
                        "style": STYLES[k % len(STYLES)], "D": 5120, "tie": TIES[k % len(TIES)], "escape": True,
                        "via": "transport" if k % 4 == 0 else "cm", "wire": {"json": {"all": True}}})
    # what leaves the block when nothing is wrong, after a timeout, after a result the helper rejects
    for h in names[:4]:
        out.append({"xs": [{"call": {"h": h}, "notifs": [], "reply": {"result": template(h, rng)}, "lat": 1, "gap": 1}],
                    "style": STYLES[0], "D": 5120, "escape": True, "wire": {"json": {"all": True}}})
        out.append({"xs": [{"call": {"h": h}, "notifs": [], "reply": {"result": template(h, rng)}, "lat": 40, "gap": 1, "D": 5}],
                    "style": STYLES[0], "D": 5120, "escape": True, "wire": {"json": {"all": True}}})
    return out


def lenient_json_matrix():
    """every such literal x where it stands (result, nested in a list, notification params, error data) x how the
    carrier hands the message over (JSON object / array body, SSE body, stdio line / batch line, legacy stream / 200 reply)"""
    out = []
    wires = [{"json": {"all": True}}, {"json": [{"batch": True}], "stdio": {"batch": [True]}, "sse": {"m200": [True]}},
             {"json": {"all": True}, "httpsse": [{"evs": [{"name": "response"}], "tail": "noeol"}], "sse": {"ack": [9]}}]
    k = 0
    for lit in LITS:
        L = {"$lit": lit}
        for place in ("result", "notif", "errdata"):
            k += 1
            w = copy.deepcopy(wires[k % len(wires)])
            if place == "notif" and isinstance(w["json"], list):
                w["json"] = {"all": True}
            x = {"call": {"h": "send_message", "method": "tools/list", "params": None},
                 "notifs": [{"method": "notifications/message", "params": {"data": L, "l": [None, L]}}] if place == "notif" else [],
                 "reply": {"error": {"code": 1, "message": "m", "data": {"v": L}}} if place == "errdata" else {"result": {"v": L, "l": [L, "\u00e9"]}},
                 "lat": 1, "gap": 1}
            out.append({"xs": [x, {"call": {"h": "send_ping"}, "notifs": [], "reply": {"result": {}}, "lat": 1, "gap": 1}],
                        "style": STYLES[k % len(STYLES)], "D": 5120, "tie": TIES[k % len(TIES)], "wire": w})
    return out


def abandoned_sessions():
    """the same Transport object used for several sessions: every session but the last is LEFT with a request in flight
    (the caller's timeout fires while the server is slow, the block is left at once), then the last session runs a normal
    conversation, which must come out as on the other carriers.  Crossed with every concurrency-like option of the
    parameter classes at its minimum (one abandoned session suffices to use it up) and at its default (11 abandoned)."""
    out = []
    minimal = [{"http": {"max_concurrent_requests": 1}}, {"http": {"max_concurrent_requests": 1, "max_retries": 0, "retry_delay": 0.0}},
               {"sse": {"auto_reconnect": False, "max_reconnect_attempts": 0}}, {"http": {"enable_streaming": False, "max_concurrent_requests": 1}}]
    plan = [(n, o) for o in minimal for n in (1, 2)] + [(11, None), (2, None), (11, {"sse": {"max_reconnect_attempts": 0}})]
    for k, (n, opts) in enumerate(plan):
        xs = [{"call": {"h": "raw", "id": {"s": f"abandoned-{j}"} if (j + k) % 2 else {"i": 9000 + j}, "method": "tools/call", "params": None},
               "notifs": [], "reply": {"result": {"late": j}}, "lat": 200, "gap": 1, "D": 5, "abandoned": True} for j in range(n)]
        xs.append({"call": {"h": "send_message", "method": "tools/list", "params": None}, "notifs": [{"method": "x", "params": {"data": "\u00e9"}}],
                   "reply": {"result": {"t": "\u00e9"}}, "lat": 1, "gap": 1, "idle": 200 * n + 400})
        xs.append({"call": {"h": "send_ping"}, "notifs": [], "reply": {"error": {"code": 1, "message": "m"}} if k % 2 else {"result": {}}, "lat": 1, "gap": 1})
        c = {"xs": xs, "style": STYLES[k % len(STYLES)], "D": 5120, "tie": TIES[k % len(TIES)], "via": "transport",
             "sessions": list(range(1, n + 1)), "abandon": True, "wire": {"json": {"all": True}}}
        if opts:
            c["opts"] = opts
        out.append(c)
    return out


def long_sessions(rng, names, budget):
    """long sessions on ONE connection: more than 100 notifications accumulated over many exchanges (nobody
    reads stdio's legacy notification stream: its 100-slot buffer fills), many consecutive requests"""
    out = []
    for n_x, n_n in ([(40, 3)] if budget == "quick" else [(40, 3), (34, 3), (120, 1), (26, 4), (101, 1)]):
        xs = []
        for k in range(n_x):
            h = rng.choice(names)
            xs.append({"call": {"h": h}, "notifs": small_notifs(n_n, f"s{k}-"), "reply": {"result": template(h, rng)}, "lat": 1, "gap": 1})
        out.append(dims(rng, {"xs": xs, "style": style(rng), "D": 5120, "tie": rng.choice(TIES), "wire": {"json": {"all": True}},
                              "via": rng.choice(["cm", "transport"])}))
    return out


def reply_forms():
    """every way a carrier can hand over a reply: JSON body as object / one-element array / array of all
    messages, SSE body, legacy SSE answered on the stream (202 first / event first) or in the POST reply (200),
    stdio line / batch line"""
    return [
        {"json": [{}], "sse": {"ack": [0]}, "stdio": {}},
        {"json": [{"batch": True}], "sse": {"ack": [9]}, "stdio": {"batch": [True]}},
        {"json": [{"all": True, "status": 201}], "sse": {"m200": [True]}, "httpsse": [{"evs": [{"name": "response"}], "tail": "noeol"}]},
    ]


def falsy_matrix(rng):
    """falsy ids and falsy payloads through every carrier and every reply form, with and without a
    notification in front"""
    out = []
    for rid in ({"i": 0}, {"s": ""}, {"s": "0"}, {"i": 7}):
        for reply in ({"result": {}}, {"result": {"": 0}}, {"error": {"code": 0, "message": ""}}, {"error": {"code": 0, "message": "", "data": {}}}):
            for w in reply_forms():
                for ns in ([], [{"method": "x", "params": {}}]):
                    ww = copy.deepcopy(w)
                    if ns and "all" not in ww["json"][0]:
                        ww["json"] = [{"all": True}]
                    out.append({"xs": [{"call": {"h": "raw", "id": rid, "method": "ping", "params": None, "form": rng.choice(["request", "legacy", "dict"])},
                                        "notifs": ns, "reply": copy.deepcopy(reply), "lat": 1, "gap": 1},
                                       {"call": {"h": "send_ping"}, "notifs": [], "reply": {"result": {}}, "lat": 1, "gap": 1}],
                                "style": rng.choice(STYLES), "D": 5120, "tie": rng.choice(TIES), "wire": ww})
    return out


def sequences(rng, names):
    """several operations on one connection: a second initialize, a call after each kind of failed
    call (error reply, result the helper rejects, timeout), the same params object three times"""
    ok = lambda h: {"call": {"h": h}, "notifs": [], "reply": {"result": template(h, rng)}, "lat": 1, "gap": 1}
    out = []
    mk = lambda xs: {"xs": xs, "style": style(rng), "D": 5120, "tie": rng.choice(TIES)}
    out.append(mk([ok("send_initialize"), ok("send_tools_list"), ok("send_initialize"), ok("send_ping")]))
    for cls in range(3):
        bad = {"call": {"h": "send_tools_list"}, "notifs": [], "reply": error_reply(rng, cls), "lat": 1, "gap": 1}
        out.append(mk([bad, ok("send_tools_list"), bad, ok("send_ping")]))
    out.append(mk([{"call": {"h": "send_tools_list"}, "notifs": [], "reply": {"result": {"tools": "no list"}}, "lat": 1, "gap": 1}, ok("send_tools_list")]))
    for D in (0, 1, 2):
        out.append(mk([{"call": {"h": "send_tools_call"}, "notifs": [notif(rng)], "reply": {"result": template("send_tools_call", rng)}, "D": D, "lat": 20, "gap": 1},
                       ok("send_tools_call"), ok("send_ping")]))
    p = {"x": "", "n": [], "_meta": {"k": 0}}
    out.append(mk([{"call": {"h": "send_message", "method": "tools/call", "params": p, "progress": True}, "notifs": [progress_notif(rng, True)],
                    "reply": {"result": {}}, "echo": True, "lat": 1, "gap": 1}] +
                  [{"call": {"h": "send_message", "method": "tools/call", "params": None, "reuse": True, "progress": k == 1}, "notifs": [progress_notif(rng, k == 1)],
                    "reply": {"result": {"k": k}}, "echo": True, "lat": 1, "gap": 1} for k in (1, 2)]))
    for t in FALSY:
        # falsy values in every peer-supplied position at once
        e = {"code": 0, "message": ""}
        if t is not None:
            e["data"] = t
        out.append(mk([{"call": {"h": "raw", "id": {"i": 0}, "method": "x", "params": {} if t != {} else None, "form": "dict"},
                        "notifs": [{"method": "x", "params": {}}, {"method": "notifications/progress", "params": {"progressToken": 0, "progress": 0, "total": 0, "message": ""}}],
                        "reply": {"error": e}, "lat": 1, "gap": 1},
                       {"call": {"h": "raw", "id": {"s": ""}, "method": "x", "params": None, "form": "legacy"}, "notifs": [],
                        "reply": {"result": {"v": t, "": t}}, "echo": True, "lat": 1, "gap": 1}]))
    return out


def cases(rng, count, names):
    out = []
    for _ in range(count):
        out.append(conversation(rng, names))
    return out


# ------------------------------------------------------------------------------- MCPClient

CLIENT_OPS = ["init", "list_tools", "call_tool", "list_resources", "read_resource", "list_prompts", "get_prompt"]


def supported_versions():
    from chuk_mcp.protocol.messages.initialize.send_messages import SUPPORTED_VERSIONS
    return list(SUPPORTED_VERSIONS)


def init_answer(rng):
    """how an `initialize` request is answered; `expect` = how `send_initialize` must end
    ({"ok": version}: returns unless the library does not support the version; {"raise": why})"""
    r = rng.random()
    info = {"name": text(rng), "version": "1"}
    ns = [notif(rng) for _ in range(rng.choice([0, 0, 1]))]
    if r < 0.55:
        v = rng.choice(supported_versions())
        return {"notifs": ns, "reply": {"result": {"protocolVersion": v, "capabilities": {}, "serverInfo": info}}, "expect": {"ok": v}}
    if r < 0.7:
        v = rng.choice(["1999-01-01", "2099-12-31", "2025-6-18", "latest", ""])
        return {"notifs": ns, "reply": {"result": {"protocolVersion": v, "capabilities": {}, "serverInfo": info}}, "expect": {"ok": v}}
    if r < 0.85:
        return {"notifs": ns, "reply": error_reply(rng), "expect": {"raise": "error-reply"}}
    bad = rng.choice([{"protocolVersion": "2025-06-18", "capabilities": {}}, {"protocolVersion": 7, "capabilities": {}, "serverInfo": info}])
    return {"notifs": ns, "reply": {"result": bad}, "expect": {"raise": "invalid-result"}}


def op_answer(rng, plain=False):
    r = rng.random()
    a = {"kind": "ok", "text": text(rng)} if r < 0.65 else ({"kind": "bad"} if r < 0.78 else {"kind": "error", "error": error_reply(rng)["error"]})
    if not plain and rng.random() < 0.3:
        a["notifs"] = [notif(rng) for _ in range(rng.randint(1, 2))]
    if not plain and rng.random() < 0.1:
        a["after"] = [notif(rng)]
    a["lat"] = rng.choice(LATS)
    return a


def client_case(rng):
    ops = [{"op": rng.choice(CLIENT_OPS + CLIENT_OPS[1:])} for _ in range(rng.choice([1, 2, 3, 4, 6]))]
    for o in ops:
        if o["op"] in ("call_tool", "get_prompt"):
            o["name"] = text(rng) or "n"
            o["arguments"] = rng.choice([None, {}, obj(rng, 2)])
            if rng.random() < 0.2:   # every JSON type where a name / an arguments object is expected
                o["name"] = rng.choice([None, True, 7, 1.5, "", [], {}])
            if rng.random() < 0.15:
                o["arguments"] = rng.choice([[], "x", 7, False, [1]])
        if o["op"] == "read_resource":
            o["uri"] = "file:///" + rng.choice(["a", "é", "%20x"])
            if rng.random() < 0.2:
                o["uri"] = rng.choice([None, 7, "", False, [], {}])
    n_fail = rng.choice([0, 0, 0, 1, 2, 3, 4])
    inits = []
    for _ in range(n_fail + 1):
        inits.append(init_answer(rng))
    plain = rng.random() < 0.4   # no notifications: every carrier with one message per body
    if plain:
        for x in inits:
            x["notifs"] = []
    if n_fail >= 2 and rng.random() < 0.5:
        inits = [copy.deepcopy(inits[0]) for _ in range(n_fail)] + [inits[-1]]   # the same failure repeated
    answers = [op_answer(rng, plain) for _ in ops]
    if len(answers) >= 3 and rng.random() < 0.2:
        answers = [copy.deepcopy(answers[0]) for _ in range(len(answers) - 1)] + [{"kind": "ok", "text": "t"}]
    c = {"ops": ops, "inits": inits, "answers": answers, "connect": rng.choice([False, False, True, "params"]),
         "style": style(rng), "tie": rng.choice(TIES), "wire": {}}
    dims(rng, c, twins=False)
    if not plain and rng.random() < 0.6:
        c["wire"]["json"] = {"all": True}
    if rng.random() < 0.5:
        c["wire"]["stdio"] = {"crlf": [rng.random() < 0.4 for _ in range(12)], "cuts": [cuts(rng) for _ in range(6)]}
    if rng.random() < 0.5:
        c["wire"]["sse"] = {"crlf": [rng.random() < 0.4 for _ in range(12)], "cuts": [cuts(rng) for _ in range(6)],
                            "ack": [rng.choice([0, 0, 1, 2, 9]) for _ in range(8)]}
    return c


def client_directed(rng):
    """every operation as the first one of a fresh client (lazy initialize), with connect_to_server, after
    a failed initialize, `initialize` twice"""
    out = []
    ok = lambda: {"kind": "ok", "text": "t é"}
    for op in CLIENT_OPS:
        for connect in (False, True, "params"):
            out.append({"ops": [{"op": op}, {"op": "init"}, {"op": op}], "inits": [], "answers": [ok(), ok()], "connect": connect, "style": STYLES[0]})
        out.append({"ops": [{"op": op}, {"op": op}], "inits": [{"notifs": [], "reply": {"error": {"code": -32002, "message": "no"}}, "expect": {"raise": "error-reply"}}],
                    "answers": [ok()], "connect": False, "style": STYLES[0]})
    out.append({"ops": [{"op": "init"}, {"op": "init"}, {"op": "list_tools"}, {"op": "init"}], "inits": [], "answers": [ok()], "connect": False, "style": STYLES[0]})
    return out


def shrink_client(case):
    if len(case["ops"]) > 1:
        for i in range(len(case["ops"])):
            c = copy.deepcopy(case)
            del c["ops"][i]
            yield c
    for key in ("inits", "answers"):
        for i in range(len(case.get(key) or [])):
            c = copy.deepcopy(case)
            del c[key][i]
            yield c
            if case[key][i].get("notifs") or case[key][i].get("after"):
                c = copy.deepcopy(case)
                c[key][i]["notifs"] = []
                c[key][i].pop("after", None)
                yield c
    if case.get("wire"):
        c = copy.deepcopy(case)
        c["wire"] = {}
        yield c
    if case.get("connect"):
        c = copy.deepcopy(case)
        c["connect"] = False
        yield c
    for key, dflt in (("style", STYLES[0]), ("tie", "events")):
        if case.get(key, dflt) != dflt:
            c = copy.deepcopy(case)
            c[key] = dflt
            yield c


# ------------------------------------------------------------------------------- shrinking

def _simplify(v):
    """smaller variants of a JSON value"""
    if isinstance(v, str) and v != "a":
        yield "a"
        if len(v) > 64:
            yield v[:32]
        if len(v) > 1:
            yield v[: len(v) // 2]
            yield v[len(v) // 2:]
    elif isinstance(v, list):
        for i in range(len(v)):
            yield v[:i] + v[i + 1:]
        for i, x in enumerate(v):
            for s in _simplify(x):
                yield v[:i] + [s] + v[i + 1:]
    elif isinstance(v, dict):
        for k in list(v):
            if k in ("code", "message"):
                continue
            d = dict(v)
            del d[k]
            yield d
        for k, x in v.items():
            for s in _simplify(x):
                d = dict(v)
                d[k] = s
                yield d
    elif isinstance(v, int) and not isinstance(v, bool) and v not in (0, 1):
        yield 1


def shrink_candidates(case):
    if "ops" in case:
        yield from shrink_client(case)
        return
    xs = case["xs"]
    # fewer exchanges (wire choices are positional: drop them when the shape changes)
    if len(xs) > 1:
        for i in range(len(xs)):
            c = copy.deepcopy(case)
            del c["xs"][i]
            c.pop("wire", None)
            if c.get("sessions"):
                c["sessions"] = [b for b in sorted({(b - 1 if b > i else b) for b in c["sessions"]}) if 0 < b < len(c["xs"])]
            yield c
    if case.get("wire"):
        c = copy.deepcopy(case)
        c.pop("wire")
        yield c
        for k in list(case["wire"]):
            c = copy.deepcopy(case)
            del c["wire"][k]
            yield c
        for k, sub in case["wire"].items():
            if isinstance(sub, dict):
                for kk in list(sub):
                    c = copy.deepcopy(case)
                    del c["wire"][k][kk]
                    yield c
    for key in ("debug", "opts", "twin", "reenter", "via"):
        if key in case:
            c = copy.deepcopy(case)
            del c[key]
            if key == "via":
                c.pop("reenter", None)
            yield c
    if case.get("tie", "events") != "events":
        c = copy.deepcopy(case)
        c["tie"] = "events"
        yield c
    for k, b in enumerate((case.get("wire") or {}).get("httpsse") or []):
        if b.get("trailing") or any(e.get("before") or e.get("after") for e in b.get("evs") or []):
            c = copy.deepcopy(case)
            b2 = c["wire"]["httpsse"][k]
            b2.pop("trailing", None)
            for e in b2.get("evs") or []:
                e.pop("before", None)
                e.pop("after", None)
            yield c
    if case.get("style") != STYLES[0]:
        c = copy.deepcopy(case)
        c["style"] = STYLES[0]
        yield c
    for i, x in enumerate(xs):
        for j in range(len(x["notifs"])):
            c = copy.deepcopy(case)
            del c["xs"][i]["notifs"][j]
            c.pop("wire", None)
            yield c
        if (x.get("lat", 1) != 1 or x.get("gap", 1) != 1) and "D" not in x:  # (a call that gives up keeps its distance to the answer)
            c = copy.deepcopy(case)
            c["xs"][i]["lat"] = 1
            c["xs"][i]["gap"] = 1
            yield c
        for key in ("after", "echo", "D"):
            if key in x:
                c = copy.deepcopy(case)
                del c["xs"][i][key]
                c.pop("wire", None) if key == "after" else None
                yield c
        for key in ("notifs", "after"):
            l = x.get(key) or []
            if len(l) > 3:
                for part in (l[: len(l) // 2], l[len(l) // 2:]):
                    c = copy.deepcopy(case)
                    c["xs"][i][key] = part
                    c.pop("wire", None)
                    yield c
        for j in range(len(x.get("after") or []) if len(x.get("after") or []) <= 3 else 0):
            c = copy.deepcopy(case)
            del c["xs"][i]["after"][j]
            c.pop("wire", None)
            yield c
        for key in ("progress", "reuse", "pause", "form"):
            if x["call"].get(key):
                c = copy.deepcopy(case)
                del c["xs"][i]["call"][key]
                yield c
        if x["call"]["h"] not in ("send_message", "raw"):
            c = copy.deepcopy(case)
            c["xs"][i]["call"] = {"h": "send_message", "method": "tools/list", "params": None}
            yield c
        else:
            if x["call"].get("params") is not None:
                c = copy.deepcopy(case)
                c["xs"][i]["call"]["params"] = None
                yield c
            if x["call"].get("id") is not None and x["call"]["h"] == "send_message":
                c = copy.deepcopy(case)
                del c["xs"][i]["call"]["id"]
                yield c
        for key in ("result", "error"):
            if key in x["reply"]:
                for s in _simplify(x["reply"][key]):
                    c = copy.deepcopy(case)
                    c["xs"][i]["reply"][key] = s
                    yield c
        for key in ("notifs", "after"):
            for j, n in enumerate(x.get(key) or []):
                if "params" in n:
                    for s in [None] + list(_simplify(n["params"])):
                        c = copy.deepcopy(case)
                        if s is None:
                            del c["xs"][i][key][j]["params"]
                        else:
                            c["xs"][i][key][j]["params"] = s
                        yield c
