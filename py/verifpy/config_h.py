"""C20 harness: drives the three real host entry points against WITNESS CHILDREN.

A witness is a small Python script the harness writes into a fresh temp directory (one per
configured server) and names as the server's `command`.  It records what the kernel handed it
(argv, the exec-time environment from /proc/self/environ) and every JSON-RPC method it receives
into a file beside itself, answers `initialize` and `ping`, and exits on stdin EOF.

Cases never contain temp paths or pids: commands are placeholders `@W<i>` that are substituted
when the config file is written and mapped back when the records are read.
"""
from __future__ import annotations

import contextlib
import io
import json
import os
import shutil
import signal
import sys
import tempfile
import threading

WITNESS = r'''#!%(py)s -IS
import sys, os, json
d = os.path.dirname(os.path.abspath(sys.argv[0]))
rec = os.path.join(d, "rec-%%d.json" %% os.getpid())
try:
    envb = open("/proc/self/environ", "rb").read()
except OSError:
    envb = b"\0".join(os.fsencode(k) + b"=" + os.fsencode(v) for k, v in os.environ.items())
st = {"argv": [os.fsencode(a).hex() for a in sys.argv[1:]], "env": envb.hex(), "methods": []}
try:
    mode = json.load(open(os.path.join(d, "mode.json")))
except Exception:
    mode = {}
LISTS = {"tools/list": {"tools": [{"name": "t%%d" %% i, "description": "tool %%d" %% i if i %% 2 else None,
                                   "inputSchema": {"type": "object"}} for i in range(5)]},
         "resources/list": {"resources": [{"uri": "file:///r%%d" %% i, "name": "r%%d" %% i} for i in range(4)]},
         "prompts/list": {"prompts": [{"name": "p%%d" %% i, "description": "prompt"} for i in range(4)]}}
def save():
    with open(rec + ".tmp", "w") as f:
        json.dump(st, f)
    os.replace(rec + ".tmp", rec)
save()
out = sys.stdout.buffer
for line in iter(sys.stdin.buffer.readline, b""):
    try:
        m = json.loads(line)
    except Exception:
        continue
    if not isinstance(m, dict):
        continue
    meth = m.get("method")
    st["methods"].append(meth)
    save()
    if "id" not in m or meth is None:
        continue
    if meth == "initialize":
        pv = (m.get("params") or {}).get("protocolVersion", "2025-06-18")
        res = {"protocolVersion": pv, "capabilities": {c: {} for c in mode.get("caps", [])},
               "serverInfo": {"name": "witness", "version": "1"}}
        if "instructions" in mode:
            res["instructions"] = mode["instructions"]
        resp = {"jsonrpc": "2.0", "id": m["id"], "result": res}
    elif meth in LISTS and mode.get("lists") == "ok":
        resp = {"jsonrpc": "2.0", "id": m["id"], "result": LISTS[meth]}
    elif meth == "ping":
        resp = {"jsonrpc": "2.0", "id": m["id"], "result": {}}
    else:
        resp = {"jsonrpc": "2.0", "id": m["id"], "error": {"code": -32601, "message": "method not found"}}
    out.write(json.dumps(resp).encode() + b"\n")
    out.flush()
'''

ENTRY_TIMEOUT_S = 45.0
# directory names the witness lives in (part of the configured command, byte for byte): whitespace, quotes, backslash,
# shell and glob metacharacters, a leading-tilde look-alike, non-ASCII
CMD_STYLES = [" my servers", "'s tools", "\\back\\slash", ' "quoted" dir', " $HOME ${X}", "~user", " *?[a-z]", " ünï-日本", "  two  spaces ",
              " a;b|c&d", " #hash", " (paren)", "\ttab"]
# `load_config` opens the file with the locale's encoding; raw UTF-8 files are only written where that is UTF-8
import locale as _locale
UTF8_FILES = _locale.getpreferredencoding(False).lower().replace("-", "") in ("utf8",)


@contextlib.contextmanager
def quiet_fds():
    """/dev/null on fds 1 and 2 (the entry points print, `run_command` runs `clear`)."""
    sys.stdout.flush()
    sys.stderr.flush()
    saved = (os.dup(1), os.dup(2))
    dn = os.open(os.devnull, os.O_WRONLY)
    try:
        os.dup2(dn, 1)
        os.dup2(dn, 2)
        os.close(dn)
        yield
    finally:
        with contextlib.suppress(Exception):
            sys.stdout.flush()
            sys.stderr.flush()
        os.dup2(saved[0], 1)
        os.dup2(saved[1], 2)
        os.close(saved[0])
        os.close(saved[1])


def placeholders(doc):
    """indices i of every `@W<i>` command of the document"""
    out = set()
    servers = doc.get("mcpServers") if isinstance(doc, dict) else None
    if isinstance(servers, dict):
        for sc in servers.values():
            if isinstance(sc, dict) and isinstance(sc.get("command"), str) and sc["command"].startswith("@W"):
                out.add(int(sc["command"][2:]))
    return sorted(out)


def _sub_dirs(s, dirs, back=False):
    """`@D<i>` <-> the real directory of witness i inside a string (PATH values)"""
    for i, d in sorted(dirs.items(), key=lambda kv: -len(kv[1])):
        s = s.replace(d, f"@D{i}") if back else s.replace(f"@D{i}", d)
    return s


def materialise(doc, paths, dirs=None, broken=None):
    doc = json.loads(json.dumps(doc))
    for sc in (doc.get("mcpServers") or {}).values():
        if not isinstance(sc, dict):
            continue
        if isinstance(sc.get("command"), str) and sc["command"].startswith("@W"):
            sc["command"] = paths[int(sc["command"][2:])]
        elif isinstance(sc.get("command"), str) and sc["command"][:2] in ("@X", "@N") and broken is not None:
            sc["command"] = broken[sc["command"]]
        if dirs and isinstance(sc.get("env"), dict):
            sc["env"] = {k: (_sub_dirs(v, dirs) if isinstance(v, str) else v) for k, v in sc["env"].items()}
    return doc


def canon_env(env, dirs):
    return {k: _sub_dirs(v, dirs, back=True) for k, v in env.items()} if dirs else env


_INHERITED = None


def inherited_names():
    """(names the library inherits on this platform, barred value prefix) as the translator reads them from the
    CURRENT source; None when they cannot be located (then there is no independent expectation)"""
    global _INHERITED
    if _INHERITED is None:
        try:
            from . import core, translate_host
            _lean, rep = translate_host.gen_hostenv(core.REPO / "src" / "chuk_mcp")
            if rep.get("untranslatable"):
                _INHERITED = (None, None)
            else:
                _INHERITED = (rep["win32"] if sys.platform == "win32" else rep["posix"], rep["prefix"])
        except Exception:  # noqa: BLE001
            _INHERITED = (None, None)
    return _INHERITED


def parent_snapshot():
    """the part of THIS process's environment, right now, that the default environment is made from"""
    names, _ = inherited_names()
    if names is None:
        return None
    return {k: os.environ[k] for k in names if k in os.environ}


def expected_default(parent, fallback):
    """the default environment the child must get, computed from the parent's environment AT LAUNCH TIME
    (listed names that are set, non-empty and do not start with the barred prefix) — independently of the library
    function, so that a stale or leaking default shows; `fallback` (the library's own answer) when the lists
    cannot be read from the source"""
    names, prefix = inherited_names()
    if names is None or parent is None:
        return fallback
    return {k: parent[k] for k in names if parent.get(k) and not (prefix is not None and parent[k].startswith(prefix))}


def _decode(b: bytes) -> str:
    return b.decode("utf-8", "surrogateescape")


def read_records(wdirs):
    """-> (launch observations, pids)"""
    launches, pids = [], []
    for i, d in sorted(wdirs.items()):
        for fn in sorted(os.listdir(d)):
            if not (fn.startswith("rec-") and fn.endswith(".json")):
                continue
            pids.append(int(fn[4:-5]))
            try:
                st = json.load(open(os.path.join(d, fn)))
            except Exception:
                continue
            env = {}
            for item in bytes.fromhex(st["env"]).split(b"\0"):
                if item:
                    k, _, v = item.partition(b"=")
                    env[_decode(k)] = _decode(v)
            meths = st.get("methods", [])
            launches.append({
                "cmd": f"@W{i}",
                "argv": [_decode(bytes.fromhex(a)) for a in st["argv"]],
                "env": env,
                "init": "initialize" in meths,
                "ready": "notifications/initialized" in meths,
            })
    launches.sort(key=lambda l: json.dumps(l, sort_keys=True))
    return launches, pids


def kill_strays(wdirs):
    for d in wdirs.values():
        with contextlib.suppress(Exception):
            for fn in os.listdir(d):
                if fn.startswith("rec-") and fn.endswith(".json"):
                    with contextlib.suppress(Exception):
                        os.kill(int(fn[4:-5]), signal.SIGKILL)


def exc_obs(ex: BaseException):
    return {
        "name": type(ex).__name__,
        "fnf": isinstance(ex, FileNotFoundError),
        "jsondecode": isinstance(ex, json.JSONDecodeError),
        "value": isinstance(ex, ValueError),
    }


class FormattingHandler(__import__("logging").Handler):
    """what a host's log handler does with a record: format it (message % args, exception text) — a NullHandler or
    a disabled logger never does, which hides every formatting problem and every debug-only code path"""

    def emit(self, record):
        try:
            self.format(record)
        except Exception:  # noqa: BLE001
            self.handleError(record)


@contextlib.contextmanager
def host_process(case):
    """the environment of the HOST process for one case: logging configured at DEBUG with a formatting handler
    (`logging: "debug"`), and `sys.stdout` as the host may have it — not UTF-8 (`ascii`, `cp1252`) or closed"""
    import logging

    root = logging.getLogger()
    saved = (root.level, list(root.handlers), logging.root.manager.disable)
    h = None
    if case.get("logging") == "debug":
        logging.disable(logging.NOTSET)
        h = FormattingHandler()
        h.setFormatter(logging.Formatter("%(asctime)s %(name)s %(levelname)s %(message)s"))
        root.addHandler(h)
        root.setLevel(logging.DEBUG)
    kind = case.get("stdout", "utf-8")
    if kind in ("ascii", "cp1252"):
        out = io.TextIOWrapper(io.BytesIO(), encoding=kind, errors="strict", write_through=True)
    else:
        out = io.StringIO()
        if kind == "closed":
            out.close()
    try:
        with contextlib.redirect_stdout(out):
            yield
    finally:
        if h is not None:
            root.removeHandler(h)
        for x in list(root.handlers):
            if x not in saved[1]:
                root.removeHandler(x)
        root.setLevel(saved[0])
        logging.disable(saved[2])


def _run_entry(case, cfg_path, obs):
    import anyio
    from chuk_mcp.config import load_config
    from chuk_mcp.protocol.messages import send_initialize, send_ping

    names = case["names"]
    entry = case["entry"]
    verbose = bool(case.get("verbose"))
    with host_process(case):
        legacy = case.get("legacy")
        if entry == "loader" and legacy in ("transport", "asyncgen"):
            # the old package layout: `chuk_mcp.mcp_client.StdioClient` (today's StdioTransport) and the old
            # `stdio_client_with_initialize` (an async generator yielding once)
            import chuk_mcp.mcp_client as L

            async def main():
                with anyio.fail_after(ENTRY_TIMEOUT_S):
                    params, timeout = await load_config(cfg_path, names[0])
                    obs["ret"] = {"command": params.command, "args": list(params.args),
                                  "env": None if params.env is None else dict(params.env), "timeout": timeout}
                    for _ in range(case.get("repeat", 1)):
                        if legacy == "transport":
                            async with L.StdioClient(params) as t:
                                r, w = await t.get_streams()
                                obs["handshake"] = bool(await L.send_initialize(r, w, timeout=10.0))
                                obs["ping"] = bool(await L.send_ping(r, w, timeout=10.0))
                        else:
                            async for r, w, init in L.stdio_client_with_initialize(params, timeout=10.0):
                                obs["handshake"] = bool(init)
                                obs["ping"] = bool(await L.send_ping(r, w, timeout=10.0))

            anyio.run(main)
        elif entry == "loader":
            if legacy == "names":
                from chuk_mcp.mcp_client import stdio_client
            elif legacy == "modules":
                stdio_client = sys.modules["chuk_mcp.mcp_client.transport.stdio.stdio_client"].stdio_client \
                    if __import__("chuk_mcp.mcp_client") else None
            else:
                from chuk_mcp.transports.stdio.stdio_client import stdio_client

            async def main():
                with anyio.fail_after(ENTRY_TIMEOUT_S):
                    params, timeout = await load_config(cfg_path, names[0])
                    obs["ret"] = {"command": params.command, "args": list(params.args),
                                  "env": None if params.env is None else dict(params.env), "timeout": timeout}
                    if legacy == "modules":
                        # what an old host did around a session: parameters class and shutdown helper from the shims
                        shim = sys.modules["chuk_mcp.mcp_client.transport"]
                        assert isinstance(params, shim.stdio.stdio_server_parameters.StdioServerParameters)
                        await shim.stdio.stdio_server_shutdown.shutdown_stdio_server(None, None, None)
                    # repeat: the SAME parameters object serves a second connection
                    for _ in range(case.get("repeat", 1)):
                        async with stdio_client(params) as (r, w):
                            res = await send_initialize(r, w, timeout=10.0 if timeout is None else max(timeout, 10.0))
                            obs["handshake"] = bool(res)
                            obs["ping"] = bool(await send_ping(r, w, timeout=10.0))

            anyio.run(main)
        elif entry == "cliTest":
            import chuk_mcp.__main__ as M

            async def main():
                with anyio.fail_after(ENTRY_TIMEOUT_S):
                    out = None
                    for _ in range(case.get("repeat", 1)):
                        out = await M.test_server(cfg_path, names[0], verbose)
                    return out

            obs["ret"] = bool(anyio.run(main))
        elif entry == "cliMain":
            # the command line itself: argument parsing, default configuration discovery, exit status
            import chuk_mcp.__main__ as M

            mode = case.get("main_mode", "explicit")
            argv = ["chuk_mcp"]
            if mode != "discover":
                argv += ["--config", cfg_path] if mode != "short" else ["-c", cfg_path]
            if not (mode == "default-server" and names[0] == "sqlite"):
                argv += ["--server", names[0]] if mode != "short" else ["-s", names[0]]
            if verbose:
                argv.append("--verbose")
            old_argv, old_cwd = sys.argv, os.getcwd()
            import logging
            root = logging.getLogger()
            handlers, level = list(root.handlers), root.level
            try:
                sys.argv = argv
                if mode == "discover":
                    os.chdir(os.path.dirname(cfg_path))
                for _ in range(case.get("repeat", 1)):
                    try:
                        M.main()
                        obs["ret"] = None
                    except SystemExit as ex:
                        obs["ret"] = ex.code in (0, None)
            finally:
                sys.argv = old_argv
                os.chdir(old_cwd)
                for h in list(root.handlers):
                    if h not in handlers:
                        root.removeHandler(h)
                root.setLevel(level)
        elif entry == "runner":
            if case.get("legacy"):
                import chuk_mcp.mcp_client as SM          # the old package layout re-exports run_command
            else:
                from chuk_mcp.mcp_client.host import server_manager as SM

            got = {"n": None, "pings": [], "info": None}

            async def work(server_streams, server_info=None):
                got["n"] = len(server_streams)
                if server_info is not None:
                    got["info"] = [[i.get("name"), bool(i.get("user_specified"))] for i in server_info]
                for r, w in server_streams:
                    got["pings"].append(bool(await send_ping(r, w, timeout=10.0)))

            style = case.get("cmdfunc", "plain")
            if style == "interactive_mode":
                async def interactive_mode(server_streams, server_info=None):
                    await work(server_streams, server_info)
                    return True                      # "clean exit"
                command = interactive_mode
            elif style == "chat_run":
                async def chat_run(server_streams):   # does not take server_info: the runner falls back
                    await work(server_streams)
                command = chat_run
            elif style == "raises":
                async def command(server_streams):
                    await work(server_streams)
                    raise RuntimeError("command failed: %s {0} cancel scope")
            else:
                async def command(server_streams):
                    await work(server_streams)

            for _ in range(case.get("repeat", 1)):
                if "user_specified" in case:
                    SM.run_command(command, cfg_path, list(names), case["user_specified"])
                else:
                    SM.run_command(command, cfg_path, list(names))
            obs["ret"] = got
        else:
            raise ValueError(entry)


def run_case(case):
    """Execute one case against the real code.  JSON-able observation, no paths, no pids."""
    from chuk_mcp.mcp_client.host.environment import get_default_environment

    obs = {"launches": [], "raised": None, "ret": None, "hang": False, "default_env": {}}
    # a host may look at its default environment at any time, e.g. before it adjusts its own environment and
    # launches a server: the launch must then see the environment as it is at launch time
    with contextlib.suppress(Exception):
        get_default_environment()
    tmp = tempfile.mkdtemp(prefix="verif-c20-")
    wdirs = {}
    host_path = os.environ.get("PATH")
    saved_env = {}
    try:
        doc = case.get("doc")
        paths = {}
        bare = case.get("bare") or {}
        if isinstance(doc, dict):
            # `@W<i>`: a witness named by its path; bare: copies of one witness NAME in several directories,
            # some of them on the host process's PATH, some named in configured PATH values (`@D<i>`)
            for i in sorted(set(placeholders(doc)) | set(bare.get("dirs", []))):
                # the configured command is a PATH: its text may contain anything a path may contain
                style = CMD_STYLES[(i + case["cmdstyle"]) % len(CMD_STYLES)] if "cmdstyle" in case else ""
                d = os.path.join(tmp, f"w{i}{style}")
                os.mkdir(d)
                p = os.path.join(d, bare["name"] if i in bare.get("dirs", []) else "witness")
                with open(p, "w") as f:
                    f.write(WITNESS % {"py": sys.executable})
                os.chmod(p, 0o755)
                if case.get("witness_mode"):
                    with open(os.path.join(d, "mode.json"), "w") as f:
                        json.dump(case["witness_mode"], f)
                wdirs[i] = d
                paths[i] = p
        # commands that CANNOT be spawned: `@X<i>` does not exist, `@N<i>` exists but is not executable
        broken = {}
        if isinstance(doc, dict):
            for sc in (doc.get("mcpServers") or {}).values():
                c_ = sc.get("command") if isinstance(sc, dict) else None
                if isinstance(c_, str) and c_[:2] in ("@X", "@N") and c_ not in broken:
                    bd = os.path.join(tmp, "broken" + c_[1:])
                    os.makedirs(bd, exist_ok=True)
                    broken[c_] = os.path.join(bd, "server")
                    if c_.startswith("@N"):
                        with open(broken[c_], "w") as f:
                            f.write("#!/bin/sh\nexit 0\n")
                        os.chmod(broken[c_], 0o644)
        if bare.get("host"):
            os.environ["PATH"] = ":".join([wdirs[i] for i in bare["host"]] + ([host_path] if host_path else []))
        for k, v in (case.get("host_env") or {}).items():
            saved_env[k] = os.environ.get(k)
            if v is None:
                os.environ.pop(k, None)
            else:
                os.environ[k] = v
        obs["default_env"] = dict(get_default_environment())
        obs["parent_env"] = parent_snapshot()
        cfg_dir = os.path.join(tmp, case.get("cfgdir", "conf"))
        os.makedirs(cfg_dir, exist_ok=True)
        cfg_path = os.path.join(cfg_dir, case.get("cfgname", "config.json"))
        kind = case["file"]
        if kind == "ok":
            style = case.get("style", "ascii")
            real = materialise(doc, paths, wdirs, broken)
            if style == "pretty-utf8" and UTF8_FILES:
                text = json.dumps(real, ensure_ascii=False, indent=2) + "\n"
            elif style == "crlf":
                text = json.dumps(real, ensure_ascii=True, indent=1).replace("\n", "\r\n") + "\r\n\r\n"
            elif style == "compact":
                text = json.dumps(real, ensure_ascii=True, separators=(",", ":"))
            elif style == "spaced":
                text = "\n\t  " + json.dumps(real, ensure_ascii=True, indent=8, sort_keys=True) + "   \n\n"
            else:
                text = json.dumps(real, ensure_ascii=True)
            with open(cfg_path, "w", encoding="utf-8", newline="") as f:
                f.write(text)
        elif kind == "invalid":
            with open(cfg_path, "w", encoding="utf-8") as f:
                f.write(case["text"])
        elif kind == "missing":
            cfg_path = os.path.join(tmp, case.get("path", "absent.json"))
            if case.get("main_mode") == "discover":
                case = dict(case, main_mode="explicit")   # nothing to discover: name the missing file
        else:
            raise ValueError(kind)

        box = {}

        def work():
            try:
                _run_entry(case, cfg_path, obs)
            except BaseException as ex:  # noqa: BLE001 - the exception class IS the observation
                box["exc"] = ex

        if os.environ.get("COVERAGE_PROCESS_START"):
            # coverage measurement (tools/coverage.sh) traces the main thread only: run the entry point here
            # (the fail_after guards inside still bound it)
            work()
        else:
            th = threading.Thread(target=work, daemon=True)
            th.start()
            th.join(ENTRY_TIMEOUT_S + 30.0)
            if th.is_alive():
                obs["hang"] = True
                kill_strays(wdirs)
                th.join(90.0)
        if "exc" in box:
            obs["raised"] = exc_obs(box["exc"])
        obs["launches"], _ = read_records(wdirs)
        for l in obs["launches"]:
            l["env"] = canon_env(l["env"], wdirs)
        obs["default_env"] = canon_env(obs["default_env"], wdirs)
        if obs.get("parent_env") is not None:
            obs["parent_env"] = canon_env(obs["parent_env"], wdirs)
        if isinstance(obs.get("ret"), dict) and isinstance(obs["ret"].get("env"), dict):
            obs["ret"]["env"] = canon_env(obs["ret"]["env"], wdirs)
        # the loader's returned command, back to its placeholder
        if isinstance(obs.get("ret"), dict) and "command" in obs["ret"]:
            for i, p in paths.items():
                if obs["ret"]["command"] == p:
                    obs["ret"]["command"] = f"@W{i}"
    finally:
        for k, v in saved_env.items():
            if v is None:
                os.environ.pop(k, None)
            else:
                os.environ[k] = v
        if host_path is not None:
            os.environ["PATH"] = host_path
        kill_strays(wdirs)
        shutil.rmtree(tmp, ignore_errors=True)
    return obs


def run_cases(cases):
    # a few variables the library must NOT pass on by default, to make the default environment visible
    os.environ.setdefault("VERIF_NOT_INHERITED", "1")
    import gc

    with quiet_fds():
        try:
            return [run_case(c) for c in cases]
        finally:
            gc.collect()  # transports abandoned by run_command complain in __del__; keep that off the terminal


# =============================================================================== the command line (suite "cli")
def _cli_model_path(loc):
    kind, name = loc.split(":", 1)
    return name if kind == "cwd" else ("@HOME/" + name if kind == "home" else "@ABS/" + name)


def run_cli_case(case):
    """`python -m chuk_mcp <argv>` (in-process: `__main__.main()`), in a scratch cwd and HOME holding the
    configuration files of `case["present"]` ({location: document}); locations `cwd:<name>`, `home:<rel>`,
    `abs:<name>`; argv tokens may contain `@ABS/<name>` (replaced by the real path)."""
    import chuk_mcp.__main__ as M
    from chuk_mcp.mcp_client.host.environment import get_default_environment

    obs = {"launches": [], "exit": "none", "raised": None, "default_env": {}}
    tmp = tempfile.mkdtemp(prefix="verif-c20-")
    roots = {"cwd": os.path.join(tmp, "cwd"), "home": os.path.join(tmp, "home"), "abs": os.path.join(tmp, "abs")}
    for d in roots.values():
        os.makedirs(d)
    wdirs, paths = {}, {}
    saved = {"HOME": os.environ.get("HOME"), "argv": sys.argv, "cwd": os.getcwd()}
    import logging
    root_logger = logging.getLogger()
    handlers, level = list(root_logger.handlers), root_logger.level
    try:
        for loc, doc in case["present"].items():
            for i in (placeholders(doc) if isinstance(doc, dict) else []):
                if i not in wdirs:
                    d = os.path.join(tmp, f"w{i}")
                    os.mkdir(d)
                    p = os.path.join(d, "witness")
                    with open(p, "w") as f:
                        f.write(WITNESS % {"py": sys.executable})
                    os.chmod(p, 0o755)
                    wdirs[i], paths[i] = d, p
        for loc, doc in case["present"].items():
            kind, name = loc.split(":", 1)
            fp = os.path.join(roots[kind], name)
            os.makedirs(os.path.dirname(fp), exist_ok=True)
            with open(fp, "w") as f:
                if doc is None:
                    f.write("{ this is not json")
                else:
                    json.dump(materialise(doc, paths, wdirs), f)
        os.environ["HOME"] = roots["home"]
        os.chdir(roots["cwd"])
        sys.argv = ["chuk_mcp"] + [a.replace("@ABS", roots["abs"]) for a in case["argv"]]
        obs["default_env"] = dict(get_default_environment())
        obs["parent_env"] = parent_snapshot()
        buf = io.StringIO()
        try:
            with contextlib.redirect_stdout(buf):
                (M.run if case.get("via") == "run" else M.main)()      # `run` is the console-script entry point
            obs["exit"] = "returned"
        except SystemExit as ex:
            obs["exit"] = ex.code if isinstance(ex.code, int) else (0 if ex.code is None else 1)
        except BaseException as ex:  # noqa: BLE001
            obs["raised"] = type(ex).__name__
        obs["launches"], _ = read_records(wdirs)
        canon = dict(wdirs)
        for l in obs["launches"]:
            l["env"] = {k: _sub_dirs(v, canon, back=True).replace(roots["home"], "@HOME") for k, v in l["env"].items()}
        obs["default_env"] = {k: v.replace(roots["home"], "@HOME") for k, v in canon_env(obs["default_env"], canon).items()}
        if obs.get("parent_env") is not None:
            obs["parent_env"] = {k: v.replace(roots["home"], "@HOME") for k, v in canon_env(obs["parent_env"], canon).items()}
    finally:
        sys.argv = saved["argv"]
        os.chdir(saved["cwd"])
        if saved["HOME"] is None:
            os.environ.pop("HOME", None)
        else:
            os.environ["HOME"] = saved["HOME"]
        for h in list(root_logger.handlers):
            if h not in handlers:
                root_logger.removeHandler(h)
        root_logger.setLevel(level)
        kill_strays(wdirs)
        shutil.rmtree(tmp, ignore_errors=True)
    return obs


def run_cli_cases(cases):
    import gc

    with quiet_fds():
        try:
            return [run_cli_case(c) for c in cases]
        finally:
            gc.collect()


# =============================================================================== the default environment (suite "hostenv")
def run_hostenv_cases(cases):
    """the real `get_default_environment()` under generated parent environments; the win32 name list is
    reached by re-executing the module with `sys.platform` patched (and restoring it afterwards)"""
    import importlib
    from unittest import mock

    import chuk_mcp.mcp_client as legacy
    import chuk_mcp.mcp_client.host.environment as envmod

    out = [None] * len(cases)

    def batch(idx, via_legacy):
        for i in idx:
            fn = legacy.get_default_environment if via_legacy(i) else envmod.get_default_environment
            with mock.patch.dict(os.environ, cases[i]["parent"], clear=True):
                try:
                    out[i] = {"env": dict(fn())}
                except Exception as ex:  # noqa: BLE001
                    out[i] = {"env": None, "raised": type(ex).__name__}

    posix = [i for i, c in enumerate(cases) if not c.get("win32")]
    win = [i for i, c in enumerate(cases) if c.get("win32")]
    batch(posix, lambda i: i % 2 == 1)
    if win:
        try:
            with mock.patch.object(sys, "platform", "win32"):
                importlib.reload(envmod)
            batch(win, lambda i: False)
        finally:
            importlib.reload(envmod)
    return out
