"""Harness for the C02 extension: the notification senders with predicted params, the notification
handlers, NotificationHandler, the kind predicates, the error classes' error objects, and the
client-side answers to server→client requests (roots / sampling / completions), each run on the
real code.  `run_case(case)` returns a JSON-able observation; everything is importable in a
worker process."""
from __future__ import annotations

import copy
import importlib

from . import json_h as J
from . import rpc_h as R


def _mod(name):
    return importlib.import_module("chuk_mcp.protocol.messages." + name)


def _py(t):
    return None if t is None else J.to_py(t)


def _t(v):
    try:
        return {"v": J.of_py(v)}
    except TypeError as ex:
        return {"unjsonable": str(ex)[:60]}


# -- senders -----------------------------------------------------------------------------------------
SENDERS = {
    "progress": ("notifications", "send_progress_notification"),
    "cancelled": ("notifications", "send_cancelled_notification"),
    "list_changed": ("notifications", "send_roots_list_changed_notification"),
    "list_changed_roots": ("roots.send_messages", "send_roots_list_changed_notification"),
    "initialized": ("initialize.send_messages", "send_initialized_notification"),
}


def run_sender(a):
    modname, fname = SENDERS[a["which"]]
    f = getattr(_mod(modname), fname)

    async def go(r, w):
        if a["which"] == "progress":
            await f(w, R.idval(a["token"]), _py(a.get("progress")), _py(a.get("total")), _py(a.get("message")))
        elif a["which"] == "cancelled":
            await f(w, R.idval(a["request_id"]), _py(a.get("reason")))
        else:
            await f(w)

    if a.get("closed"):
        # the peer is gone: the sender logs the failure and must not raise
        import anyio
        import math

        box = {}

        async def main():
            send, recv = anyio.create_memory_object_stream(math.inf)
            await recv.aclose()
            try:
                await go(None, send)
            except Exception as ex:  # noqa: BLE001
                box["exc"] = type(ex).__name__

        from . import vloop
        vloop.run(main)
        return R.observe([], box.get("exc"))
    written, exc = R.run_async(go)
    return R.observe(written, exc)


# -- handlers ----------------------------------------------------------------------------------------
HANDLERS = {
    "progress": ("notifications", "handle_progress_notification"),
    "cancelled": ("notifications", "handle_cancelled_notification"),
    "logging": ("notifications", "handle_logging_message_notification"),
    "list_changed:resources": ("resources.notifications", "handle_resources_list_changed_notification"),
    "resources_updated": ("resources.notifications", "handle_resources_updated_notification"),
    "list_changed:tools": ("tools.notifications", "handle_tools_list_changed_notification"),
    "list_changed:prompts": ("prompts.notifications", "handle_prompts_list_changed_notification"),
}


def run_handler(a):
    modname, fname = HANDLERS[a["fn"]]
    f = getattr(_mod(modname), fname)
    calls = []

    async def cb(*args):
        calls.append(list(args))

    n = copy.deepcopy(_py(a["n"]))

    async def main():
        await f(cb, n)

    _, exc = R._run(main)
    return {"called": None if not calls else [_t(x) for x in calls[0]], "calls": len(calls), "raised": exc}


def run_nh(a):
    """NotificationHandler: registrations in order (tag, behaviour), then one notification"""
    from chuk_mcp.protocol.messages.notifications import NotificationHandler

    ran = []
    nh = NotificationHandler()
    if a.get("defaults"):
        nh.register_defaults()

    def mk(tag, raises):
        async def h(notification):
            ran.append(tag)
            if raises:
                raise RuntimeError("handler failure (scripted)")
        return h

    for method, tag, raises in a["regs"]:
        nh.register(R.s_(method), mk(tag, raises))
    n = copy.deepcopy(_py(a["n"]))
    default_methods = set(nh.handlers) if a.get("defaults") else set()

    async def main():
        await nh.handle(n)

    _, exc = R._run(main)
    m = n.get("method") if isinstance(n, dict) else None
    hit_default = bool(a.get("defaults")) and not ran and isinstance(m, str) and m in default_methods \
        and m not in {R.s_(x[0]) for x in a["regs"]}
    return {"ran": ran, "raised": exc, "default_hit": hit_default, "registered_defaults": sorted(default_methods)}


# -- predicates --------------------------------------------------------------------------------------
def run_predicates(a):
    """is_request / is_notification / is_response / is_error_response of the legacy class (as built by
    its class methods and as returned by parse_message) and of JSONRPCMessageWrapper"""
    m = R._msg_mod()
    kind = a["of"]
    legacy = {"request": R.d_legacy_create_request, "notification": R.d_legacy_create_notification,
              "response": R.d_legacy_create_response, "error": R.d_legacy_create_error_response}[kind](a)[0]
    typed = {"request": R.d_create_request, "notification": R.d_create_notification,
             "response": R.d_create_response, "error": R.d_create_error_response}[kind](a)[0]
    wire = typed.model_dump(exclude_none=True)
    parsed = m.parse_message(copy.deepcopy(wire))
    wrapper = m.JSONRPCMessageWrapper(typed)

    def preds(x):
        return {k: bool(getattr(x, k)()) for k in ("is_request", "is_notification", "is_response", "is_error_response") if hasattr(x, k)}

    out = {"wire": J.of_py(wire), "legacy": preds(legacy), "parsed": preds(parsed), "parsed_cls": type(parsed).__name__,
           "wrapper": preds(wrapper),
           "wrapper_members": {k: _t(getattr(wrapper, k)) for k in ("jsonrpc", "id", "method", "params", "result", "error")},
           "wrapper_batch": bool(wrapper.is_batch())}
    return out


# -- error classes -----------------------------------------------------------------------------------
def run_errdata(a):
    from chuk_mcp.protocol.types import errors as E

    cls = getattr(E, a["cls"])
    msg, data = R.s_(a["message"]), _py(a.get("data"))
    out = {}
    if a["cls"] == "VersionMismatchError":
        ex = cls(R.s_(a["requested"]), [R.s_(x) for x in a["supported"]])
    elif a.get("code") is None:
        ex = cls(msg, data=data) if a["cls"] in ("ProtocolError", "ValidationError") else None
    else:
        ex = cls(msg, a["code"], data)
    if ex is None:
        return {"skip": True}
    d = ex.to_json_rpc_error()
    out["error"] = _t(d)
    out["code"] = ex.code
    out["same_as_create_error_data"] = d == E.create_error_data(ex.code, str(ex), ex.data)
    if a["cls"] == "VersionMismatchError":
        back = E.VersionMismatchError.from_json_rpc_error(copy.deepcopy(d))
        out["back"] = {"requested": _t(back.requested), "supported": _t(back.supported)}
    if a.get("from_error") is not None:
        try:
            back = E.VersionMismatchError.from_json_rpc_error(_py(a["from_error"]))
            out["from"] = {"requested": _t(back.requested), "supported": _t(back.supported)}
        except Exception as ex2:  # noqa: BLE001
            out["from"] = {"raised": type(ex2).__name__}
    # the error object inside a response built by the library's constructor
    try:
        resp = R._msg_mod().create_error_response(R.idval(a.get("id")) if a.get("id") is not None else 1, d["code"], d["message"], d.get("data"))
        out["emitted"] = [R.wire_forms(resp)]
    except Exception as ex3:  # noqa: BLE001
        out["emit_raised"] = type(ex3).__name__
    return out


# -- answers to server->client requests --------------------------------------------------------------
def _roots(a):
    rs = _mod("roots.send_messages")
    return [rs.create_root(R.s_(u), _py(n)) if i % 2 else rs.Root(uri=R.s_(u), name=_py(n)) for i, (u, n) in enumerate(a["roots"])]


def run_roots(a):
    rs = _mod("roots.send_messages")
    op = a["op"]
    if op == "handle_roots_list_request":
        roots = _roots(a)
        r, exc = R._run(lambda: rs.handle_roots_list_request(roots=roots, request_id=R.idval(a.get("id"))))
        return R.observe([r] if r is not None else [], exc)
    # RootsManager: operations in order on one manager with a write stream; the notifications it schedules
    import anyio
    import math
    from . import vloop

    box = {"w": [], "exc": None, "resp": []}

    async def main():
        send, recv = anyio.create_memory_object_stream(math.inf)
        mgr = rs.RootsManager(send if a.get("stream", True) else None)
        try:
            for step in a["steps"]:
                if step[0] == "add":
                    mgr.add_root(rs.Root(uri=R.s_(step[1]), name=_py(step[2])))
                elif step[0] == "remove":
                    mgr.remove_root(R.s_(step[1]))
                elif step[0] == "clear":
                    mgr.clear()
                elif step[0] == "list":
                    box["resp"].append(await mgr.handle_list_request(R.idval(step[1])))
                await anyio.sleep(0)
            await anyio.sleep(0.01)
        except Exception as ex:  # noqa: BLE001
            box["exc"] = type(ex).__name__
        while True:
            try:
                box["w"].append(recv.receive_nowait())
            except Exception:  # noqa: BLE001
                break

    vloop.run(main)
    o = R.observe(box["resp"] + box["w"], box["exc"])
    o["responses"] = len(box["resp"])
    o["notifications"] = len(box["w"])
    return o


class _Content:
    def __init__(self, d):
        self._d = d

    def model_dump(self, **kw):
        return copy.deepcopy(self._d)


class _Result:
    def __init__(self, role, content, stop, as_model):
        self.role = role
        self.content = _Content(content) if as_model else content
        self.stop_reason = stop


def run_sampling(a):
    sm = _mod("sampling.send_messages")
    seen = {}

    class Provider:
        async def create_message(self, **kw):
            seen["kw"] = sorted(kw)
            seen["max_tokens"] = kw.get("max_tokens")
            return _Result(_py(a["provider"][0]), _py(a["provider"][1]), _py(a["provider"][2]), a.get("content_model", False))

    h = sm.SamplingHandler(Provider() if a.get("provider") is not None else None)
    if a.get("approval") is not None:
        async def approve(messages, params):
            return a["approval"]
        h.set_approval_handler(approve)
    if "selected" in a:
        async def select(prefs):
            return _py(a["selected"])
        h.set_model_selector(select)
    params = copy.deepcopy(_py(a["params"]))
    r, exc = R._run(lambda: h.handle_create_message_request(params, R.idval(a.get("id"))))
    out = {"raised": exc, "result": None if r is None else _t(r), "provider_called": "kw" in seen, "max_tokens": seen.get("max_tokens")}
    if r is not None and a.get("id") is not None:
        try:
            out["emitted"] = [R.wire_forms(R._msg_mod().create_response(R.idval(a["id"]), r))]
        except Exception as ex:  # noqa: BLE001
            out["emit_raised"] = type(ex).__name__
    return out


def run_completion(a):
    cm = _mod("completions.send_messages")
    prov = cm.CompletionProvider()
    ran = []

    def mk(tag):
        async def h(arg_name, arg_value):
            ran.append([tag, arg_name, arg_value])
            return [f"v{i}" for i in range(a["count"])]
        return h

    for pat, tag in a["resources"]:
        prov.register_resource_handler(R.s_(pat), mk(tag))
    for name, tag in a["prompts"]:
        prov.register_prompt_handler(R.s_(name), mk(tag))
    ref, arg = _py(a["ref"]), _py(a["argument"])
    r, exc = R._run(lambda: prov.handle_completion_request(ref, arg))
    out = {"raised": exc, "ran": ran[0][0] if ran else None, "args": _t(ran[0][1:]) if ran else None}
    if r is not None:
        out.update(kept=len(r.values), prefix=list(r.values) == [f"v{i}" for i in range(len(r.values))], total=r.total, hasMore=bool(r.hasMore))
    return out


def run_enum(a):
    cm = _mod("completions.send_messages")
    allowed = [R.s_(x) for x in a["allowed"]]
    r, exc = R._run(lambda: cm.complete_enum_value(R.s_(a["current"]), allowed, case_sensitive=a["case_sensitive"]))
    return {"raised": exc, "values": None if r is None else [J.cps(x) for x in r]}


def run_edge(a):
    """the remaining accessors / refusals of json_rpc_message.py"""
    m = R._msg_mod()
    k = a["k"]
    try:
        if k == "to_specific":
            d = _py(a["v"])
            msg = m.JSONRPCMessage.model_validate(d)
            try:
                sp = msg.to_specific_type()
            except ValueError:
                return {"kind": None}
            return {"kind": {"JSONRPCRequest": "request", "JSONRPCNotification": "notification", "JSONRPCResponse": "response",
                             "JSONRPCError": "error"}[type(sp).__name__], "emitted": [R.wire_forms(sp)]}
        if k == "from_specific_bad":
            try:
                m.JSONRPCMessage.from_specific_type(_py(a["v"]))
                return {"raised": None}
            except Exception as ex:  # noqa: BLE001
                return {"raised": type(ex).__name__}
        if k == "dump_json_default":
            msg = {"request": R.d_legacy_create_request, "notification": R.d_legacy_create_notification,
                   "response": R.d_legacy_create_response, "error": R.d_legacy_create_error_response}[a["of"]](a)[0]
            return {"same": msg.model_dump_json() == msg.model_dump_json(exclude_none=True),
                    "plain_dump_has_none": any(v is None for v in msg.model_dump().values())}
        if k == "wrapper_batch":
            items = [R.d_create_request(a)[0], R.d_create_notification(a)[0]]
            w = m.JSONRPCMessageWrapper(items)
            d = w.model_dump(exclude_none=True)
            out = {"is_batch": bool(w.is_batch()), "n": len(d), "emitted": [R.wire_forms(x) for x in d]}
            try:
                m.JSONRPCMessageWrapper(object()).model_dump()
                out["unknown_raises"] = None
            except Exception as ex:  # noqa: BLE001
                out["unknown_raises"] = type(ex).__name__
            return out
        if k == "parse_batch":
            try:
                r = m.parse_message(copy.deepcopy(_py({"a": a["items"]})))
                return {"out": f"ok:{len(r)}"}
            except Exception as ex:  # noqa: BLE001
                return {"out": "raised", "exc": type(ex).__name__}
    except Exception as ex:  # noqa: BLE001
        return {"harness_raised": type(ex).__name__, "text": str(ex)[:200]}
    return {"harness_raised": "unknown edge kind"}


def run_twins(a):
    """two instances of NotificationHandler / RootsManager / CompletionProvider used alternately vs. each alone"""
    kind = a["kind"]
    if kind == "nh":
        def one(regs, notes):
            return [run_nh({"regs": regs, "defaults": a.get("defaults"), "n": n})["ran"] for n in notes]
        from chuk_mcp.protocol.messages.notifications import NotificationHandler
        ran = {0: [], 1: []}
        hs = [NotificationHandler(), NotificationHandler()]

        def mk(i, tag):
            async def h(notification):
                ran[i].append(tag)
            return h
        for i in (0, 1):
            if a.get("defaults"):
                hs[i].register_defaults()
            for method, tag, _ in a["regs"][i]:
                hs[i].register(R.s_(method), mk(i, tag))
        seq = {0: [], 1: []}
        for i, n in a["notes"]:
            before = len(ran[i])
            R._run(lambda i=i, n=n: hs[i].handle(copy.deepcopy(_py(n))))
            seq[i].append(ran[i][before:])
        alone = {i: one(a["regs"][i], [n for j, n in a["notes"] if j == i]) for i in (0, 1)}
        return {"independent": all(seq[i] == alone[i] for i in (0, 1))}
    if kind == "roots":
        def run(steps_by):
            return {i: run_roots({"op": "manager", "steps": st, "stream": True}) for i, st in steps_by.items()}
        # interleaved on two managers in one event loop
        import anyio
        import math
        from . import vloop
        rs = _mod("roots.send_messages")
        box = {0: [], 1: []}

        async def main():
            pairs = [anyio.create_memory_object_stream(math.inf) for _ in (0, 1)]
            mgrs = [rs.RootsManager(p[0]) for p in pairs]
            for i, step in a["steps"]:
                if step[0] == "add":
                    mgrs[i].add_root(rs.Root(uri=R.s_(step[1]), name=_py(step[2])))
                elif step[0] == "remove":
                    mgrs[i].remove_root(R.s_(step[1]))
                elif step[0] == "clear":
                    mgrs[i].clear()
                await anyio.sleep(0)
            await anyio.sleep(0.01)
            for i in (0, 1):
                n = 0
                while True:
                    try:
                        pairs[i][1].receive_nowait()
                        n += 1
                    except Exception:  # noqa: BLE001
                        break
                box[i] = [n, sorted(r.uri for r in mgrs[i].get_roots())]

        vloop.run(main)
        alone = run({i: [st for j, st in a["steps"] if j == i] + [["list", {"i": 1}]] for i in (0, 1)})
        ok = True
        for i in (0, 1):
            o = alone[i]
            uris = []
            if o["emitted"]:
                res = {R.s_(k): v for k, v in o["emitted"][0]["dump"]["wire"]["o"]}.get("result")
                roots = {R.s_(k): v for k, v in res["o"]}["roots"]["a"]
                uris = sorted(R.s_({R.s_(k): v for k, v in r["o"]}["uri"]["s"]) for r in roots)
            ok = ok and box[i] == [o["notifications"], uris]
        return {"independent": ok}
    if kind == "completion":
        outs = []
        for tags in ([1, 2], [1], [2]):
            cm = _mod("completions.send_messages")
            provs = {t: cm.CompletionProvider() for t in tags}
            ran = []
            for t, pr in provs.items():
                async def h(n, v, t=t):
                    ran.append(t)
                    return [str(t)]
                pr.register_resource_handler("file:", h)
                pr.register_prompt_handler("p", h)
            res = {}
            for t, ref in a["calls"]:
                if t in provs:
                    r, exc = R._run(lambda t=t, ref=ref: provs[t].handle_completion_request(_py(ref), {"name": "a", "value": ""}))
                    res.setdefault(t, []).append(None if r is None else list(r.values))
            outs.append(res)
        both, one, two = outs
        return {"independent": both.get(1) == one.get(1) and both.get(2) == two.get(2)}
    return {"harness_raised": "unknown twins kind"}


def run_parse(a):
    """parse_message on an arbitrary (peer-supplied) object"""
    return R.parse_view(_py(a["v"]))


RUNNERS = {"sender": run_sender, "handler": run_handler, "nh": run_nh, "predicates": run_predicates, "errdata": run_errdata,
           "roots": run_roots, "sampling": run_sampling, "completion": run_completion, "enum": run_enum, "parse": run_parse, "edge": run_edge, "twins": run_twins}


def run_case(case):
    try:
        return RUNNERS[case["x"]](case["args"])
    except Exception as ex:  # noqa: BLE001
        return {"harness_raised": type(ex).__name__, "text": str(ex)[:200]}
