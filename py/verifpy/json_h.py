"""JSON values for the C17 / C02 checks: transport form, generators, shrinking, worker processes.

Transport form T of a JSON value (JSON-able itself, independent of how any JSON library escapes
text, keeps int/float/bool apart):

    None | True | False | {"i": int} | {"f": float.hex()} | {"s": [code points]}
    | {"a": [T…]} | {"o": [[[code points], T] …]}          (object members in order)

The Lean driver uses the same form except that a float is `{"f": "<token>"}` (the model treats
floats as opaque tokens; the token is the one the backend under test writes).
"""
from __future__ import annotations

import atexit
import json
import os
import struct
import subprocess
import sys

from . import core

I64_MIN = -(2 ** 63)
U64_MAX = 2 ** 64 - 1


# ---------------------------------------------------------------------------------------------
# transport form
# ---------------------------------------------------------------------------------------------
def S(s: str):
    return {"s": [ord(c) for c in s]}


def cps(s: str):
    return [ord(c) for c in s]


# compact nodes, so that very deep / long / wide values stay small in transport and never make the
# harness itself recurse deeply (the same functions produce them for the case and for what a decoder
# returned, so equal values have equal transport forms):
#   {"nest": [levels, T]}   a chain of >= NEST_MIN single-member containers around T, outermost first;
#                           a level is 0 (array) or the member's key (object)
#   {"srep": [unit, n]}     the string unit * n (strings of >= LONG characters that are a repetition);
#                           also allowed as an object key
#   {"arange": n}           [0, 1, …, n-1]           (n >= LONG)
#   {"orange": n}           {"k0": 0, …, "k<n-1>": n-1}   (n >= LONG)
NEST_MIN = 64
LONG = 4096


def key_str(k) -> str:
    if isinstance(k, dict):
        unit, n = k["srep"]
        return "".join(map(chr, unit)) * n
    return "".join(map(chr, k))


def _str_t(v: str):
    if len(v) >= LONG:
        for u in range(1, 17):
            if len(v) % u == 0 and v == v[:u] * (len(v) // u):
                return {"srep": [[ord(c) for c in v[:u]], len(v) // u]}
    return [ord(c) for c in v]


def to_py(t):
    if t is None or t is True or t is False:
        return t
    if "i" in t:
        return int(t["i"])
    if "f" in t:
        return float.fromhex(t["f"])
    if "s" in t:
        return key_str(t["s"])
    if "a" in t:
        return [to_py(x) for x in t["a"]]
    if "o" in t:
        return {key_str(k): to_py(v) for k, v in t["o"]}
    if "nest" in t:
        levels, inner = t["nest"]
        v = to_py(inner)
        for lv in reversed(levels):
            v = [v] if lv == 0 else {key_str(lv): v}
        return v
    if "arange" in t:
        return list(range(t["arange"]))
    if "orange" in t:
        return {f"k{i}": i for i in range(t["orange"])}
    raise ValueError(f"bad transport value {t!r}")


def of_py(v):
    if v is None or v is True or v is False:
        return v
    if isinstance(v, int):
        return {"i": v}
    if isinstance(v, float):
        return {"f": v.hex()}
    if isinstance(v, str):
        return {"s": _str_t(v)}
    if isinstance(v, (list, tuple, dict)) and len(v) == 1:
        levels, cur = [], v
        while isinstance(cur, (list, tuple, dict)) and len(cur) == 1:
            if isinstance(cur, dict):
                (k, cur), = cur.items()
                if not isinstance(k, str):
                    raise TypeError(f"non-string key {k!r}")
                levels.append(_str_t(k))
            else:
                levels.append(0)
                cur = cur[0]
        if len(levels) >= NEST_MIN:
            return {"nest": [levels, of_py(cur)]}
    if isinstance(v, (list, tuple)):
        if len(v) >= LONG and all(type(x) is int and x == i for i, x in enumerate(v)):
            return {"arange": len(v)}
        return {"a": [of_py(x) for x in v]}
    if isinstance(v, dict):
        if len(v) >= LONG and all(type(x) is int and k == f"k{x}" and x == i for i, (k, x) in enumerate(v.items())):
            return {"orange": len(v)}
        out = []
        for k, x in v.items():
            if not isinstance(k, str):
                raise TypeError(f"non-string key {k!r}")
            out.append([_str_t(k), of_py(x)])
        return {"o": out}
    raise TypeError(f"not a JSON value: {type(v).__name__}")


def normal(t):
    """the normal transport form of a value (what `of_py` gives for the Python value): a chain absorbs every
    single-member container below it, long repetitive strings are compact, …"""
    return of_py(to_py(t))


def floats_of(v):
    stack = [v]
    while stack:
        x = stack.pop()
        if isinstance(x, float):
            yield x
        elif isinstance(x, list):
            stack.extend(reversed(x))
        elif isinstance(x, dict):
            stack.extend(reversed(list(x.values())))


def walk(t):
    yield t
    if isinstance(t, dict):
        if "a" in t:
            for x in t["a"]:
                yield from walk(x)
        elif "o" in t:
            for _, x in t["o"]:
                yield from walk(x)
        elif "nest" in t:
            yield from walk(t["nest"][1])


def is_compact(t) -> bool:
    """does the value use a compact node (very deep / long / wide)?"""
    for x in walk(t):
        if isinstance(x, dict):
            if "nest" in x or "arange" in x or "orange" in x:
                return True
            if "s" in x and isinstance(x["s"], dict):
                return True
            if "o" in x and any(isinstance(k, dict) for k, _ in x["o"]):
                return True
    return False


def text_size(t) -> int:
    """characters in the strings and keys of a value (transport form, compact nodes counted in full)"""
    n = 0
    for x in walk(t):
        if isinstance(x, dict):
            if "s" in x:
                n += len(x["s"]) if not isinstance(x["s"], dict) else len(x["s"]["srep"][0]) * x["s"]["srep"][1]
            elif "o" in x:
                n += sum(len(k) if not isinstance(k, dict) else len(k["srep"][0]) * k["srep"][1] for k, _ in x["o"])
    return n


def fits64(t) -> bool:
    return all(not (isinstance(x, dict) and "i" in x) or I64_MIN <= x["i"] <= U64_MAX for x in walk(t))


def depth(t) -> int:
    if isinstance(t, dict) and "a" in t:
        return 1 + max([depth(x) for x in t["a"]], default=1)
    if isinstance(t, dict) and "o" in t:
        return 1 + max([depth(x) for _, x in t["o"]], default=1)
    if isinstance(t, dict) and "nest" in t:
        return len(t["nest"][0]) + depth(t["nest"][1])
    if isinstance(t, dict) and ("arange" in t or "orange" in t):
        return 2
    return 1


def _key_cps(k):
    return k["srep"][0] if isinstance(k, dict) else k


def all_cps(t):
    for x in walk(t):
        if isinstance(x, dict):
            if "s" in x:
                yield from _key_cps(x["s"])
            elif "o" in x:
                for k, _ in x["o"]:
                    yield from _key_cps(k)
            elif "nest" in x:
                for lv in x["nest"][0]:
                    if lv != 0:
                        yield from _key_cps(lv)


def unordered(t):
    """canonical form for value equality: object members sorted by key (Python dict equality
    does not look at order)"""
    if isinstance(t, dict):
        if "a" in t:
            return {"a": [unordered(x) for x in t["a"]]}
        if "o" in t:
            return {"o": sorted(([k, unordered(v)] for k, v in t["o"]), key=lambda kv: canon_key(kv[0]))}
        if "nest" in t:
            return {"nest": [t["nest"][0], unordered(t["nest"][1])]}
    return t


def canon_key(k):
    return (1, k["srep"][0], k["srep"][1]) if isinstance(k, dict) else (0, k, 0)


def with_tokens(t, tokens):
    """transport form -> driver form: floats carry the token the backend writes"""
    if isinstance(t, dict):
        if "f" in t:
            return {"f": tokens[t["f"]]}
        if "a" in t:
            return {"a": [with_tokens(x, tokens) for x in t["a"]]}
        if "o" in t:
            return {"o": [[k, with_tokens(v, tokens)] for k, v in t["o"]]}
        if "nest" in t:
            return {"nest": [t["nest"][0], with_tokens(t["nest"][1], tokens)]}
    return t


def from_model(m):
    """driver form -> transport form: a float token is read with Python's float()"""
    if isinstance(m, dict):
        if "f" in m:
            try:
                return {"f": float(m["f"]).hex()}
            except ValueError:
                return {"f": "bad-token:" + m["f"]}
        if "a" in m:
            return {"a": [from_model(x) for x in m["a"]]}
        if "o" in m:
            return {"o": [[k, from_model(v)] for k, v in m["o"]]}
    return m


def text_of_cps(a):
    return "".join(map(chr, a))


# ---------------------------------------------------------------------------------------------
# worker processes (orjson importable / blocked; Pydantic / fallback backend)
# ---------------------------------------------------------------------------------------------
class Worker:
    def __init__(self, block_orjson=False, force_fallback=False, module="verifpy.json_worker", slot=0):
        env = dict(os.environ)
        env["PYTHONPATH"] = str(core.ROOT / "py") + os.pathsep + env.get("PYTHONPATH", "")
        env["PYTHONDONTWRITEBYTECODE"] = "1"
        env["VERIF_REPO"] = str(core.REPO)
        env["VERIF_BLOCK_ORJSON"] = "1" if block_orjson else "0"
        if force_fallback:
            env["MCP_FORCE_FALLBACK"] = "1"
        else:
            env.pop("MCP_FORCE_FALLBACK", None)
        self.p = subprocess.Popen(
            [sys.executable, "-m", module], stdin=subprocess.PIPE, stdout=subprocess.PIPE,
            stderr=subprocess.DEVNULL, env=env, text=True, bufsize=1,
        )

    def send(self, req):
        self.p.stdin.write(json.dumps(req, ensure_ascii=True) + "\n")
        self.p.stdin.flush()

    def recv(self):
        line = self.p.stdout.readline()
        if not line:
            raise RuntimeError(f"worker died (rc={self.p.poll()})")
        return json.loads(line)

    def call(self, req):
        self.send(req)
        return self.recv()

    def close(self):
        try:
            self.p.stdin.close()
            self.p.wait(timeout=5)
        except Exception:  # noqa: BLE001
            self.p.kill()


_workers: dict = {}


def worker(**kw) -> Worker:
    key = tuple(sorted(kw.items()))
    w = _workers.get(key)
    if w is None or w.p.poll() is not None:
        w = _workers[key] = Worker(**kw)
    return w


@atexit.register
def _close_all():
    for w in _workers.values():
        w.close()


# ---------------------------------------------------------------------------------------------
# generators
# ---------------------------------------------------------------------------------------------
C0 = list(range(0, 32))
SPECIAL_CPS = C0 + [0x22, 0x5C, 0x2F, 0x7F, 0x80, 0x85, 0xA0, 0xE9, 0x7FF, 0x800, 0x2028, 0x2029, 0xD7FF, 0xE000,
                    0xFEFF, 0xFFFD, 0xFFFE, 0xFFFF, 0x10000, 0x1F600, 0xFFFFF, 0x100000, 0x10FFFF]
PLAIN_CPS = [ord(c) for c in "aZ09 _-:,[]{}"]
INT_EDGES = [0, 1, -1, 9, 10, -10, 127, 255, 2 ** 31 - 1, 2 ** 31, -(2 ** 31), 2 ** 32, 2 ** 53 - 1, 2 ** 53, 2 ** 53 + 1,
             -(2 ** 53) - 1, 2 ** 63 - 1, 2 ** 63, 2 ** 63 + 1, 2 ** 64 - 2, 2 ** 64 - 1, -(2 ** 63), -(2 ** 63) + 1,
             10 ** 18, 10 ** 19, 12345678901234567890]
INT_OUTSIDE = [2 ** 64, 2 ** 64 + 1, -(2 ** 63) - 1, 10 ** 30, -(10 ** 30), 2 ** 200]
FLOAT_EDGES = [0.0, -0.0, 1.0, -1.0, 1.5, 0.1, 1 / 3, 100.0, 1e15, 1e16, 1e21, 1e22, 1e-5, 1e-7, 1e308, 1.7976931348623157e308,
               -1.7976931348623157e308, 5e-324, -5e-324, 2.2250738585072014e-308, 2.225073858507201e-308, 123456789012345680.0,
               9007199254740993.0, 1e100, 6.02214076e23, 3.141592653589793]


def rand_float(rng):
    while True:
        x = struct.unpack("<d", rng.getrandbits(64).to_bytes(8, "little"))[0]
        if x == x and x not in (float("inf"), float("-inf")):
            return x


def rand_int(rng, outside=False):
    if outside:
        return rng.choice(INT_OUTSIDE + [rng.choice([1, -1]) * (2 ** 64 + rng.getrandbits(rng.choice([8, 70])))])
    r = rng.random()
    if r < 0.35:
        return rng.choice(INT_EDGES)
    if r < 0.55:
        return rng.randrange(2 ** 63, 2 ** 64)
    if r < 0.7:
        return rng.randrange(-(2 ** 63), -(2 ** 53))
    if r < 0.85:
        return rng.randrange(2 ** 53, 2 ** 63)
    return rng.randrange(-1000, 1000)


def rand_cps(rng, maxlen=6):
    n = rng.choice([0, 1, 1, 2, 3, maxlen])
    out = []
    for _ in range(n):
        r = rng.random()
        if r < 0.45:
            out.append(rng.choice(SPECIAL_CPS))
        elif r < 0.8:
            out.append(rng.choice(PLAIN_CPS))
        elif r < 0.9:
            c = rng.randrange(0x80, 0xFFFF)
            out.append(c if not 0xD800 <= c <= 0xDFFF else 0xE9)
        else:
            out.append(rng.randrange(0x10000, 0x110000))
    return out


def rand_value(rng, depth_left=4, outside_p=0.0, width=4):
    r = rng.random()
    if depth_left <= 1 or r < 0.45:
        k = rng.randrange(7)
        if k == 0:
            return None
        if k == 1:
            return rng.choice([True, False])
        if k == 2:
            return {"i": rand_int(rng, outside=rng.random() < outside_p)}
        if k == 3:
            return {"f": (rng.choice(FLOAT_EDGES) if rng.random() < 0.6 else rand_float(rng)).hex()}
        if k == 4:
            return {"s": rand_cps(rng)}
        if k == 5:
            return {"a": []}
        return {"o": []}
    if r < 0.72:
        return {"a": [rand_value(rng, depth_left - 1, outside_p, width) for _ in range(rng.randrange(0, width + 1))]}
    keys, members = set(), []
    for _ in range(rng.randrange(0, width + 1)):
        k = tuple(rand_cps(rng, 4))
        if k in keys:
            continue
        keys.add(k)
        members.append([list(k), rand_value(rng, depth_left - 1, outside_p, width)])
    return {"o": members}


def exhaustive(leaves, keys, max_depth, max_len):
    """every value of nesting depth <= max_depth over the leaf alphabet, arrays / objects of at
    most max_len entries (object keys distinct, in every order)"""
    levels = [list(leaves)]
    for _ in range(max_depth - 1):
        prev = [v for lvl in levels for v in lvl]
        cur = []
        # arrays
        tuples = [[]]
        frontier = [[]]
        for _ in range(max_len):
            frontier = [t + [x] for t in frontier for x in prev]
            tuples += frontier
        for t in tuples:
            cur.append({"a": t})
        # objects: ordered selections of distinct keys
        ksel = [[]]
        kfront = [[]]
        for _ in range(max_len):
            kfront = [ks + [k] for ks in kfront for k in keys if k not in ks]
            ksel += kfront
        for ks in ksel:
            combos = [[]]
            for k in ks:
                combos = [c + [[k, x]] for c in combos for x in prev]
            for c in combos:
                cur.append({"o": c})
        # keep only values whose depth is exactly the new level (others were produced before)
        d = len(levels) + 1
        levels.append([v for v in cur if depth(v) == d])
    return [v for lvl in levels for v in lvl]


def directed_hardening():
    """falsy values, type twins, text that looks like JSON / format directives, length boundaries"""
    out = []
    falsy = [{"i": 0}, {"f": (0.0).hex()}, {"f": (-0.0).hex()}, {"s": []}, {"a": []}, {"o": []}, False, None]
    for x in falsy:
        out.append(("falsy", x))
        out.append(("falsy", {"a": [x]}))
        out.append(("falsy", {"o": [[[], x]]}))
    out.append(("falsy", {"a": falsy}))
    out.append(("falsy", {"o": [[cps(f"k{i}"), x] for i, x in enumerate(falsy)]}))
    # type twins, in both orders (an encoder / decoder that memoises must not conflate them)
    twins = [{"i": 7}, {"s": cps("7")}, {"f": (7.0).hex()}, True, {"i": 1}, {"f": (1.0).hex()}, {"s": cps("1")}, {"s": cps("true")},
             {"i": 0}, False, {"f": (0.0).hex()}, {"s": []}, None, {"s": cps("null")}, {"s": cps("0")}]
    for order in (twins, twins[::-1]):
        for x in order:
            out.append(("twin", x))
        out.append(("twin", {"a": order}))
        out.append(("twin", {"o": [[cps(f"k{i}"), x] for i, x in enumerate(order)]}))
        out.append(("twin", {"a": [{"a": [x]} for x in order]}))
    out.append(("twin", {"o": [[cps("1"), {"i": 1}], [cps("true"), True], [cps("1.0"), {"f": (1.0).hex()}], [cps("True"), {"s": cps("1")}]]}))
    # text that looks like JSON syntax, numbers, escapes, format directives
    texts = ["NaN", "Infinity", "-Infinity", "null", "true", "false", "None", "True", "1e400", "-0", "0x10", "1.0", "\\u2028", "\\n",
             "\\", "\"", "'", "\\\"", "%", "%s %d", "%(x)s", "{}", "{0}", "{x}", "\r\n", "\n", "\r", "\u2028\u2029\u0085", "[]", "{}",
             "{\"a\":1}", "[1,2]", ",", ":", " ", "\t", "/", "</script>", "\x00", "\x7f", "\ufeff", "utf-8", "indent", "orjson"]
    for t in texts:
        out.append(("text", S(t)))
        out.append(("text-key", {"o": [[cps(t), S(t)]]}))
    out.append(("text", {"a": [S(t) for t in texts]}))
    out.append(("text-long", of_py("%s {} \\ \" \n" * 12_500)))  # ~100 kB
    # string lengths around the sizes vectorised encoders / decoders work in, with an escape at either end
    for n in (7, 8, 9, 15, 16, 17, 31, 32, 33, 63, 64, 65, 127, 128, 129, 255, 256, 257, 4095, 4096, 4097, 65535, 65536, 65537):
        for edge in (("\"", "\n", "\u2028", "\U0001F600", "\x1f") if n < 4000 else ("\"", "\U0001F600")):
            out.append(("length", of_py("a" * (n - 1) + edge)))
            if n < 4000:
                out.append(("length", of_py(edge + "b" * (n - 1))))
        out.append(("length", of_py({"k" * n: ["é" * n]})))
    return out


SYNTAX_TOKENS = ["NaN", "Infinity", "-Infinity", "null", "true", "false", "1.0", "-0", "1e400", "nan", "inf"]


def syntax_texts(rng, n):
    """strings that LOOK like pieces of an encoded document: renderings of small values in both encoders' styles with
    JSON / near-JSON tokens at every value position, bare and cut at either end, plus event-stream and header
    look-alikes.  Used as string values and as object keys."""
    out = ["[NaN]", "[Infinity]", "[-Infinity]", "values=[1.0, NaN, 3.0]", "mean:NaN,std:Infinity}", "limits,Infinity,", ": NaN,", ":NaN}",
           ", NaN]", "{\"a\": NaN}", "{\"a\":Infinity}", "[1, -Infinity, 2]", "[null]", "[ NaN ]", "x,NaN,y", "a:Infinity]", "NaN,", ",NaN", "[NaN", "NaN]",
           "data: {\"a\": 1}", "event: message", "id: 7", "retry: 10", ": comment", "data:", "\ndata: x\n\n", "Content-Length: 3\r\n\r\n{}",
           "{\"jsonrpc\": \"2.0\", \"id\": 1, \"result\": {}}", "\\u0000", "\\\"", "\",\"", "\":\"", "\"}", "{\"", "*/", "<!--", "${x}", "#{x}"]
    seps = [(", ", ": "), (",", ":"), (" , ", " : ")]
    for _ in range(n):
        item_sep, key_sep = rng.choice(seps)

        def go(d):
            r = rng.random()
            if d <= 0 or r < 0.45:
                return rng.choice(SYNTAX_TOKENS + ["1", "\"s\"", "\"\""])
            if r < 0.75:
                return "[" + item_sep.join(go(d - 1) for _ in range(rng.randrange(0, 4))) + "]"
            return "{" + item_sep.join('"' + rng.choice(["a", "k", "NaN", ""]) + '"' + key_sep + go(d - 1) for _ in range(rng.randrange(0, 3))) + "}"

        t = go(rng.choice([1, 2, 3]))
        cut = rng.random()
        if cut < 0.2:
            t = t[1:]
        elif cut < 0.4:
            t = t[:-1]
        elif cut < 0.5:
            t = rng.choice(["x=", "values="]) + t
        out.append(t)
    return out


def render_foreign(t, rng):
    """one of the many other RFC 8259 texts of a value (transport form, no floats): arbitrary whitespace
    between tokens, any legal escape for any character"""
    ws = lambda: rng.choice(["", "", " ", "\n", "\t", "\r\n", "  \n"])  # noqa: E731

    def string(cs):
        out = ['"']
        for c in cs:
            r = rng.random()
            ch = chr(c)
            short = {0x22: '\\"', 0x5C: "\\\\", 0x2F: "\\/", 8: "\\b", 12: "\\f", 10: "\\n", 13: "\\r", 9: "\\t"}
            if c in short and (r < 0.5 or c in (0x22, 0x5C) or c < 32):
                if r < 0.25 or c == 0x2F and r < 0.4:
                    out.append(short[c])
                    continue
                if c == 0x2F:
                    out.append(ch)
                    continue
            if c < 32 or c in (0x22, 0x5C) or r < 0.3:
                if c >= 0x10000:
                    n = c - 0x10000
                    units = [0xD800 + (n >> 10), 0xDC00 + (n & 0x3FF)]
                else:
                    units = [c]
                for u in units:
                    h = "%04x" % u
                    out.append("\\u" + (h.upper() if rng.random() < 0.5 else h))
            else:
                out.append(ch)
        out.append('"')
        return "".join(out)

    def go(x):
        if x is None:
            return "null"
        if x is True:
            return "true"
        if x is False:
            return "false"
        if "i" in x:
            return "-0" if x["i"] == 0 and rng.random() < 0.3 else str(x["i"])
        if "tok" in x:
            return x["tok"]
        if "s" in x:
            return string(x["s"])
        if "a" in x:
            return "[" + ws() + ("," + ws()).join(go(y) + ws() for y in x["a"]) + "]"
        if "o" in x:
            return "{" + ws() + ("," + ws()).join(string(k) + ws() + ":" + ws() + go(y) + ws() for k, y in x["o"]) + "}"
        raise ValueError(x)

    return ws() + go(t) + ws()


FLOAT_TOKENS = ["1E2", "1e+2", "1.0e-2", "-0.0", "0.0e0", "1.5", "0.1", "1e22", "1E-7", "123456789012345678.0e-5", "2.5E+10", "-1.25e0",
                "4.9e-324", "1.7976931348623157E308", "0.30000000000000004", "100.0", "1e0", "0e0", "-0e-0"]


DEPTHS = [1023, 1024, 1025, 1100, 1400, 2000]


def chain(kind, d, inner, key="k"):
    """`inner` wrapped in d single-member containers (arrays, objects, alternating), in transport form"""
    if kind == "arr":
        levels = [0] * d
    elif kind == "obj":
        levels = [cps(key)] * d
    else:
        levels = [(0 if i % 2 else cps(key)) for i in range(d)]
    return normal({"nest": [levels, inner]})


def directed_limits(max_depth):
    """values at the places where the two backends' own limits differ and the library's fall-back hides it:
    nesting depth around orjson's 1024 (only depths <= max_depth, the deepest nesting the unmodified library
    handles in BOTH configurations on this interpreter, measured at run time), 1 MiB strings and keys,
    100k-member containers"""
    out = []
    for d in DEPTHS:
        if d > max_depth:
            continue
        for kind in ("arr", "obj", "alt"):
            out.append((f"deep{d}", chain(kind, d, {"i": 2 ** 64 - 1})))
            out.append((f"deep{d}", {"o": [[cps("p"), {"a": [{"i": 0}, chain(kind, d - 2, {"s": cps("é")}, key="é\n")]}]]}))
    for d in (255, 256, 700):  # around orjson's encoder limit (the library falls back to the stdlib encoder)
        if d <= max_depth:
            out.append((f"deep{d}", chain("alt", d, None)))
    mib = 1 << 20
    out.append(("long-string", of_py("a" * mib)))
    out.append(("long-string", of_py("a\n\u2028\U0001F600\"\\é\x00" * (mib // 8))))
    out.append(("long-key", of_py({"k" * mib: 1})))
    out.append(("long-key", of_py({"é\U0001F600" * (mib // 2): ["\x7f" * LONG]})))
    out.append(("wide", of_py(list(range(100_000)))))
    out.append(("wide", of_py({f"k{i}": i for i in range(100_000)})))
    out.append(("wide", of_py({"w": [list(range(100_000)), {f"k{i}": i for i in range(LONG)}]})))
    return out


def directed():
    out = []
    for c in SPECIAL_CPS:
        out.append(("char", {"s": [c]}))
        out.append(("key", {"o": [[[c], {"i": 1}]]}))
    out.append(("all-c0", {"s": C0 + [0x7F]}))
    out.append(("all-special", {"a": [{"s": SPECIAL_CPS}, {"o": [[SPECIAL_CPS, None]]}]}))
    for i in INT_EDGES:
        out.append(("int-edge", {"i": i}))
        out.append(("int-edge", {"a": [{"i": i}, {"o": [[cps("n"), {"i": -i if i > 2 ** 63 - 1 else i}]]}]}))
    for i in INT_OUTSIDE:
        out.append(("int-outside", {"i": i}))
        out.append(("int-outside", {"o": [[cps("big\n"), {"a": [{"i": i}, {"s": cps("a\r\n b\U0001F600")}, {"f": (1e-7).hex()}]}]]}))
    for x in FLOAT_EDGES:
        out.append(("float-edge", {"f": x.hex()}))
        out.append(("float-edge", {"a": [{"f": x.hex()}, {"o": [[cps("x"), {"f": (-x).hex()}]]}]}))
    out.append(("empty", {"a": []}))
    out.append(("empty", {"o": []}))
    out.append(("empty", {"a": [{"a": []}, {"o": []}, {"s": []}, {"o": [[[], {"a": [{"o": []}]}]]}]}))
    out.append(("empty", {"s": []}))
    out.append(("empty-key", {"o": [[[], None]]}))
    # deep nesting (well inside orjson's 254-level limit and Python's recursion limit)
    v = {"i": 2 ** 64 - 1}
    for n in range(60):
        v = {"a": [v]} if n % 2 else {"o": [[cps("ké"), v]]}
    out.append(("deep", v))
    out.append(("wide", {"a": [{"i": i} for i in range(300)]}))
    out.append(("wide", {"o": [[cps(f"k{i}"), {"s": cps("v" * (i % 7))}] for i in range(200)]}))
    return out


# ---------------------------------------------------------------------------------------------
# shrinking
# ---------------------------------------------------------------------------------------------
def shrink_value(t):
    """smaller variants of a transport value"""
    if t is None:
        return
    if t is True or t is False:
        yield None
        return
    if "nest" in t:
        levels, inner = t["nest"]
        yield inner
        n = len(levels)
        for m in sorted({n // 2, n - 100, n - 10, n - 1}):
            if 0 < m < n:
                yield of_py(to_py({"nest": [levels[:m], inner]}))  # normal form below NEST_MIN
        if any(lv != 0 for lv in levels):
            yield {"nest": [[0] * n, inner]}
        for y in shrink_value(inner):
            yield normal({"nest": [levels, y]})
        return
    if "arange" in t or "orange" in t:
        k = "arange" if "arange" in t else "orange"
        for m in (t[k] // 2, t[k] - 1):
            if m >= 1:
                yield of_py(to_py({k: m}))
        return
    if "s" in t and isinstance(t["s"], dict):
        unit, n = t["s"]["srep"]
        for m in (n // 2, n - 1):
            if m >= 1:
                yield of_py("".join(map(chr, unit)) * m)
        if len(unit) > 1:
            yield of_py(chr(unit[0]) * (n * len(unit)))
        return
    if "i" in t:
        i = t["i"]
        for c in (0, 1, -1, 2 ** 63 - 1, 2 ** 63, 2 ** 64 - 1, 2 ** 64, -(2 ** 63), -(2 ** 63) - 1, i // 2, i // 10):
            if abs(c) < abs(i):
                yield {"i": c}
        return
    if "f" in t:
        for c in (0.0, 1.0, 1.5):
            if c.hex() != t["f"]:
                yield {"f": c.hex()}
        return
    if "s" in t:
        s = t["s"]
        if s:
            yield {"s": []}
        for i in range(len(s)):
            yield {"s": s[:i] + s[i + 1:]}
        for i, c in enumerate(s):
            if c != 97:
                yield {"s": s[:i] + [97] + s[i + 1:]}
        return
    if "a" in t:
        xs = t["a"]
        for x in xs:
            yield x
        for i in range(len(xs)):
            yield {"a": xs[:i] + xs[i + 1:]}
        for i, x in enumerate(xs):
            for y in shrink_value(x):
                yield {"a": xs[:i] + [y] + xs[i + 1:]}
        return
    if "o" in t:
        ms = t["o"]
        for _, x in ms:
            yield x
        for i in range(len(ms)):
            yield {"o": ms[:i] + ms[i + 1:]}
        keys = {tuple(k) for k, _ in ms}
        for i, (k, x) in enumerate(ms):
            for k2 in ([97], k[:-1], k[1:]):
                if k2 != k and k2 and tuple(k2) not in keys:
                    yield {"o": ms[:i] + [[k2, x]] + ms[i + 1:]}
            for y in shrink_value(x):
                yield {"o": ms[:i] + [[k, y]] + ms[i + 1:]}
        return
