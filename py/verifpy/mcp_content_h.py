"""Harness of C08's second layer: the CONTENT of MCPServer's own handlers.

A scenario is a list of operations on ONE fresh real MCPServer:
  ["tool", name, spec]      register_tool(name, handler, spec.schema, spec.description)
        spec = {"sig": None | [param, …], "out": pyval | {"raises": True}, "schema": json, "description": str}
        sig None: the handler is `async def h(**kwargs)`; a list: `async def h(p1=None, p2=None)`.
        Every handler RECORDS its call (name, kwargs) before returning / raising.
  ["resource", uri, spec]   register_resource(uri, handler, name=…, description=…, mime_type=…)
        spec = {"out": {"text": str} | {"fails": True}, "name": str, "description": str, "mime": str}
  ["msg", message]          JSONRPCMessage.model_validate(message) -> handle_message -> dump, as a stdio loop does

pyval = {"str": s} | {"dict": json, "ok": bool} | {"list": [pyval…]} | {"other": text} | {"unprintable": True}
("other": an object whose str() is that text; "dict" with ok False: a dict json.dumps cannot serialise).
"""
from __future__ import annotations

import asyncio
import copy
import json

from .dispatch_h import _loop


class Other:
    def __init__(self, text):
        self.text = text

    def __str__(self):
        return self.text


class NoText:
    def __str__(self):
        raise ValueError("no text")

    __repr__ = __str__


def build_value(pv):
    if "str" in pv:
        return pv["str"]
    if "other" in pv:
        return Other(pv["other"])
    if "list" in pv:
        return [build_value(x) for x in pv["list"]]
    if "dict" in pv:
        d = copy.deepcopy(pv["dict"])
        if not pv.get("ok", True):
            d["__unserialisable__"] = {1, 2}
        return d
    if "unprintable" in pv:
        return NoText()
    raise ValueError(f"bad python value spec {pv!r}")


def make_tool(name, spec, calls):
    out = spec["out"]

    def body(kwargs):
        calls.append(["tool", name, copy.deepcopy(kwargs)])
        if "raises" in out:
            raise RuntimeError("tool failed")
        return build_value(out)

    sig = spec.get("sig")
    if sig is None:
        async def h(**kwargs):
            return body(kwargs)
        return h
    # a fixed signature: exactly the listed optional keyword parameters
    src = "async def h(%s):\n    return body({%s})\n" % (
        ", ".join(f"{p}=_MISSING" for p in sig), ", ".join(f"{p!r}: {p}" for p in sig))
    ns = {"_MISSING": _MISSING, "body": lambda kw: body({k: v for k, v in kw.items() if v is not _MISSING})}
    exec(src, ns)
    return ns["h"]


_MISSING = object()


def make_resource(uri, spec, calls):
    out = spec["out"]

    async def h():
        calls.append(["resource", uri])
        if "fails" in out:
            raise OSError("resource failed")
        return Other(out["text"])  # read through str()

    return h


def run_scenario(sc):
    from chuk_mcp.server.server import MCPServer
    from chuk_mcp.protocol.messages.json_rpc_message import JSONRPCMessage
    from chuk_mcp.protocol.types.info import ServerInfo
    from chuk_mcp.protocol.types.capabilities import ServerCapabilities

    calls: list = []
    caps_kw = sc.get("caps") or {}
    srv = MCPServer("verif-content", "9.9", capabilities=ServerCapabilities(**caps_kw) if caps_kw else None)
    obs = {"resps": [], "harness_error": None,
           "info": ServerInfo(name="verif-content", version="9.9").model_dump(),
           "caps": (ServerCapabilities(**caps_kw) if caps_kw else ServerCapabilities()).model_dump(exclude_none=True)}
    try:
        for op in sc["ops"]:
            if op[0] == "tool":
                spec = op[2]
                srv.register_tool(op[1], make_tool(op[1], spec, calls), copy.deepcopy(spec.get("schema")), spec.get("description", ""))
            elif op[0] == "resource":
                spec = op[2]
                kw = {}
                if "name" in spec:
                    kw["name"] = spec["name"]
                if "description" in spec:
                    kw["description"] = spec["description"]
                if "mime" in spec:
                    kw["mime_type"] = spec["mime"]
                srv.register_resource(op[1], make_resource(op[1], spec, calls), **kw)
            elif op[0] == "msg":
                m = JSONRPCMessage.model_validate(copy.deepcopy(op[1]))
                ret = _loop().run_until_complete(srv.protocol_handler.handle_message(m, None))
                resp = ret[0] if isinstance(ret, tuple) and len(ret) == 2 else "<not a pair>"
                if resp is None or isinstance(resp, str):
                    obs["resps"].append(resp)
                else:
                    d = json.loads(json.dumps(resp.model_dump(exclude_none=True)))
                    r = {"id": d.get("id")}
                    if "error" in d:
                        r["error"] = d["error"].get("code") if isinstance(d["error"], dict) else d["error"]
                    if "result" in d:
                        r["result"] = d["result"]
                    obs["resps"].append(r)
    except Exception as ex:
        obs["harness_error"] = f"{type(ex).__name__}: {ex}"[:300]
    obs["log"] = calls
    return obs


# ------------------------------------------------------------------------------------------
# model line


def _key(params, member):
    if not isinstance(params, dict) or member not in params or params[member] is None:
        return ["absent"]
    v = params[member]
    if isinstance(v, str):
        return ["str", v]
    if isinstance(v, (list, dict)):
        return ["unhashable"]
    return ["scalar"]


def model_line(sc, obs):
    if obs.get("harness_error"):
        return None
    ops, answers = [], []
    k = 0
    for op in sc["ops"]:
        if op[0] == "tool":
            ops.append(["tool", op[1], op[2]])
        elif op[0] == "resource":
            spec = dict(op[2])
            spec.setdefault("name", "")
            spec.setdefault("description", "")
            spec.setdefault("mime", "text/plain")
            ops.append(["resource", op[1], spec])
        else:
            msg = op[1]
            params = msg.get("params")
            i = msg.get("id")
            mid = None if "id" not in msg else ({"i": i} if isinstance(i, int) else {"s": i})
            if not isinstance(params, dict) or "arguments" not in params:
                args = None
            elif isinstance(params["arguments"], dict):
                args = {"obj": params["arguments"]}
            else:
                args = "notMapping"
            rq = [params["protocolVersion"]] if isinstance(params, dict) and "protocolVersion" in params else []
            r = obs["resps"][k] if k < len(obs["resps"]) else None
            if msg.get("method") == "initialize" and isinstance(r, dict) and isinstance(r.get("result"), dict):
                if not any(json.dumps(a[0], sort_keys=True) == json.dumps(rq, sort_keys=True) for a in answers):
                    answers.append([rq, r["result"].get("protocolVersion")])
            ops.append(["msg", {"id": mid, "method": msg.get("method", ""), "name": _key(params, "name"),
                                "uri": _key(params, "uri"), "args": args, "requested": rq}])
            k += 1
    return {"m": "mcpserver", "info": obs["info"], "caps": obs["caps"], "answers": answers, "ops": ops}


def _dict_specs(pv, out):
    """the dict values of a python-value spec in the order `_format_content` meets them"""
    if "dict" in pv and pv.get("ok", True):
        out.append(pv["dict"])
    elif "list" in pv:
        for x in pv["list"]:
            _dict_specs(x, out)
    return out


def normalise_impl(sc, obs):
    """replace the text of every block that renders a dict by the marker the model uses, after checking that the text
    is that dict (json.loads); anything that does not fit is left as it is and shows up as a difference"""
    tools_now: dict = {}
    resps = copy.deepcopy(obs["resps"])
    k = 0
    for op in sc["ops"]:
        if op[0] == "tool":
            tools_now[op[1]] = op[2]
        elif op[0] == "msg":
            msg = op[1]
            r = resps[k] if k < len(resps) else None
            k += 1
            params = msg.get("params")
            if msg.get("method") != "tools/call" or not isinstance(r, dict) or not isinstance(r.get("result"), dict):
                continue
            spec = tools_now.get(params.get("name")) if isinstance(params, dict) and isinstance(params.get("name"), str) else None
            content = r["result"].get("content")
            if spec is None or "raises" in spec["out"] or not isinstance(content, list):
                continue
            # walk the blocks and the value spec in parallel
            flat = []

            def walk(pv):
                if "list" in pv:
                    for x in pv["list"]:
                        walk(x)
                else:
                    flat.append(pv)

            walk(spec["out"])
            if len(flat) != len(content):
                continue
            for pv, block in zip(flat, content):
                if "dict" in pv and pv.get("ok", True) and isinstance(block, dict) and isinstance(block.get("text"), str):
                    try:
                        if json.loads(block["text"]) == pv["dict"]:
                            block["text"] = "<json>"
                    except Exception:
                        pass
    return {"resps": resps, "log": obs["log"]}


def shape(resps):
    """what the property text looks at: presence, id, result / error code"""
    out = []
    for r in resps:
        if not isinstance(r, dict):
            out.append(r)
        else:
            out.append({"id": r.get("id"), "error": r.get("error"), "result": "result" in r})
    return out
