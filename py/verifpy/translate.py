"""Translator: regenerates lean/Verif/Gen/*.lean from /repo's current source.

Only small pure fragments are translated (constants, tables, two decision functions);
see DESIGN.md 2.2.  Anything outside the supported subset is NOT guessed: the generated
file then carries `translatable := false` (which breaks the property theorem that
requires `translatable = true`) plus a well-typed placeholder so that the driver still
builds, and the reason is recorded in the returned report.
"""
from __future__ import annotations

import ast
import json
from pathlib import Path

from . import core


class Untranslatable(Exception):
    pass


# ----------------------------------------------------------------------------- expressions
def _expr(e, env):
    if isinstance(e, ast.Constant):
        if isinstance(e.value, bool):
            return "true" if e.value else "false"
        if isinstance(e.value, int):
            return f"({e.value} : Int)"
        raise Untranslatable(f"constant {e.value!r}")
    if isinstance(e, ast.UnaryOp) and isinstance(e.op, ast.USub):
        return f"(-{_expr(e.operand, env)})"
    if isinstance(e, ast.UnaryOp) and isinstance(e.op, ast.Not):
        return f"(!{_expr(e.operand, env)})"
    if isinstance(e, ast.Name):
        if e.id in env and not e.id.startswith("__") and isinstance(env[e.id], str):
            return env[e.id]
        raise Untranslatable(f"name {e.id}")
    if isinstance(e, ast.Subscript) and isinstance(e.slice, ast.Constant) and isinstance(e.slice.value, int) \
            and _tuple_of(e.value, env) is not None:
        t = _tuple_of(e.value, env)
        if -len(t) <= e.slice.value < len(t):
            return t[e.slice.value]
        raise Untranslatable("tuple index out of range")
    if isinstance(e, ast.BoolOp):
        op = " && " if isinstance(e.op, ast.And) else " || "
        return "(" + op.join(_expr(v, env) for v in e.values) + ")"
    if isinstance(e, ast.Set):
        return "([" + ", ".join(_expr(x, env) for x in e.elts) + "] : List Int)"
    if isinstance(e, ast.Call) and isinstance(e.func, ast.Name) and e.func.id in env.get("__funcs__", {}) and not e.keywords:
        # call of a small pure module-level helper: inline its body
        fn = env["__funcs__"][e.func.id]
        params = [a.arg for a in fn.args.args]
        if len(params) != len(e.args) or fn.args.vararg or fn.args.kwarg or fn.args.kwonlyargs:
            raise Untranslatable(f"call {e.func.id}: unsupported signature")
        if env.get("__depth__", 0) > 4:
            raise Untranslatable("helper nesting too deep")
        sub = dict(env)
        sub["__depth__"] = env.get("__depth__", 0) + 1
        for prm, arg in zip(params, e.args):
            sub[prm] = _expr(arg, env)
        return _block(fn.body, sub)
    if isinstance(e, ast.Compare) and len(e.ops) == 1 and _tuple_of(e.left, env) is not None \
            and _tuple_of(e.comparators[0], env) is not None \
            and len(_tuple_of(e.left, env)) == len(_tuple_of(e.comparators[0], env)) > 0:
        # lexicographic comparison of equal-length tuples of ints
        ls = _tuple_of(e.left, env)
        rs = _tuple_of(e.comparators[0], env)
        op = type(e.ops[0])

        def lex(i, strict, orequal):
            # strict: "<" or ">" symbol; orequal: value when all components are equal
            if i == len(ls):
                return "true" if orequal else "false"
            return f"((decide ({ls[i]} {strict} {rs[i]})) || (({ls[i]} == {rs[i]}) && {lex(i + 1, strict, orequal)}))"
        if op is ast.Lt:
            return lex(0, "<", False)
        if op is ast.LtE:
            return lex(0, "<", True)
        if op is ast.Gt:
            return lex(0, ">", False)
        if op is ast.GtE:
            return lex(0, ">", True)
        if op is ast.Eq:
            return "(" + " && ".join(f"({a} == {b})" for a, b in zip(ls, rs)) + ")"
        if op is ast.NotEq:
            return "(!(" + " && ".join(f"({a} == {b})" for a, b in zip(ls, rs)) + "))"
        raise Untranslatable("tuple comparison " + op.__name__)
    if isinstance(e, ast.Compare):
        parts = []
        left = e.left
        for op, right in zip(e.ops, e.comparators):
            l, r = _expr(left, env), _expr(right, env)
            if isinstance(op, ast.In):
                parts.append(f"({r}.contains {l})")
            elif isinstance(op, ast.NotIn):
                parts.append(f"(!({r}.contains {l}))")
            else:
                sym = {
                    ast.Gt: ">", ast.GtE: "≥", ast.Lt: "<", ast.LtE: "≤",
                    ast.Eq: "==", ast.NotEq: "!=",
                }.get(type(op))
                if sym is None:
                    raise Untranslatable(type(op).__name__)
                if sym in ("==", "!="):
                    parts.append(f"({l} {sym} {r})")
                else:
                    parts.append(f"(decide ({l} {sym} {r}))")
            left = right
        return "(" + " && ".join(parts) + ")"
    if isinstance(e, ast.IfExp):
        return f"(if {_expr(e.test, env)} then {_expr(e.body, env)} else {_expr(e.orelse, env)})"
    raise Untranslatable(ast.dump(e)[:100])


def _str_expr(e, env):
    """String-valued expressions: constants, f-strings over int names / nested string expressions,
    `D.get(k, default)` for a generated table, `x.get('message', default)` on the error object."""
    if isinstance(e, ast.Constant) and isinstance(e.value, str):
        return _lean_str(e.value)
    if isinstance(e, ast.JoinedStr):
        parts = []
        for v in e.values:
            if isinstance(v, ast.Constant) and isinstance(v.value, str):
                parts.append(_lean_str(v.value))
            elif isinstance(v, ast.FormattedValue) and v.format_spec is None and v.conversion == -1:
                if isinstance(v.value, ast.Name) and env.get("__ints__", {}).get(v.value.id):
                    parts.append(f"(toString {env['__ints__'][v.value.id]})")
                else:
                    parts.append(_str_expr(v.value, env))
            else:
                raise Untranslatable("f-string piece")
        return "(" + " ++ ".join(parts or ['""']) + ")"
    if isinstance(e, ast.Call) and isinstance(e.func, ast.Attribute) and e.func.attr == "get" and len(e.args) == 2 and not e.keywords:
        tgt = e.func.value
        if isinstance(tgt, ast.Name) and tgt.id in env.get("__tables__", {}):
            key = e.args[0]
            if not (isinstance(key, ast.Name) and env.get("__ints__", {}).get(key.id)):
                raise Untranslatable("table key")
            return f"(({env['__tables__'][tgt.id]}.lookup {env['__ints__'][key.id]}).getD {_str_expr(e.args[1], env)})"
        if isinstance(tgt, ast.Name) and tgt.id in env.get("__optstr__", {}) and isinstance(e.args[0], ast.Constant) \
                and e.args[0].value == env["__optstr__"][tgt.id][0]:
            return f"({env['__optstr__'][tgt.id][1]}.getD {_str_expr(e.args[1], env)})"
        raise Untranslatable("get() on an unknown object")
    if isinstance(e, ast.Call) and isinstance(e.func, ast.Name) and e.func.id in env.get("__strfuncs__", {}) \
            and len(e.args) == 1 and not e.keywords and isinstance(e.args[0], ast.Name) and env.get("__ints__", {}).get(e.args[0].id):
        return f"({env['__strfuncs__'][e.func.id]} {env['__ints__'][e.args[0].id]})"
    raise Untranslatable("string expression " + ast.dump(e)[:80])


def _str_block(stmts, env):
    """a function body that is (docstring +) `return <string expr>`"""
    stmts = [x for x in stmts if not _is_effect_free(x)]
    if len(stmts) == 1 and isinstance(stmts[0], ast.Return) and stmts[0].value is not None:
        return _str_expr(stmts[0].value, env)
    raise Untranslatable("string function body")


def _tuple_of(e, env):
    """components (Lean terms) of a tuple-valued expression, or None"""
    if isinstance(e, ast.Tuple):
        return [_expr(x, env) for x in e.elts]
    if isinstance(e, ast.Name) and isinstance(env.get(e.id), list):
        return list(env[e.id])
    return None


def _is_effect_free(stmt):
    """logging calls, docstrings and `pass`"""
    if isinstance(stmt, ast.Pass):
        return True
    if isinstance(stmt, ast.Expr) and isinstance(stmt.value, ast.Constant):
        return True
    if (
        isinstance(stmt, ast.Expr)
        and isinstance(stmt.value, ast.Call)
        and isinstance(stmt.value.func, ast.Attribute)
        and isinstance(stmt.value.func.value, ast.Name)
        and stmt.value.func.value.id in ("logger", "logging")
    ):
        return True
    return False


def _all_effect_free(node):
    """an `if` whose every branch only logs"""
    if isinstance(node, ast.If):
        return all(_all_effect_free(x) for x in node.body) and all(_all_effect_free(x) for x in node.orelse)
    return _is_effect_free(node)


def _block(stmts, env):
    """if/elif/else chain whose leaves are `return <bool expr>` -> Lean if-then-else."""
    stmts = [s for s in stmts if not _is_effect_free(s)]
    if not stmts:
        raise Untranslatable("fallthrough without return")
    s, rest = stmts[0], stmts[1:]
    if isinstance(s, ast.Return):
        if s.value is None:
            raise Untranslatable("bare return")
        return _expr(s.value, env)
    if isinstance(s, (ast.Assign, ast.AnnAssign)) and rest:
        # local binding of a pure expression: substitute
        tgt = s.targets[0] if isinstance(s, ast.Assign) and len(s.targets) == 1 else getattr(s, "target", None)
        if isinstance(tgt, ast.Name) and s.value is not None:
            sub = dict(env)
            tv = _tuple_of(s.value, env)
            sub[tgt.id] = tv if tv is not None else _expr(s.value, env)
            return _block(rest, sub)
        if isinstance(tgt, ast.Tuple) and s.value is not None and _tuple_of(s.value, env) is not None \
                and len(_tuple_of(s.value, env)) == len(tgt.elts) and all(isinstance(t, ast.Name) for t in tgt.elts):
            sub = dict(env)
            for t, v in zip(tgt.elts, _tuple_of(s.value, env)):
                sub[t.id] = v
            return _block(rest, sub)
        raise Untranslatable("assignment form")
    if isinstance(s, ast.If) and rest and _all_effect_free(s):
        return _block(rest, env)
    if isinstance(s, ast.If):
        then = _block(s.body, env)
        if not (s.orelse or rest):
            raise Untranslatable("if without else / fallthrough")
        els = _block(list(s.orelse) + rest, env)
        return f"(if {_expr(s.test, env)} then {then} else {els})"
    raise Untranslatable(type(s).__name__)


def _find_func(tree, name):
    for n in ast.walk(tree):
        if isinstance(n, (ast.FunctionDef, ast.AsyncFunctionDef)) and n.name == name:
            return n
    raise Untranslatable(f"function {name} not found")


def _lean_str(s: str) -> str:
    return json.dumps(s, ensure_ascii=False)


def _int_list(xs):
    return "[" + ", ".join(str(x) for x in xs) + "]"


# ----------------------------------------------------------------------------- errors.py
def gen_errors(src: Path):
    report = {"file": "Gen/Errors.lean", "untranslatable": []}
    tree = ast.parse((src / "protocol/types/errors.py").read_text())
    consts, sets, named = {}, {}, []
    for n in tree.body:
        if isinstance(n, ast.Assign) and len(n.targets) == 1 and isinstance(n.targets[0], ast.Name):
            nm = n.targets[0].id
            try:
                v = ast.literal_eval(n.value)
            except Exception:
                v = None
            def set_elts(node):
                """elements of a set-valued expression: {..}, frozenset({..}), set([..]), A | B"""
                if isinstance(node, ast.Set):
                    return [consts[e.id] if isinstance(e, ast.Name) else int(ast.literal_eval(e)) for e in node.elts]
                if isinstance(node, ast.Call) and isinstance(node.func, ast.Name) and node.func.id in ("frozenset", "set") \
                        and len(node.args) == 1 and isinstance(node.args[0], (ast.Set, ast.List, ast.Tuple)):
                    return [consts[e.id] if isinstance(e, ast.Name) else int(ast.literal_eval(e)) for e in node.args[0].elts]
                if isinstance(node, ast.BinOp) and isinstance(node.op, ast.BitOr):
                    return set_elts(node.left) + set_elts(node.right)
                if isinstance(node, ast.Name) and node.id in sets:
                    return list(sets[node.id])
                return None
            if isinstance(v, int) and not isinstance(v, bool):
                consts[nm] = v
            elif nm.endswith("_ERRORS") or isinstance(n.value, ast.Set):
                try:
                    got = set_elts(n.value)
                    if got is not None:
                        sets[nm] = got
                    elif nm in ("NON_RETRYABLE_ERRORS", "RETRYABLE_ERRORS"):
                        raise ValueError("not a set expression the translator understands")
                except Exception as ex:  # noqa
                    report["untranslatable"].append(f"errors.py:{n.lineno}: set {nm}: {ex}")
            elif isinstance(n.value, ast.Dict) and nm == "ERROR_MESSAGES":
                try:
                    named = [
                        consts[k.id] if isinstance(k, ast.Name) else int(ast.literal_eval(k))
                        for k in n.value.keys
                    ]
                except Exception as ex:  # noqa
                    report["untranslatable"].append(f"errors.py:{n.lineno}: ERROR_MESSAGES: {ex}")
    non = sets.get("NON_RETRYABLE_ERRORS")
    ret = sets.get("RETRYABLE_ERRORS")
    if non is None:
        report["untranslatable"].append("errors.py: NON_RETRYABLE_ERRORS is not a set literal")
        non = []
    if ret is None:
        report["untranslatable"].append("errors.py: RETRYABLE_ERRORS is not a set literal")
        ret = []
    env = {"NON_RETRYABLE_ERRORS": "nonRetryable", "RETRYABLE_ERRORS": "retryable"}
    for k, v in sets.items():
        env.setdefault(k, "([" + ", ".join(str(x) for x in v) + "] : List Int)")
    for k, v in consts.items():
        env.setdefault(k, f"({v} : Int)")
    env["__funcs__"] = {n.name: n for n in tree.body if isinstance(n, ast.FunctionDef)}
    try:
        f = _find_func(tree, "is_retryable_error")
        if len(f.args.args) != 1:
            raise Untranslatable("is_retryable_error signature")
        env[f.args.args[0].arg] = "code"
        body = _block(f.body, env)
    except Untranslatable as ex:
        report["untranslatable"].append(f"errors.py: is_retryable_error: {ex}")
        body = "true"
    # ---- auxiliary (supplementary) parts: message table, get_error_message, the three range / set
    # helpers, and the exception text assembled in send_message._process_response.  They have their
    # own flag: failing to translate them never touches `translatable`.
    aux_bad = []
    table = []
    for n in tree.body:
        if isinstance(n, ast.Assign) and len(n.targets) == 1 and isinstance(n.targets[0], ast.Name) \
                and n.targets[0].id == "ERROR_MESSAGES" and isinstance(n.value, ast.Dict):
            try:
                for k, v in zip(n.value.keys, n.value.values):
                    kk = consts[k.id] if isinstance(k, ast.Name) else int(ast.literal_eval(k))
                    if not (isinstance(v, ast.Constant) and isinstance(v.value, str)):
                        raise Untranslatable("non-literal message")
                    table.append((kk, v.value))
            except Exception as ex:  # noqa
                aux_bad.append(f"ERROR_MESSAGES: {ex}")
                table = []
    aux = {}
    for fname, lname in (("is_server_error", "isServerError"), ("is_standard_jsonrpc_error", "isStandardJsonrpcError"),
                         ("is_mcp_specific_error", "isMcpSpecificError")):
        try:
            f = _find_func(tree, fname)
            if len(f.args.args) != 1:
                raise Untranslatable("signature")
            e2 = dict(env)
            e2[f.args.args[0].arg] = "code"
            aux[lname] = _block(f.body, e2)
        except Untranslatable as ex:
            aux_bad.append(f"{fname}: {ex}")
            aux[lname] = "false"
    try:
        f = _find_func(tree, "get_error_message")
        if len(f.args.args) != 1:
            raise Untranslatable("signature")
        a = f.args.args[0].arg
        gem = _str_block(f.body, {"__ints__": {a: "code"}, "__tables__": {"ERROR_MESSAGES": "messages"}})
    except Untranslatable as ex:
        aux_bad.append(f"get_error_message: {ex}")
        gem = '""'
    # _process_response: msg = f"JSON-RPC Error: {error.get('message', get_error_message(code))} (code: {code})"
    try:
        st = ast.parse((src / "protocol/messages/send_message.py").read_text())
        pr = _find_func(st, "_process_response")
        text_expr = None
        for n in ast.walk(pr):
            if isinstance(n, ast.Assign) and len(n.targets) == 1 and isinstance(n.targets[0], ast.Name) \
                    and n.targets[0].id == "msg" and isinstance(n.value, ast.JoinedStr):
                text_expr = n.value
        if text_expr is None:
            raise Untranslatable("no `msg = f\"...\"` in _process_response")
        err_text = _str_expr(text_expr, {"__ints__": {"code": "code"}, "__optstr__": {"error": ("message", "msg")},
                                          "__strfuncs__": {"get_error_message": "getErrorMessage"}})
        # code = error.get("code", <default>)
        default_code = None
        for n in ast.walk(pr):
            if isinstance(n, ast.Assign) and len(n.targets) == 1 and isinstance(n.targets[0], ast.Name) and n.targets[0].id == "code" \
                    and isinstance(n.value, ast.Call) and isinstance(n.value.func, ast.Attribute) and n.value.func.attr == "get" \
                    and len(n.value.args) == 2 and isinstance(n.value.args[0], ast.Constant) and n.value.args[0].value == "code":
                d = n.value.args[1]
                if isinstance(d, ast.Name) and d.id in consts:
                    default_code = consts[d.id]
                else:
                    default_code = int(ast.literal_eval(d))
        if default_code is None:
            raise Untranslatable("no `code = error.get(\"code\", <default>)` in _process_response")
    except (Untranslatable, OSError, ValueError) as ex:
        aux_bad.append(f"_process_response text: {ex}")
        err_text = '""'
        default_code = 0
    report["aux_untranslatable"] = aux_bad
    aux_ok = "true" if not aux_bad else "false"
    table_lean = "[" + ", ".join(f"({k}, {_lean_str(v)})" for k, v in table) + "]"
    ok = "true" if not report["untranslatable"] else "false"
    # stable de-dup preserving order (python sets have no duplicates)
    def dedup(xs):
        out = []
        for x in xs:
            if x not in out:
                out.append(x)
        return out
    lean = f"""-- GENERATED by verifpy/translate.py from src/chuk_mcp/protocol/types/errors.py. Do not edit.
namespace Verif.Gen.Errors

/-- `false` when some fragment fell outside the translator's subset -/
def translatable : Bool := {ok}

/-- NON_RETRYABLE_ERRORS -/
def nonRetryable : List Int := {_int_list(dedup(non))}

/-- RETRYABLE_ERRORS -/
def retryable : List Int := {_int_list(dedup(ret))}

/-- keys of ERROR_MESSAGES (the named codes) -/
def named : List Int := {_int_list(dedup(named))}

/-- body of `is_retryable_error`, translated from its AST -/
def isRetryableError (code : Int) : Bool := {body}

/-! Auxiliary (supplementary) part: not named by C07's text; own flag. -/

/-- `false` when some auxiliary fragment fell outside the translator's subset -/
def auxTranslatable : Bool := {aux_ok}

/-- ERROR_MESSAGES -/
def messages : List (Int × String) := {table_lean}

/-- body of `get_error_message` -/
def getErrorMessage (code : Int) : String := {gem}

/-- body of `is_server_error` -/
def isServerError (code : Int) : Bool := {aux["isServerError"]}

/-- body of `is_standard_jsonrpc_error` -/
def isStandardJsonrpcError (code : Int) : Bool := {aux["isStandardJsonrpcError"]}

/-- body of `is_mcp_specific_error` -/
def isMcpSpecificError (code : Int) : Bool := {aux["isMcpSpecificError"]}

/-- the code `_process_response` assumes for an error object that carries none -/
def defaultErrorCode : Int := {default_code}

/-- text of the exception `send_message._process_response` raises for an error object with the
given optional `message` and (defaulted) `code` -/
def errText (msg : Option String) (code : Int) : String := {err_text}

end Verif.Gen.Errors
"""
    report["constants"] = consts
    return lean, report


# ----------------------------------------------------------------------------- versions
def gen_versions(src: Path):
    report = {"file": "Gen/Versions.lean", "untranslatable": []}
    vt = ast.parse((src / "protocol/types/versioning.py").read_text())
    supported = None
    for n in vt.body:
        if isinstance(n, ast.Assign) and getattr(n.targets[0], "id", None) == "SUPPORTED_VERSIONS":
            try:
                supported = list(ast.literal_eval(n.value))
                if not all(isinstance(x, str) for x in supported):
                    raise ValueError("non-string member")
            except Exception as ex:  # noqa
                report["untranslatable"].append(f"versioning.py:{n.lineno}: SUPPORTED_VERSIONS: {ex}")
    if supported is None:
        report["untranslatable"].append("versioning.py: SUPPORTED_VERSIONS literal not found")
        supported = []

    # supports_batching: if-chain over (year, month, day) inside the try block
    chain = "true"
    try:
        bt = ast.parse((src / "protocol/features/batching.py").read_text())
        f = _find_func(bt, "supports_batching")
        tr = next((s for s in f.body if isinstance(s, ast.Try)), None)
        if tr is None:
            raise Untranslatable("no try block")
        body = tr.body
        names, last = [], None

        def is_int_of_part(v, k):
            return (isinstance(v, ast.Call) and getattr(v.func, "id", None) == "int" and len(v.args) == 1
                    and isinstance(v.args[0], ast.Subscript) and isinstance(v.args[0].slice, ast.Constant)
                    and v.args[0].slice.value == k)

        tuple_name = None
        for i, st in enumerate(body):
            if not isinstance(st, ast.Assign) or len(st.targets) != 1:
                continue
            tgt, val = st.targets[0], st.value
            # released = (int(parts[0]), int(parts[1]), int(parts[2]))
            if isinstance(tgt, ast.Name) and isinstance(val, ast.Tuple) and len(val.elts) == 3 and not names \
                    and all(is_int_of_part(v, k) for k, v in enumerate(val.elts)):
                tuple_name = tgt.id
                names = ["__y", "__m", "__d"]
                last = i
                break
            # released = tuple(int(p) for p in parts)  /  tuple([int(p) for p in parts])  /  tuple(map(int, parts))
            if isinstance(tgt, ast.Name) and not names and isinstance(val, ast.Call) and getattr(val.func, "id", None) == "tuple" \
                    and len(val.args) == 1 and not val.keywords and (
                        (isinstance(val.args[0], (ast.ListComp, ast.GeneratorExp)) and isinstance(val.args[0].elt, ast.Call)
                         and getattr(val.args[0].elt.func, "id", None) == "int" and len(val.args[0].elt.args) == 1
                         and len(val.args[0].generators) == 1 and not val.args[0].generators[0].ifs)
                        or (isinstance(val.args[0], ast.Call) and getattr(val.args[0].func, "id", None) == "map"
                            and len(val.args[0].args) == 2 and getattr(val.args[0].args[0], "id", None) == "int")):
                tuple_name = tgt.id
                names = ["__y", "__m", "__d"]
                last = i
                break
            # year = int(parts[0]) ... in order
            if isinstance(tgt, ast.Name) and is_int_of_part(val, len(names)):
                names.append(tgt.id)
                last = i
            # year, month, day = int(parts[0]), int(parts[1]), int(parts[2])
            elif isinstance(tgt, ast.Tuple) and len(tgt.elts) == 3 and not names and isinstance(val, ast.Tuple) \
                    and len(val.elts) == 3 and all(is_int_of_part(v, k) for k, v in enumerate(val.elts)):
                names = [t.id for t in tgt.elts]
                last = i
            # year, month, day = map(int, parts)  /  [int(p) for p in parts]  /  (int(p) for p in parts)
            elif isinstance(tgt, ast.Tuple) and len(tgt.elts) == 3 and not names and (
                (isinstance(val, ast.Call) and getattr(val.func, "id", None) == "map" and len(val.args) == 2
                 and getattr(val.args[0], "id", None) == "int")
                or (isinstance(val, (ast.ListComp, ast.GeneratorExp)) and isinstance(val.elt, ast.Call)
                    and getattr(val.elt.func, "id", None) == "int" and len(val.generators) == 1
                    and not val.generators[0].ifs)
            ):
                names = [t.id for t in tgt.elts]
                last = i
            if len(names) == 3:
                break
        if len(names) != 3:
            raise Untranslatable("expected the three int() conversions of the version parts")
        env = dict(zip(names, ["year", "month", "day"]))
        if tuple_name is not None:
            env = {tuple_name: ["year", "month", "day"]}
        env["__funcs__"] = {n.name: n for n in bt.body if isinstance(n, ast.FunctionDef)}
        # module-level integer and integer-tuple constants
        for n in bt.body:
            if isinstance(n, ast.Assign) and len(n.targets) == 1 and isinstance(n.targets[0], ast.Name):
                try:
                    v = ast.literal_eval(n.value)
                except Exception:
                    continue
                if isinstance(v, int) and not isinstance(v, bool):
                    env.setdefault(n.targets[0].id, f"({v} : Int)")
                elif isinstance(v, tuple) and v and all(isinstance(x, int) and not isinstance(x, bool) for x in v):
                    env.setdefault(n.targets[0].id, [f"({x} : Int)" for x in v])
        after_try = f.body[f.body.index(tr) + 1:]
        chain = _block(list(body[last + 1:]) + list(after_try), env)
    except Untranslatable as ex:
        report["untranslatable"].append(f"batching.py: supports_batching: {ex}")

    # default-version literal of the server's initialize handler
    default = None

    def module_constants(path, depth=0):
        """module-level NAME = <literal> bindings, following `from .x import NAME` one level"""
        out = {}
        try:
            tree = ast.parse(path.read_text())
        except Exception:
            return out
        for n in tree.body:
            if isinstance(n, ast.Assign) and len(n.targets) == 1 and isinstance(n.targets[0], ast.Name):
                try:
                    out[n.targets[0].id] = ast.literal_eval(n.value)
                except Exception:
                    if isinstance(n.value, ast.Name) and n.value.id in out:
                        out[n.targets[0].id] = out[n.value.id]
                    elif (isinstance(n.value, ast.Subscript) and isinstance(n.value.value, ast.Name)
                          and n.value.value.id in out and isinstance(n.value.slice, ast.Constant)):
                        try:
                            out[n.targets[0].id] = out[n.value.value.id][n.value.slice.value]
                        except Exception:
                            pass
            elif isinstance(n, ast.ImportFrom) and depth < 2 and n.module:
                base = path.parent
                for _ in range(max(n.level - 1, 0)):
                    base = base.parent
                if n.level == 0:
                    if not n.module.startswith("chuk_mcp"):
                        continue
                    base = src
                    parts = n.module.split(".")[1:]
                else:
                    parts = n.module.split(".")
                cand = base.joinpath(*parts).with_suffix(".py")
                if not cand.exists():
                    cand = base.joinpath(*parts, "__init__.py")
                if cand.exists():
                    sub = module_constants(cand, depth + 1)
                    for a in n.names:
                        if a.name in sub:
                            out[a.asname or a.name] = sub[a.name]
        return out

    try:
        php = src / "server/protocol_handler.py"
        ph = ast.parse(php.read_text())
        for n in ast.walk(ph):
            if (
                isinstance(n, ast.Call) and isinstance(n.func, ast.Attribute) and n.func.attr == "get"
                and n.args and isinstance(n.args[0], ast.Constant) and n.args[0].value == "protocolVersion"
                and len(n.args) > 1
            ):
                arg = n.args[1]
                try:
                    default = ast.literal_eval(arg)
                except Exception:
                    consts = module_constants(php)
                    if isinstance(arg, ast.Name) and arg.id in consts:
                        default = consts[arg.id]
                    else:
                        report["untranslatable"].append(
                            f"protocol_handler.py:{n.lineno}: default of params.get('protocolVersion', …) is not a literal or a module constant")
    except Exception as ex:  # noqa
        report["untranslatable"].append(f"protocol_handler.py: {ex}")
    if not isinstance(default, str):
        # a non-string default (e.g. None) behaves like an absent version
        default = None
    ok = "true" if not report["untranslatable"] else "false"
    lean = f"""-- GENERATED by verifpy/translate.py from versioning.py, batching.py, protocol_handler.py. Do not edit.
namespace Verif.Gen.Versions

def translatable : Bool := {ok}

/-- SUPPORTED_VERSIONS, in source order (newest first) -/
def supported : List String := [{", ".join(_lean_str(s) for s in supported)}]

/-- literal default of `params.get("protocolVersion", …)` in the server's initialize handler -/
def handlerDefault : Option String := {("some " + _lean_str(default)) if default is not None else "none"}

/-- the if/elif chain of `supports_batching` after the three `int()` conversions -/
def supportsBatchingGen (year month day : Int) : Bool := {chain}

end Verif.Gen.Versions
"""
    report["supported"] = supported
    report["handler_default"] = default
    return lean, report


# ----------------------------------------------------------------------------- timing
def gen_timing(src: Path):
    report = {"file": "Gen/Timing.lean", "untranslatable": []}
    sub_ms = None
    default_timeout_ms = None
    try:
        sm = ast.parse((src / "protocol/messages/send_message.py").read_text())
        mconsts = {}
        for n in sm.body:  # module-level numeric constants (a default may name one)
            if isinstance(n, (ast.Assign, ast.AnnAssign)):
                tgt = n.targets[0] if isinstance(n, ast.Assign) and len(n.targets) == 1 else getattr(n, "target", None)
                if isinstance(tgt, ast.Name) and n.value is not None:
                    try:
                        v = ast.literal_eval(n.value)
                        if isinstance(v, (int, float)) and not isinstance(v, bool):
                            mconsts[tgt.id] = v
                    except Exception:
                        pass

        def num(d):
            if isinstance(d, ast.Name) and d.id in mconsts:
                return float(mconsts[d.id])
            return float(ast.literal_eval(d))
        f = _find_func(sm, "_await_response")
        args = f.args.args
        for a, d in zip(args[len(args) - len(f.args.defaults):], f.args.defaults):
            if a.arg == "sub_timeout":
                sub_ms = int(round(num(d) * 1000))
        for a, d in zip(f.args.kwonlyargs, f.args.kw_defaults):
            if a.arg == "sub_timeout" and d is not None:
                sub_ms = int(round(num(d) * 1000))
        g = _find_func(sm, "send_message")
        for a, d in zip(g.args.kwonlyargs, g.args.kw_defaults):
            if a.arg == "timeout" and d is not None:
                default_timeout_ms = int(round(num(d) * 1000))
        gargs = g.args.args
        for a, d in zip(gargs[len(gargs) - len(g.args.defaults):], g.args.defaults):
            if a.arg == "timeout":
                default_timeout_ms = int(round(num(d) * 1000))
    except Exception as ex:  # noqa
        report["untranslatable"].append(f"send_message.py: {ex}")
    if sub_ms is None or sub_ms <= 0:
        report["untranslatable"].append("send_message.py: sub_timeout default not a positive literal")
        sub_ms = 500
    if default_timeout_ms is None:
        report["untranslatable"].append("send_message.py: timeout default not a literal")
        default_timeout_ms = 60000

    graces = []
    grace_problems = []
    try:
        scp = src / "transports/stdio/stdio_client.py"
        sc = ast.parse(scp.read_text())
        consts = {}
        for n in sc.body:
            if isinstance(n, ast.Assign) and len(n.targets) == 1 and isinstance(n.targets[0], ast.Name):
                try:
                    consts[n.targets[0].id] = ast.literal_eval(n.value)
                except Exception:
                    pass
        funcs = {}
        for n in ast.walk(sc):
            if isinstance(n, (ast.FunctionDef, ast.AsyncFunctionDef)):
                funcs.setdefault(n.name, n)

        def value_of(node, binding):
            try:
                return float(ast.literal_eval(node))
            except Exception:
                pass
            if isinstance(node, ast.Name):
                if node.id in binding:
                    return binding[node.id]
                if isinstance(consts.get(node.id), (int, float)):
                    return float(consts[node.id])
            if isinstance(node, ast.Attribute) and isinstance(consts.get(node.attr), (int, float)):
                return float(consts[node.attr])
            return None

        def scan(fn, binding, depth=0):
            """timeouts of fail_after / move_on_after / wait_for reached from `fn`, in source order"""
            out = []
            for n in ast.walk(fn):
                if not isinstance(n, ast.Call):
                    continue
                name = getattr(n.func, "attr", None) or getattr(n.func, "id", None)
                if name in ("fail_after", "move_on_after") and n.args:
                    out.append((n.lineno, n.col_offset, value_of(n.args[0], binding)))
                elif name in funcs and name != fn.name and depth < 3:
                    callee = funcs[name]
                    params = [a.arg for a in callee.args.args if a.arg != "self"]
                    b2 = {}
                    for prm, arg in zip(params, n.args):
                        v = value_of(arg, binding)
                        if v is not None:
                            b2[prm] = v
                    for kw in n.keywords:
                        v = value_of(kw.value, binding)
                        if kw.arg and v is not None:
                            b2[kw.arg] = v
                    for (_, _, v) in scan(callee, b2, depth + 1):
                        out.append((n.lineno, n.col_offset, v))
            out.sort(key=lambda x: (x[0], x[1]))
            return out

        f = _find_func(sc, "_terminate_process")
        vals = [v for (_, _, v) in scan(f, {})]
        if any(v is None for v in vals):
            grace_problems.append("stdio_client.py: a grace period of _terminate_process is not a literal or module constant")
        graces = [int(round(v * 1000)) for v in vals if v is not None]
    except Exception as ex:  # noqa
        grace_problems.append(f"stdio_client.py: _terminate_process: {ex}")
    if len(graces) != 2:
        grace_problems.append(f"stdio_client.py: expected two grace periods in _terminate_process, got {graces}")
        graces = (graces + [1000, 1000])[:2]
    report["untranslatable"] += ["grace: " + g for g in grace_problems]
    grace_ok = "true" if not grace_problems else "false"
    report["untranslatable_core"] = [u for u in report["untranslatable"] if not u.startswith("grace: ")]
    ok = "true" if not report["untranslatable_core"] else "false"
    lean = f"""-- GENERATED by verifpy/translate.py from send_message.py, stdio_client.py. Do not edit.
namespace Verif.Gen.Timing

/-- poll period and default timeout were found -/
def translatable : Bool := {ok}

/-- the two grace periods of `_terminate_process` were found -/
def graceTranslatable : Bool := {grace_ok}

/-- default `sub_timeout` of `_await_response`, milliseconds -/
def pollMs : Nat := {sub_ms}

/-- default `timeout` of `send_message`, milliseconds -/
def defaultTimeoutMs : Nat := {default_timeout_ms}

/-- the two grace periods of `_terminate_process` (terminate, kill), milliseconds -/
def graceTermMs : Nat := {graces[0]}
def graceKillMs : Nat := {graces[1]}

end Verif.Gen.Timing
"""
    report["poll_ms"] = sub_ms
    report["graces_ms"] = graces
    return lean, report


GENERATORS = {
    "Errors": gen_errors,
    "Versions": gen_versions,
    "Timing": gen_timing,
}


def register(name):
    def deco(fn):
        GENERATORS[name] = fn
        return fn
    return deco


def translate(names=None):
    """Regenerate the requested Gen files (all by default).  Returns {name: report}.
    Files are only rewritten when their content changes so that `lake build` stays a no-op."""
    # late imports: optional generators living in their own modules register themselves
    import importlib
    for f in sorted(Path(__file__).parent.glob("translate_*.py")):
        importlib.import_module(f"verifpy.{f.stem}")
    src = core.REPO / "src" / "chuk_mcp"
    out = {}
    gen_dir = core.LEAN / "Verif" / "Gen"
    gen_dir.mkdir(parents=True, exist_ok=True)
    for name in names or list(GENERATORS):
        fn = GENERATORS[name]
        try:
            lean, report = fn(src)
        except Exception as ex:  # translator crash: never guess
            report = {"file": f"Gen/{name}.lean", "untranslatable": [f"translator error: {ex!r}"]}
            lean = None
        path = gen_dir / f"{name}.lean"
        if lean is not None:
            old = path.read_text() if path.exists() else None
            if old != lean:
                path.write_text(lean)
                report["rewritten"] = True
        out[name] = report
    return out
