"""Generators of timed histories for the send_message model (C01, C07, C14)."""
from __future__ import annotations

import itertools

P = 512  # ticks per poll period (0.5 s at 1024 ticks/s)

PAYLOADS = [{"v": 1}, {"tools": []}, {"a": {"b": None, "c": [1, None, "x y"]}}, {"n": 18446744073709551615},
            [1, 2], "text", 7, True, {"": {}},
            # long strings inside lists / objects (what a tools/call result looks like)
            {"content": [{"type": "text", "text": "long-" + "y" * 600}, {"type": "text", "text": "z" * 257}], "isError": False},
            ["w" * 300, {"k": ["v" * 1000]}]]


def sym_event(sym, rng=None, k=0):
    """One event of the alphabet.  `k` varies payloads so that 'first' is distinguishable."""
    if sym == "R":
        return {"k": "resp", "id": "$ID", "p": {"v": k}}
    if sym == "R0":  # falsy results ({} is what ping / subscribe / setLevel answer)
        return {"k": "resp", "id": "$ID", "p": [{}, [], 0, False, ""][k % 5]}
    if sym == "Rj":  # result that is not an object
        return {"k": "resp", "id": "$ID", "p": PAYLOADS[k % len(PAYLOADS)]}
    if sym == "E":
        return {"k": "err", "id": "$ID", "code": [-32601, -32603, -32000, -32004, 17, 0][k % 6], "msg": f"boom{k}"}
    if sym == "Ed":
        # `data` of every shape, including one that looks like an error object itself (a relayed error)
        # and one that looks like a whole JSON-RPC message: the code and message raised are the OUTER ones
        datas = PAYLOADS + [{"code": -32601, "message": "Method not found"}, {"code": 5, "message": "inner", "data": {"code": 6}},
                            {"jsonrpc": "2.0", "id": 1, "result": {"ok": True}}, {"error": {"code": -32000, "message": "nested"}}]
        return {"k": "err", "id": "$ID", "code": [-32602, -32603, -32603, -32000, 17][k % 5], "msg": "with data", "data": datas[k % len(datas)]}
    if sym == "En":  # error object without message (stream-object level)
        return {"k": "err", "id": "$ID", "code": -32005}
    if sym == "Ec":  # error object without code
        return {"k": "err", "id": "$ID", "msg": "no code"}
    if sym == "E0":  # falsy members: empty error object, code 0, empty message
        return [{"k": "err", "id": "$ID"}, {"k": "err", "id": "$ID", "code": 0, "msg": ""},
                {"k": "err", "id": "$ID", "code": 0}][k % 3]
    if sym == "Ez":  # an error the server could not attribute to a request: id null (parse error, invalid request, ...)
        return {"k": "err", "id": None, "code": [-32700, -32600, -32603, -32000][k % 4], "msg": ["Parse error", "Invalid Request", "boom", ""][k % 4]}
    if sym == "Q":
        return {"k": "req", "id": "$ID", "method": ["sampling/createMessage", "roots/list", "ping", "notifications/progress"][k % 4]}
    if sym == "O":
        return {"k": "resp", "id": {"s": f"other-{k}"}, "p": {"o": k}}
    if sym == "Oe":
        return {"k": "err", "id": {"s": f"other-{k}"}, "code": -32601, "msg": "other"}
    if sym == "T":  # int twin of a digit-string id / string twin handled by the case builder
        return {"k": "resp", "id": "$TWIN", "p": {"twin": k}}
    if sym == "N":
        return {"k": "notif", "method": ["notifications/message", "notifications/tools/list_changed", "notifications/cancelled"][k % 3], "params": {"k": k}}
    if sym == "G":
        return {"k": "progress", "token": "$TOK", "progress": [0.25, 1, None, 3, 0][k % 5], "total": [None, 10, 0][k % 3],
                "message": [None, "working", ""][(k // 2) % 3]}
    if sym == "Gp":  # progress notification without params (and one with params: null)
        return {"k": "progress_bare"}
    if sym == "Rx":  # response carrying extra top-level members
        return {"k": "resp", "id": "$ID", "p": {"v": k}, "extra": {"x-extra": [1, None], "meta": "m"}}
    if sym == "F":
        return {"k": "progress", "token": [{"s": "foreign"}, {"i": 5}, None][k % 3], "progress": 0.5, "total": 2, "message": "foreign"}
    if sym == "B":
        return {"k": "batch", "items": [{"k": "notif", "method": "notifications/message"}, {"k": "resp", "id": "$ID", "p": {"inbatch": k}}]}
    if sym == "X":  # wire objects at the edge of what the parser accepts; all carry a method
        return {"k": "raw", "d": RAW[k % len(RAW)]}
    raise ValueError(sym)


RAW = [
    {"jsonrpc": "2.0", "method": "notifications/progress", "params": [1, 2]},
    {"jsonrpc": "2.0", "method": "notifications/progress", "params": ["$TOK", 0.5, 1]},
    {"jsonrpc": "2.0", "method": "notifications/progress", "params": "text"},
    {"jsonrpc": "2.0", "method": "notifications/progress", "params": 7},
    {"jsonrpc": "2.0", "method": "notifications/progress", "params": None},
    {"jsonrpc": "2.0", "method": "notifications/progress", "params": {"progressToken": ["$TOK"], "progress": 1}},
    {"jsonrpc": "2.0", "method": "notifications/progress", "params": {"progressToken": {"t": "$TOK"}, "progress": 1}},
    {"jsonrpc": "2.0", "method": "notifications/message", "params": [1]},
    {"jsonrpc": "2.0", "method": "notifications/cancelled", "params": ["$ID"]},
    {"jsonrpc": "2.0", "id": "$ID", "method": "sampling/createMessage", "params": [1]},
    {"jsonrpc": "2.0", "id": "$ID", "method": "roots/list", "params": "text"},
    {"jsonrpc": "2.0", "method": 7},
    {"jsonrpc": "2.0", "method": "", "params": {}},
    {"jsonrpc": "2.0", "method": "notifications/progress", "params": {"progressToken": "$TOK", "progress": "half", "total": [2]}},
]


def fix_twin(ev, case_id):
    """Resolve $TWIN: the same id with the other JSON type (or a near miss when there is none)."""
    if ev.get("id") == "$TWIN":
        ev = dict(ev)
        if case_id is not None and "s" in case_id and case_id["s"].lstrip("-").isdigit():
            ev["id"] = {"i": int(case_id["s"])}
        elif case_id is not None and "s" in case_id:
            ev["id"] = {"s": case_id["s"] + " "}
        else:
            ev["id"] = {"i": 0}
    return ev


def needs_late(ev, case):
    """Events referring to an id/token that only exists after the request is written must not be
    scripted at tick 0."""
    s = repr(ev)
    cid = case.get("id")
    falsy = cid is not None and not (cid.get("s") if "s" in cid else cid.get("i"))
    return "$TOK" in s or ("$ID" in s and (cid is None or falsy))


def place(case):
    out = []
    last = 0
    for a, ev in case["ev"]:
        ev = fix_twin(ev, case.get("id"))
        if a == 0 and needs_late(ev, case):
            a = 1
        a = max(a, last)
        last = a
        out.append([a, ev])
    case["ev"] = out
    return case


TIME_PATTERNS = [
    lambda D, n: [10 * (i + 1) for i in range(n)],  # early burst
    lambda D, n: [P * (i + 1) for i in range(n)],  # on poll boundaries
    lambda D, n: [P * (i + 1) - 1 for i in range(n)],
    lambda D, n: [P * (i + 1) + 1 for i in range(n)],
    lambda D, n: [max(0, D - (n - 1 - i)) for i in range(n)],  # last one exactly at the deadline
    lambda D, n: [max(0, D - 1 - (n - 1 - i)) for i in range(n)],  # just before the deadline
    lambda D, n: [D + 1 + i for i in range(n)],  # after the deadline
    lambda D, n: [0] * n,  # already queued
]


def exhaustive(alphabet, max_len, Ds, ids, ties=("events", "timers", "io"), progress=False):
    k = 0
    for n in range(0, max_len + 1):
        for word in itertools.product(alphabet, repeat=n):
            for pi, pat in enumerate(TIME_PATTERNS):
                if n == 0 and pi > 0:
                    continue
                for D in Ds:
                    for tie in ties:
                        k += 1
                        cid = ids[k % len(ids)]
                        case = {
                            "id": cid, "method": "tools/list", "params": [None, {}, {"a": {"b": None}}][k % 3],
                            "D": D, "tie": tie, "progress": progress, "debug": k % 4 == 0,
                            "ev": [[a, sym_event(s, k=i + 1)] for i, (a, s) in enumerate(zip(pat(D, n), word))],
                        }
                        yield place(case)


def rand_time(rng, D):
    r = rng.random()
    if r < 0.45:
        return rng.randint(0, D + 64)
    base = rng.choice([0, P, 2 * P, 3 * P, D, D - P if D > P else 0])
    return max(0, base + rng.choice([-1, 0, 0, 1]))


def seeded(rng, alphabet, weights=None, max_len=12, ids=None, progress_p=0.5, cancel_p=0.0):
    D = rng.choice([P, P + 7, 2 * P, 2 * P + 100, 3 * P, 1100, 5 * P - 1, 1, 3, P - 1, 0])
    n = rng.randint(0, max_len)
    times = sorted(rand_time(rng, D) for _ in range(n))
    word = rng.choices(alphabet, weights=weights, k=n)
    case = {
        "id": rng.choice(ids or [{"s": "abc"}, {"s": "7"}, {"s": "-12"}, None, {"s": "9c0e2b0e-1b7f-4a52-9a55-2f1f7a0e3c11"},
                                 {"s": ""}, {"i": 0}, {"i": 7}, {"s": "0"}, {"s": " x "}, {"s": "%s %d {0} {}"}, {"s": "é\u2028😀"}]),
        "method": rng.choice(["tools/list", "resources/read", "x/y"]),
        "params": rng.choice([None, {}, {"a": {"b": None}}, {"_meta": {"k": 1}, "z": [1, None]},
                              # a params dict that already carries a progress token (a reused dict, a retry)
                              {"_meta": {"progressToken": "stale-token"}, "q": 1}, {"_meta": {"progressToken": 0}}]),
        "D": D, "tie": rng.choice(["events", "timers", "io"]),
        "progress": rng.random() < progress_p,
        "ev": [[a, sym_event(s, k=rng.randint(0, 9))] for a, s in zip(times, word)],
    }
    r = rng.random()
    # what kind of object the caller passes as its token (the code may only rely on its public surface)
    case["tokenKind"] = rng.choice(["plain", "plain", "linked", "duck"])
    if r < cancel_p:
        case["cancelAt"] = max(1, rand_time(rng, D))
    elif r < cancel_p + 0.04:
        case["pre"] = True
    elif r < cancel_p + 0.1:
        case["hasToken"] = True
    if rng.random() < 0.25:
        case["debug"] = True  # the host application runs with logging at DEBUG
    if rng.random() < 0.2:
        case["idSubclass"] = True  # the caller's id is an instance of a str subclass
    if rng.random() < 0.15:
        # the peer closes its end / stops reading after the request has been written
        case["writer"] = rng.choice(["closed", "blocked", "stalled", "stalled"])
        if case["writer"] == "stalled":
            # the peer reads again at that tick (never exactly at the deadline: a real tie)
            su = rng.choice([rng.randint(1, D + 200), P, P + 1, 2 * P - 1, max(1, D - 1), D + 1])
            case["stallUntil"] = su + 1 if su == D else su
    if case["progress"] and rng.random() < 0.3:
        case["cbRaises"] = sorted(set(rng.randint(0, 4) for _ in range(rng.randint(1, 3))))
        if rng.random() < 0.3:
            case["warnErr"] = True  # the host turns warnings into errors
        case["cbExc"] = rng.randint(0, 10)  # which exception class the failing callback raises
    if rng.random() < 0.05:
        case["warnErr"] = True
    return place(case)


def shrink_candidates(case):
    """Smaller variants of a case: drop an event, drop options, simplify times."""
    ev = case["ev"]
    for i in range(len(ev)):
        c = dict(case)
        c["ev"] = ev[:i] + ev[i + 1:]
        yield c
    if case.get("tokenKind", "plain") != "plain":
        yield dict(case, tokenKind="plain")
    if case.get("writer") == "stalled":
        yield dict(case, writer="blocked")
    for key in ("cbRaises", "hasToken", "params", "writer", "debug", "warnErr", "eos", "idSubclass", "cbAction"):
        if case.get(key):
            c = dict(case)
            c.pop(key)
            yield c
    if case.get("progress") and not any("$TOK" in repr(e) for _, e in ev):
        c = dict(case)
        c["progress"] = False
        c.pop("cbRaises", None)
        yield c
    if case.get("cancelAt") is not None:
        c = dict(case)
        c.pop("cancelAt")
        yield c
    if case["D"] > P + 1:
        c = dict(case)
        c["D"] = P + 1
        c["ev"] = [[min(a, P + 2), e] for a, e in ev]
        if c.get("cancelAt") is not None:
            c["cancelAt"] = min(c["cancelAt"], P + 2)
        yield c
