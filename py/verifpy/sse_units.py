"""C12 extension sweep: the pure decision logic next to the SSE transport, real functions vs the
Lean model (`Model/SseUnits.lean`, driver `sseunits`).

None of this is implied by the property text, so a difference here is INFORMATIONAL (evidence
note / distribution entry), never a divergence of the check.  Public functions are called as they
are (`SSEParameters(...)`, `create_sse_parameters_from_url`, `is_sse_url`); the private helpers of
`SSETransport` are called on an object that was never entered — if a refactor renames them the
case is recorded as unavailable.
"""
from __future__ import annotations

import asyncio
import itertools

HEADER_SETS = [None, {}, {"X-A": "1"}, {"Authorization": "Basic x"}, {"authorization": ""}, {"AUTHORIZATION": "k"},
               {"X-Authorization-Hint": "v"}, {"Proxy-Authorization": "p", "X-B": ""}, {"x-authorizatio": "n"},
               {"A": "1", "B": "2", "C": "3"}]
TOKENS = [None, "", "tok", "Bearer tok", "bearer tok", "Bearer ", " Bearer x", "Bearer Bearer x", "t k", "%s{}"]

BASES = ["http://h.test", "http://h.test/", "http://h.test/api", "http://h.test/messages/v1", "https://h.test:8080/x//"]
DATAS = ["/messages/?session_id=abc", " /mcp?session_id=s&x=1 \t", "session_id=q1", "a=b&session_id=7&c=d", "http://o.test/mcp?session_id=zz",
         "https://o.test/x?a=b", "httpx=1", "foo", "", "   ", "/", "//o.test/p", "?session_id=5", "/m?session_id=", "/m?session_id=a&session_id=b",
         "/m?xsession_id=1", "x/messages/y", "=", "http", "/messages/?SESSION_ID=up", "session_id=a=b", "/p?q=%7B%7D&session_id=%20"]

URLS = ["", "http://h", "https://h/", "http://h///", "ftp://h", "h", "HTTP://h", "http://", "https://", " http://h", "http:/h", "https://h.test/api//"]
NUMS = [-5, -1, -0.5, -1e-9, 0, 0.0, -0.0, 1e-9, 0.5, 1, 7, 1e9]
INTS = [-5, -1, 0, 1, 7]
PATHS = ["/sse", "sse", "", "//x", "a/b", "/"]

SSE_URLS = ["", "http://h/sse", "http://h/SSE", "http://h/Sse/x", "http://h/ssx", "http://events.test", "http://h/EvEnTs", "http://h/event", "http://stream",
            "http://h/upstreaming", "http://h:8080", "http://h:8081", "http://h:3000/x", "http://h:30000", "http://h/:808", "http://h", "x", "/", ":3000", "s/sse"]


def sign(v):
    return -1 if v < 0 else (1 if v > 0 else 0)


def cases(budget, rng):
    out = []
    for h, t in itertools.product(HEADER_SETS, TOKENS):
        out.append({"op": "headers", "headers": None if h is None else [[k, v] for k, v in h.items()], "tok": t})
    for i, (h, t) in enumerate(itertools.product(HEADER_SETS[::2], TOKENS[:4])):
        out.append({"op": "wire", "headers": None if h is None else [[k, v] for k, v in h.items()], "tok": t})
    for b, d in itertools.product(BASES, DATAS):
        out.append({"op": "endpoint", "base": b, "data": d})
    # validation: one field off at a time, plus seeded combinations
    good = {"url": "http://h.test", "timeout": 1, "max_reconnect_attempts": 5, "reconnect_delay": 1, "keep_alive_interval": 30,
            "sse_endpoint": "/sse", "message_endpoint_base": "/mcp"}
    k = 0
    for f, vals in (("url", URLS), ("timeout", NUMS), ("max_reconnect_attempts", INTS), ("reconnect_delay", NUMS),
                    ("keep_alive_interval", NUMS), ("sse_endpoint", PATHS), ("message_endpoint_base", PATHS)):
        for v in vals:
            k += 1
            out.append(dict(good, op="validate", via=("ctor", "helper")[k % 2], **{f: v}))
    n = 150 if budget == "quick" else 3000
    for i in range(n):
        out.append({"op": "validate", "via": ("ctor", "helper")[i % 2], "url": rng.choice(URLS), "timeout": rng.choice(NUMS),
                    "max_reconnect_attempts": rng.choice(INTS), "reconnect_delay": rng.choice(NUMS), "keep_alive_interval": rng.choice(NUMS),
                    "sse_endpoint": rng.choice(PATHS), "message_endpoint_base": rng.choice(PATHS)})
    for u in SSE_URLS:
        out.append({"op": "issse", "url": u})
    for i in range(60 if budget == "quick" else 2000):
        parts = [rng.choice(["http://", "https://", "", "HTTP://"]), rng.choice(["h", "events", "STREAM.io", "x.test", "sse"]),
                 rng.choice(["", ":8080", ":3000", ":80", ":30"]), rng.choice(["", "/sse", "/SsE", "/mcp", "/event-s", "/stre/am", "/Streams"])]
        out.append({"op": "issse", "url": "".join(parts)})
    out.append({"op": "bare"})
    return out


def model_line(case):
    c = dict(case)
    c["m"] = "sseunits"
    c.pop("via", None)
    if case["op"] == "wire":
        c["op"] = "headers"
    if case["op"] == "validate":
        for f in ("timeout", "max_reconnect_attempts", "reconnect_delay", "keep_alive_interval"):
            c[f] = sign(case[f])
    return c


def txt(cps):
    return None if cps is None else "".join(chr(c) for c in cps)


def model_obs(out, case):
    op = case["op"]
    if "driver_error" in out:
        return out
    if op in ("headers", "wire"):
        f = lambda hs: None if hs is None else [[txt(k), txt(v)] for k, v in hs]  # noqa: E731
        return {"params": f(out["params"]), "client": f(out["client"]), "direct": f(out["direct"])}
    if op == "endpoint":
        return {"url": txt(out["url"]), "sid": txt(out["sid"]), "connected": out["connected"], "gen": txt(out["gen"])}
    if op == "validate":
        if "ok" in out:
            return {"ok": {k: txt(v) for k, v in out["ok"].items()}}
        return {"bad": sorted(out["bad"])}
    return out


def run_impl(case):
    """the real functions; anything unavailable (renamed private helper) -> {"unavailable": ...}"""
    from chuk_mcp.transports.sse.parameters import SSEParameters
    from chuk_mcp.transports.sse.transport import SSETransport
    import importlib
    sc = importlib.import_module("chuk_mcp.transports.sse.sse_client")
    op = case["op"]
    try:
        if op == "headers":
            h = None if case["headers"] is None else {k: v for k, v in case["headers"]}
            kw = {}
            if h is not None:
                kw["headers"] = dict(h)
            if case["tok"] is not None:
                kw["bearer_token"] = case["tok"]
            p = SSEParameters(url="http://h.test", **kw)
            ph = None if p.headers is None else [[k, v] for k, v in p.headers.items()]
            t = SSETransport(p)
            client = [[k, v] for k, v in t._get_headers().items()]
            # the transport's own builder on the caller's raw values
            t2 = SSETransport(SSEParameters(url="http://h.test"))
            t2.headers = dict(h or {})
            t2.bearer_token = case["tok"]
            direct = [[k, v] for k, v in t2._get_headers().items()]
            return {"params": ph, "client": client, "direct": direct}
        if op == "wire":
            # what actually goes over the wire on the GET and on a POST of a real session
            from . import sse_h, sse_gen
            ps = {}
            if case["headers"] is not None:
                ps["headers"] = {k: v for k, v in case["headers"]}
            if case["tok"] is not None:
                ps["bearer_token"] = case["tok"]
            c = sse_gen.finish({"T": 256, "params": ps, "items": [sse_gen.EP], "t0": 1, "gap": 0, "reqs": [sse_gen.probe_req()]})
            o = sse_h.run_case(sse_gen.harness_case(c))
            return {"get": o.get("get_hdr"), "post": o.get("post_hdr")}
        if op == "endpoint":
            async def go():
                t = SSETransport(SSEParameters(url=case["base"]))
                before = t.is_connected()
                await t._handle_endpoint_event(case["data"])
                rep = repr(t)
                return {"url": t._message_url, "sid": t._session_id, "connected": t.is_connected() and not before,
                        "repr_ok": ("status=connected" in rep) == t.is_connected()}
            r = asyncio.run(go())
            r.pop("repr_ok")
            return r
        if op == "validate":
            kw = {k: case[k] for k in ("url", "timeout", "max_reconnect_attempts", "reconnect_delay", "keep_alive_interval", "sse_endpoint",
                                       "message_endpoint_base")}
            try:
                if case.get("via") == "helper":
                    url, timeout = kw.pop("url"), kw.pop("timeout")
                    p = sc.create_sse_parameters_from_url(url, timeout=timeout, **kw)
                else:
                    p = SSEParameters(**kw)
            except Exception as e:
                locs = sorted({str(err["loc"][0]) for err in e.errors()}) if hasattr(e, "errors") else ["?" + type(e).__name__]
                return {"bad": locs}
            return {"ok": {"url": p.url, "sse_endpoint": p.sse_endpoint, "message_endpoint_base": p.message_endpoint_base}}
        if op == "issse":
            return {"r": bool(sc.is_sse_url(case["url"]))}
        if op == "bare":
            async def go():
                t = SSETransport(SSEParameters(url="http://h.test"))
                try:
                    await t.get_streams()
                    streams = True
                except RuntimeError:
                    streams = False
                t.set_protocol_version("2025-06-18")
                await t._handle_sse_connection()       # no client yet: returns
                await t._outgoing_message_handler()    # no stream yet: returns
                await t._send_message_via_http({"jsonrpc": "2.0", "method": "x"})  # nothing to send with: returns
                connected = t.is_connected()
                await t._cleanup()                     # nothing to release
                return {"streams": streams, "connected": connected, "cleanup_noop": True}
            return asyncio.run(go())
    except AttributeError as e:
        return {"unavailable": str(e)[:120]}
    raise ValueError(op)
